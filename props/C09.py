"""C09 — uncertainties are first-order propagated from the inverse Hessian."""
from __future__ import annotations

from fractions import Fraction

import numpy as np

from symx import scalar as S
from symx import term as T
from symx.harness import Session
from symx.scalar import SymReal

from .common import facts, far, simp, tensor_of, term_of

PID = "C09"
LEVEL = "model_checking"
CLAIM = (
    "Bounded symbolic verification of tf-pwa's hand-written error propagation: every arithmetic operator of err_num.NumberError "
    "(either operand uncertain), log/exp/apply and cal_err run on symbolic values and errors and z3 decides that the returned error "
    "squared equals sum_k (df/dx_k sigma_k)^2 with the partials obtained by differentiating the returned value, and that it is "
    "non-negative; ParamsTrans.get_error / get_error_matrix = J V J^T for scalar, vector and list-valued quantities of the parameters "
    "(Jacobians written by hand, symbolic symmetric covariance, a fixed parameter must not contribute), VarsManager.trans_error_matrix = "
    "diag(y') V diag(y') for every bound type, and cal_hesse_error on a symbolic positive-definite Hessian (H x returned covariance = "
    "identity, errors^2 = its diagonal, n = 2, 3; LAPACK calls replaced by exact small-matrix models) are decided the same way. The "
    "quotient-rule gradients of the fit fractions are decided on the real amplitude models in the C03 harness (fractions.gradient). "
    "unsat = holds for all values, errors and covariance matrices in the stated domains."
)
NOTE = (
    "pow/log/exp are uninterpreted with their derivative rules; integrals and their gradients in the fit-fraction part are opaque "
    "leaves (the amplitude is C03); np.linalg.inv/eig replaced by exact adjugate-based models under the positive-definite precondition "
    "(this part checks the control flow around LAPACK, not LAPACK); the eigenvalue test check_positive_definite answers True under the assumed Sylvester conditions and the "
    "force_pos_def repair branches for indefinite matrices are outside the claim; n_par <= 3"
)
TECHNIQUE = "symbolic execution of err_num / fitfractions / params_trans / variable.trans_error_matrix / applications.cal_hesse_error on a symbolic tensorflow + numpy-proxy substitute; oracle = DAG derivative of the returned value; z3 nlsat per obligation"
EXPLANATION = CLAIM
FUNCTIONS = [
    "tf_pwa/err_num.py:NumberError.__add__", "tf_pwa/err_num.py:NumberError.__sub__", "tf_pwa/err_num.py:NumberError.__neg__", "tf_pwa/err_num.py:NumberError.__mul__",
    "tf_pwa/err_num.py:NumberError.__truediv__", "tf_pwa/err_num.py:NumberError.__pow__", "tf_pwa/err_num.py:NumberError.__rpow__", "tf_pwa/err_num.py:NumberError.log",
    "tf_pwa/err_num.py:NumberError.exp", "tf_pwa/err_num.py:NumberError.apply", "tf_pwa/err_num.py:cal_err",
    "tf_pwa/fitfractions.py:FitFractions.get_frac_grad", "tf_pwa/fitfractions.py:FitFractions.get_frac", "tf_pwa/fitfractions.py:cal_fitfractions", "tf_pwa/fitfractions.py:nll_funciton",
    "tf_pwa/params_trans.py:ParamsTrans.get_error", "tf_pwa/params_trans.py:ParamsTrans.get_grad", "tf_pwa/params_trans.py:ParamsTrans.get_error_matrix",
    "tf_pwa/variable.py:VarsManager.trans_error_matrix", "tf_pwa/applications.py:cal_hesse_error", "tf_pwa/applications.py:fit_fractions",
]
ASSUMPTIONS = [
    "reals stand in for doubles",
    "a ** b, log, exp are uninterpreted functions with the derivative rules d/da a^b = b a^(b-1), d/db a^b = a^b ln a, (ln x)' = 1/x, (e^x)' = e^x",
    "errors sigma >= 0; domains: divisors non-zero, bases and log arguments positive",
    "numerical differentiation branches (grad=None) are outside the claim (they are approximations by construction)",
]
TRUSTED = []


def bounds(tier):
    return {"operators": "all of NumberError with (uncertain, uncertain), (uncertain, scalar), (scalar, uncertain)", "n_par": "<= 3", "bound_types": 4}


def jobs(tier, seed):
    out = [("errnum", op) for op in ("add", "sub", "neg", "mul", "div", "pow", "rpow", "log", "exp", "apply", "cal_err", "radd_like")]
    out += [("trans_error_matrix", k) for k in ("two", "lower", "upper", "custom")]
    out += [("frac_grad",), ("params_trans",), ("hesse", 2), ("hesse", 3)]
    return out


def _sig(name):
    x = S.real(name)
    S.assume(x >= 0)
    return x


def _check(ss, name, res, inputs, key=None, pay=None, extra=()):
    """res: NumberError; inputs: list of (value SymReal, sigma SymReal or None)"""
    val = res._value
    err = res._error
    vt = val.t if isinstance(val, SymReal) else T.const(float(val), "R")
    et = err.t if isinstance(err, SymReal) else T.const(float(err), "R")
    F = facts() + list(extra)
    vt, et = [x.t for x in simp(F, SymReal(vt), SymReal(et))]
    ref = T.ZERO
    for v, sg in inputs:
        if sg is None:
            continue
        d = T.diff(vt, v.t)
        ref = T.add(ref, T.mul(d, d, sg.t, sg.t))
    ref = simp(F, SymReal(ref)).t
    ss.prove(name + ".error_squared", F, far(T.mul(et, et), ref, 0), key=(key or name) + ".error_squared", payload=pay, timeout=60,
             describe="sigma_f^2 = sum_k (df/dx_k)^2 sigma_k^2 with the partial derivatives of the returned value")
    ss.prove(name + ".error_nonnegative", F, T.lt(et, T.ZERO), key=(key or name) + ".error_nonnegative", payload=pay, timeout=60, describe="the reported error is not negative")


def _pm(kind, **kw):
    def f(m):
        return dict(kind=kind, model={k: float(v) for k, v in m.items() if not k.startswith(("sqrt#", "uf_"))}, **kw)

    return f


def job_errnum(ss, op):
    from tf_pwa.err_num import NumberError, cal_err

    a, b = S.real("a"), S.real("b")
    sa, sb = _sig("sa"), _sig("sb")
    c = S.real("c")
    A, B = NumberError(a, sa), NumberError(b, sb)
    pay = _pm("errnum", op=op)
    if op == "add":
        _check(ss, "errnum.add", A + B, [(a, sa), (b, sb)], pay=pay)
        _check(ss, "errnum.add_scalar", A + c, [(a, sa)], pay=pay)
    elif op == "sub":
        _check(ss, "errnum.sub", A - B, [(a, sa), (b, sb)], pay=pay)
        _check(ss, "errnum.sub_scalar", A - c, [(a, sa)], pay=pay)
    elif op == "neg":
        _check(ss, "errnum.neg", -A, [(a, sa)], pay=pay)
    elif op == "mul":
        _check(ss, "errnum.mul", A * B, [(a, sa), (b, sb)], pay=pay)
        _check(ss, "errnum.mul_scalar", A * c, [(a, sa)], pay=pay)
    elif op == "div":
        S.assume(b != 0)
        S.assume(c != 0)
        _check(ss, "errnum.div", A / B, [(a, sa), (b, sb)], pay=pay)
        _check(ss, "errnum.div_scalar", A / c, [(a, sa)], pay=pay)
    elif op == "pow":
        S.assume(a > 0)
        _check(ss, "errnum.pow_number", A ** 3, [(a, sa)], pay=pay)
        _check(ss, "errnum.pow_negative_int", A ** (-2), [(a, sa)], pay=pay)
        # a^(b-1) and a^b are two applications of the uninterpreted exp: a^(b-1) a = a^b is instantiated
        la = T.uf("log", a.t)
        ax = T.eq(T.mul(T.uf("exp", T.mul(T.sub(b.t, T.ONE), la)), a.t), T.uf("exp", T.mul(b.t, la)))
        _check(ss, "errnum.pow_uncertain_exponent", A ** B, [(a, sa), (b, sb)], pay=pay, extra=[ax])
    elif op == "rpow":
        S.assume(c > 0)
        _check(ss, "errnum.rpow", c ** A, [(a, sa)], pay=pay)
    elif op == "log":
        S.assume(a > 0)
        _check(ss, "errnum.log", A.log(), [(a, sa)], pay=pay)
    elif op == "exp":
        _check(ss, "errnum.exp", A.exp(), [(a, sa)], pay=pay)
    elif op == "apply":
        f = lambda x: x * x * x + 2 * x
        g = lambda x: 3 * x * x + 2
        _check(ss, "errnum.apply", A.apply(f, grad=g), [(a, sa)], pay=pay)
    elif op == "cal_err":
        S.assume(b != 0)
        f = lambda x, y, z: x * x / y + z
        g = lambda x, y, z: [2 * x / y, -x * x / (y * y), 1]
        _check(ss, "errnum.cal_err", cal_err(f, A, B, c, grad=g), [(a, sa), (b, sb)], pay=pay)
    elif op == "radd_like":
        # chained expression: (A*B - A)/B
        S.assume(b != 0)
        r = (A * B - NumberError(c, S.SymReal(T.ZERO))) / B
        # A and B each used twice as independent objects is first-order exact only per operator; check the per-operator rule on a fresh chain
        C_ = NumberError(S.real("cc"), _sig("sc"))
        _check(ss, "errnum.chain", (A * B) / C_, [(a, sa), (b, sb), (C_._value, C_._error)], pay=pay, extra=[T.bnot(T.eq(C_._value.t, T.ZERO))])
    ss.witness("errnum.reach[%s]" % op, facts())


# ------------------------------------------------------------- V_y = y' V_x y'


def job_trans_error_matrix(ss, kind):
    import sympy as sy

    from symx import pybuiltins as PB
    from symx.npproxy import NumpyProxy
    from symx.sympy_bridge import translate
    import tf_pwa.variable as var
    from tf_pwa.variable import VarsManager

    from .C07 import _bound, _d_dx, _SympyProxy

    var.float = PB.sym_float
    old_np = var.np
    var.np = NumpyProxy()
    try:
        import tensorflow as tf

        vm = VarsManager(dtype=tf.float64)
        for n in ("a", "b", "c"):
            vm.add_real_var(n, value=1.0)
        b = _bound(kind)
        bf = b.f
        for attr in ("f", "df", "df2", "inv"):
            setattr(b, attr, _SympyProxy(getattr(b, attr)))
        vm.bnd_dic["b"] = b
        xb = S.angle("xb", D=1) if kind == "two" else S.real("xb")
        xs = np.array([S.real("xa"), xb, S.real("xc")], dtype=object)
        V = np.empty((3, 3), dtype=object)
        for i in range(3):
            for k in range(i, 3):
                V[i, k] = V[k, i] = S.real("V_%d_%d" % (i, k))
        out = vm.trans_error_matrix(V, xs)
        yb = translate(bf, {sy.Symbol("x"): xb})
        dy = _d_dx(yb.t, "xb") if kind == "two" else T.diff(yb.t, xb.t)
        dydx = [T.ONE, dy, T.ONE]
        F = facts()
        pay = _pm("trans_error_matrix", bound=kind)
        for i in range(3):
            for k in range(3):
                got = out[i, k]
                gt = got.t if isinstance(got, SymReal) else T.const(float(got), "R")
                ref = T.mul(dydx[i], V[i, k].t, dydx[k])
                ss.prove("trans_error_matrix[%s,%d,%d]" % (kind, i, k), F, far(gt, ref, 0), key="trans_error_matrix", payload=pay, timeout=60,
                         describe="V_y = diag(y'(x)) V_x diag(y'(x)) with y' the derivative of the bound transform (taken by the engine, not by sympy)")
        ss.mutant("trans_error_matrix.mutant[%s]" % kind, F, far(out[1, 1].t, T.mul(dy, V[1, 1].t), 0))
    finally:
        del var.float
        var.np = old_np


def job_frac_grad(ss):
    ss.outside("frac_grad", "decided on the real amplitude models in the C03 harness (fractions.gradient obligations)")


def job_params_trans(ss):
    """ParamsTrans.get_error / get_error_matrix: sqrt(J V J^T) with the Jacobians written by hand"""
    import tensorflow as tf
    from symx import symtf
    from tf_pwa.params_trans import ParamsTrans
    from tf_pwa.variable import VarsManager
    import tf_pwa.params_trans as ptm
    from symx.npproxy import NumpyProxy

    symtf.STATE.var_leaves = True
    symtf.reset_state()
    vm = VarsManager(dtype=tf.float64)
    for n in ("a", "b", "c", "f"):
        vm.add_real_var(n, value=1.0)
    vm.set_fix("f")
    th = {}
    for n in ("a", "b", "c", "f"):
        th[n] = S.real("th_" + n)
        vm.variables[n].assign(tensor_of(th[n]))
    S.assume(th["b"] > Fraction(1, 10))
    V = np.empty((3, 3), dtype=object)
    for i in range(3):
        for j in range(i, 3):
            V[i, j] = V[j, i] = S.real("V_%d%d" % (i, j))
    Vt = tensor_of(V)
    old_np, old_print = ptm.__dict__.get("np"), ptm.__dict__.get("print")
    ptm.np = NumpyProxy()
    ptm.print = lambda *a, **k: None
    try:
        pt = ParamsTrans(vm, Vt)
        with pt.trans() as p:
            a, b, c, f = p["a"], p["b"], p["c"], p["f"]
            ys = {
                "poly": a * b + c * f,
                "ratio": a / b,
                "norm": tf.sqrt(a * a + b * b + 1.0),
                "mixed": tf.exp(c) * a - b * b * b,
            }
            yv = tf.stack([a * b, a + c * c])
        A, B, C, Fv = th["a"], th["b"], th["c"], th["f"]
        one = SymReal(T.ONE)
        zero = SymReal(T.ZERO)
        nrm = (A * A + B * B + 1).sqrt()
        ec = SymReal(T.uf("exp", C.t))
        J = {
            "poly": [B, A, Fv],
            "ratio": [one / B, -(A / (B * B)), zero],
            "norm": [A / nrm, B / nrm, zero],
            "mixed": [ec, -(3 * B * B), ec * A],
        }
        Jv = [[B, A, zero], [one, zero, 2 * C]]

        def quad(j1, j2):
            acc = SymReal(T.ZERO)
            for i in range(3):
                for k in range(3):
                    acc = acc + j1[i] * V[i, k] * j2[k]
            return acc

        pay = lambda m: dict(kind="params_trans", model={k: float(v) for k, v in m.items() if not k.startswith(("sqrt#", "uf_", "V!"))})
        names = list(vm.trainable_vars)
        ss.concrete("params_trans.free_order", names == ["a", "b", "c"], key="params_trans", payload=dict(kind="params_trans_order"), describe="free parameters a, b, c in this order; f fixed (its derivative must not enter)")
        for k, y in ys.items():
            var2 = quad(J[k], J[k])
            S.assume(var2 > 0)
            err = pt.get_error(y, keep=True)
            e = symtf.resolve_bindings(term_of(err.arr.reshape(-1)[0]))
            F = facts()
            e = simp(F, e)
            ss.prove("params_trans.get_error[%s]" % k, F, far(T.mul(e, e), symtf.resolve_bindings(var2.t), 0), key="params_trans.get_error", payload=pay, timeout=90, ackermann=False,
                     describe="get_error(y)^2 = J V J^T with J the hand-written Jacobian of y with respect to the free parameters")
            ss.prove("params_trans.get_error_nonneg[%s]" % k, F, T.lt(e, T.ZERO), key="params_trans.get_error", payload=pay, timeout=60, ackermann=False)
        ev = pt.get_error(yv, keep=True)
        for r in range(2):
            var2 = quad(Jv[r], Jv[r])
            S.assume(var2 > 0)
        F = facts()
        for r in range(2):
            e = simp(F, symtf.resolve_bindings(term_of(ev.arr.reshape(-1)[r])))
            ss.prove("params_trans.get_error_vector[%d]" % r, F, far(T.mul(e, e), symtf.resolve_bindings(quad(Jv[r], Jv[r]).t), 0), key="params_trans.get_error", payload=pay, timeout=90, ackermann=False,
                     describe="vector-valued quantity: component errors are sqrt(diag(J V J^T))")
        M = pt.get_error_matrix([ys["poly"], ys["ratio"]], keep=True)
        M = np.asarray(getattr(M, "arr", M), dtype=object)
        Js = [J["poly"], J["ratio"]]
        for r in range(2):
            for q in range(2):
                m = M[r, q]
                if hasattr(m, "arr"):
                    m = m.arr.reshape(-1)[0]
                mt = symtf.resolve_bindings(m.t if isinstance(m, SymReal) else term_of(m))
                ss.prove("params_trans.get_error_matrix[%d,%d]" % (r, q), F, far(simp(F, mt), symtf.resolve_bindings(quad(Js[r], Js[q]).t), 0), key="params_trans.get_error_matrix", payload=pay, timeout=90, ackermann=False,
                         describe="get_error_matrix = J V J^T")
        # error matrix of a vector-valued quantity
        try:
            Mv = pt.get_error_matrix(yv, keep=True)
            Mv = np.asarray(getattr(Mv, "arr", Mv), dtype=object)
            shape_ok = Mv.shape == (2, 2)
        except Exception as e:
            Mv, shape_ok = None, False
            ss._rec(kind="obligation", name="params_trans.get_error_matrix_vector.raises", key="params_trans.get_error_matrix_vector", status="sat", raised="%s: %s" % (type(e).__name__, str(e)[:200]), seconds=0.0,
                    payload=dict(kind="params_trans_vector", expect_raise=True))
        if Mv is not None:
            ss.concrete("params_trans.get_error_matrix_vector.shape", shape_ok, key="params_trans.get_error_matrix_vector", payload=dict(kind="params_trans_vector"), describe="2 x 2 covariance for a 2-vector")
            if shape_ok:
                for r in range(2):
                    for q in range(2):
                        m = Mv[r, q]
                        if hasattr(m, "arr"):
                            m = m.arr.reshape(-1)[0]
                        mt = symtf.resolve_bindings(m.t if isinstance(m, SymReal) else term_of(m))
                        ss.prove("params_trans.get_error_matrix_vector[%d,%d]" % (r, q), F, far(simp(F, mt), symtf.resolve_bindings(quad(Jv[r], Jv[q]).t), 0), key="params_trans.get_error_matrix_vector",
                                 payload=lambda mod: dict(kind="params_trans_vector", model={k: float(v) for k, v in mod.items() if not k.startswith(("sqrt#", "uf_", "V!"))}), timeout=90, ackermann=False, presample=10,
                                 describe="get_error_matrix of a vector-valued quantity = J V J^T")
        e0 = simp(F, symtf.resolve_bindings(term_of(pt.get_error(ys["poly"], keep=True).arr.reshape(-1)[0])))
        ss.mutant("params_trans.mutant_no_covariance", F, far(T.mul(e0, e0), (B * B * V[0, 0] + A * A * V[1, 1] + Fv * Fv * V[2, 2]).t, 0))
    finally:
        for k_, old in (("np", old_np), ("print", old_print)):
            if old is None:
                ptm.__dict__.pop(k_, None)
            else:
                ptm.__dict__[k_] = old


def _sym_inv(h):
    """inverse of a small symbolic matrix by the adjugate formula (stands for numpy.linalg.inv in the module under analysis)"""
    h = np.asarray(getattr(h, "arr", h), dtype=object)
    n = h.shape[0]
    if n == 2:
        det = h[0, 0] * h[1, 1] - h[0, 1] * h[1, 0]
        out = np.empty((2, 2), dtype=object)
        out[0, 0], out[0, 1], out[1, 0], out[1, 1] = h[1, 1] / det, -h[0, 1] / det, -h[1, 0] / det, h[0, 0] / det
        return out
    if n == 3:
        c = lambda i, j: h[(i + 1) % 3, (j + 1) % 3] * h[(i + 2) % 3, (j + 2) % 3] - h[(i + 1) % 3, (j + 2) % 3] * h[(i + 2) % 3, (j + 1) % 3]
        det = h[0, 0] * c(0, 0) + h[0, 1] * c(0, 1) + h[0, 2] * c(0, 2)
        out = np.empty((3, 3), dtype=object)
        for i in range(3):
            for j in range(3):
                out[i, j] = c(j, i) / det
        return out
    raise ValueError(n)


def job_hesse(ss, n):
    """cal_hesse_error: errors = sqrt(diag(H^-1)) for a positive definite Hessian returned by the likelihood"""
    import tensorflow as tf
    import tf_pwa.applications as app
    from symx.npproxy import NumpyProxy

    H = np.empty((n, n), dtype=object)
    for i in range(n):
        for j in range(i, n):
            H[i, j] = H[j, i] = S.real("H_%d%d" % (i, j))
    # positive definite: leading principal minors > 0 (Sylvester)
    S.assume(H[0, 0] > Fraction(1, 100))
    d2 = H[0, 0] * H[1, 1] - H[0, 1] * H[1, 0]
    S.assume(d2 > Fraction(1, 100))
    if n == 3:
        d3 = H[0, 0] * (H[1, 1] * H[2, 2] - H[1, 2] * H[2, 1]) - H[0, 1] * (H[1, 0] * H[2, 2] - H[1, 2] * H[2, 0]) + H[0, 2] * (H[1, 0] * H[2, 1] - H[1, 1] * H[2, 0])
        S.assume(d3 > Fraction(1, 100))

    class FCN:
        def nll_grad_hessian(self, params):
            return tensor_of(S.real("nll")), tensor_of(np.array([S.real("g%d" % i) for i in range(n)], dtype=object)), tensor_of(H)

    def sqrt(x):
        a = np.asarray(x, dtype=object)
        out = np.empty(a.shape, dtype=object)
        for i in np.ndindex(*a.shape):
            out[i] = a[i].sqrt() if isinstance(a[i], SymReal) else float(a[i]) ** 0.5
        return out

    def fabs(x):
        a = np.asarray(x, dtype=object)
        out = np.empty(a.shape, dtype=object)
        for i in np.ndindex(*a.shape):
            out[i] = abs(a[i])
        return out

    saved = {k: app.__dict__.get(k) for k in ("np", "check_positive_definite", "print")}
    app.np = NumpyProxy(linalg={"inv": _sym_inv, "pinv": _sym_inv}, sqrt=sqrt, fabs=fabs)
    # the eigenvalue test of a positive definite matrix (assumed: Sylvester's criterion above) answers True
    app.check_positive_definite = lambda m: True
    app.print = lambda *a, **k: None
    try:
        errs, inv_he = app.cal_hesse_error(FCN(), {}, save_npy=False)
    finally:
        for k, v in saved.items():
            if v is None:
                app.__dict__.pop(k, None)
            else:
                app.__dict__[k] = v
    inv_he = np.asarray(inv_he, dtype=object)
    F = facts()
    pay = lambda m: dict(kind="hesse", n=n, model={k: float(v) for k, v in m.items() if k.startswith("H_")})
    ss.witness("hesse.reach[%d]" % n, F)
    for i in range(n):
        for j in range(n):
            acc = SymReal(T.ZERO)
            for k in range(n):
                acc = acc + H[i, k] * inv_he[k, j]
            ss.prove("hesse.inverse[%d,%d,%d]" % (n, i, j), F, far(acc.t, T.ONE if i == j else T.ZERO, 0), key="hesse.inverse", payload=pay, timeout=90, describe="H x (returned covariance) = identity")
        e = errs[i]
        et = simp(F, e.t if isinstance(e, SymReal) else term_of(e))
        ss.prove("hesse.error[%d,%d]" % (n, i), F, far(T.mul(et, et), inv_he[i, i].t, 0), key="hesse.error", payload=pay, timeout=90, describe="reported uncertainty squared = diagonal element of the inverse Hessian")
        ss.prove("hesse.error_nonneg[%d,%d]" % (n, i), F, T.lt(et, T.ZERO), key="hesse.error", payload=pay, timeout=60)
        ss.prove("hesse.diag_positive[%d,%d]" % (n, i), F, T.le(inv_he[i, i].t, T.ZERO), key="hesse.error", payload=pay, timeout=90, describe="diagonal of the inverse of a positive definite matrix is positive (so |.| is the identity)")
    ss.mutant("hesse.mutant[%d]" % n, F, far(T.mul(simp(F, errs[0].t), simp(F, errs[0].t)), T.div(T.ONE, H[0, 0].t), 0))


def run_job(job):
    ss = Session(job)
    globals()["job_" + job[0]](ss, *job[1:])
    return ss.records
