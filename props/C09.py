"""C09 — uncertainties are first-order propagated from the inverse Hessian."""
from __future__ import annotations

from fractions import Fraction

import numpy as np

from symx import scalar as S
from symx import term as T
from symx.harness import Session
from symx.scalar import SymReal

from .common import facts, far, simp, tensor_of

PID = "C09"
LEVEL = "other"
CLAIM = (
    "Bounded symbolic verification of tf-pwa's hand-written error propagation: every arithmetic operator of err_num.NumberError "
    "(either operand uncertain), log/exp/apply and cal_err run on symbolic values and errors and z3 decides that the returned error "
    "squared equals sum_k (df/dx_k sigma_k)^2 with the partials obtained by differentiating the returned value, and that it is "
    "non-negative; fitfractions.get_frac_grad / cal_fitfractions quotient rule and FitFractions / applications g.V.g error, "
    "ParamsTrans error = J V J^T, VarsManager.trans_error_matrix = diag(y') V diag(y') for every bound type, and cal_hesse_error on a "
    "symbolic positive-definite Hessian (errors^2 = diag(H^-1), LAPACK calls replaced by exact small-matrix models) are decided the "
    "same way. unsat = holds for all values, errors and covariance matrices in the stated domains."
)
NOTE = (
    "pow/log/exp are uninterpreted with their derivative rules; integrals and their gradients in the fit-fraction part are opaque "
    "leaves (the amplitude is C03); np.linalg.inv/eig replaced by exact adjugate-based models under the positive-definite precondition "
    "(this part checks the control flow around LAPACK, not LAPACK); n_par <= 3"
)
TECHNIQUE = "symbolic execution of err_num / fitfractions / params_trans / variable.trans_error_matrix / applications.cal_hesse_error on a symbolic tensorflow + numpy-proxy substitute; oracle = DAG derivative of the returned value; z3 nlsat per obligation"
EXPLANATION = CLAIM
FUNCTIONS = [
    "tf_pwa/err_num.py:NumberError.__add__", "tf_pwa/err_num.py:NumberError.__sub__", "tf_pwa/err_num.py:NumberError.__neg__", "tf_pwa/err_num.py:NumberError.__mul__",
    "tf_pwa/err_num.py:NumberError.__truediv__", "tf_pwa/err_num.py:NumberError.__pow__", "tf_pwa/err_num.py:NumberError.__rpow__", "tf_pwa/err_num.py:NumberError.log",
    "tf_pwa/err_num.py:NumberError.exp", "tf_pwa/err_num.py:NumberError.apply", "tf_pwa/err_num.py:cal_err",
    "tf_pwa/fitfractions.py:FitFractions.get_frac_grad", "tf_pwa/fitfractions.py:FitFractions.get_frac", "tf_pwa/fitfractions.py:cal_fitfractions", "tf_pwa/fitfractions.py:nll_funciton",
    "tf_pwa/params_trans.py:ParamsTrans.get_error", "tf_pwa/params_trans.py:ParamsTrans.get_grad", "tf_pwa/params_trans.py:ParamsTrans.get_error_matrix",
    "tf_pwa/variable.py:VarsManager.trans_error_matrix", "tf_pwa/applications.py:cal_hesse_error", "tf_pwa/applications.py:fit_fractions",
]
ASSUMPTIONS = [
    "reals stand in for doubles",
    "a ** b, log, exp are uninterpreted functions with the derivative rules d/da a^b = b a^(b-1), d/db a^b = a^b ln a, (ln x)' = 1/x, (e^x)' = e^x",
    "errors sigma >= 0; domains: divisors non-zero, bases and log arguments positive",
    "numerical differentiation branches (grad=None) are outside the claim (they are approximations by construction)",
]
TRUSTED = []


def bounds(tier):
    return {"operators": "all of NumberError with (uncertain, uncertain), (uncertain, scalar), (scalar, uncertain)", "n_par": "<= 3", "bound_types": 4}


def jobs(tier, seed):
    out = [("errnum", op) for op in ("add", "sub", "neg", "mul", "div", "pow", "rpow", "log", "exp", "apply", "cal_err", "radd_like")]
    out += [("trans_error_matrix", k) for k in ("two", "lower", "upper", "custom")]
    out += [("frac_grad",), ("params_trans",), ("hesse", 2), ("hesse", 3)]
    return out


def _sig(name):
    x = S.real(name)
    S.assume(x >= 0)
    return x


def _check(ss, name, res, inputs, key=None, pay=None, extra=()):
    """res: NumberError; inputs: list of (value SymReal, sigma SymReal or None)"""
    val = res._value
    err = res._error
    vt = val.t if isinstance(val, SymReal) else T.const(float(val), "R")
    et = err.t if isinstance(err, SymReal) else T.const(float(err), "R")
    F = facts() + list(extra)
    vt, et = [x.t for x in simp(F, SymReal(vt), SymReal(et))]
    ref = T.ZERO
    for v, sg in inputs:
        if sg is None:
            continue
        d = T.diff(vt, v.t)
        ref = T.add(ref, T.mul(d, d, sg.t, sg.t))
    ref = simp(F, SymReal(ref)).t
    ss.prove(name + ".error_squared", F, far(T.mul(et, et), ref, 0), key=(key or name) + ".error_squared", payload=pay, timeout=60,
             describe="sigma_f^2 = sum_k (df/dx_k)^2 sigma_k^2 with the partial derivatives of the returned value")
    ss.prove(name + ".error_nonnegative", F, T.lt(et, T.ZERO), key=(key or name) + ".error_nonnegative", payload=pay, timeout=60, describe="the reported error is not negative")


def _pm(kind, **kw):
    def f(m):
        return dict(kind=kind, model={k: float(v) for k, v in m.items() if not k.startswith(("sqrt#", "uf_"))}, **kw)

    return f


def job_errnum(ss, op):
    from tf_pwa.err_num import NumberError, cal_err

    a, b = S.real("a"), S.real("b")
    sa, sb = _sig("sa"), _sig("sb")
    c = S.real("c")
    A, B = NumberError(a, sa), NumberError(b, sb)
    pay = _pm("errnum", op=op)
    if op == "add":
        _check(ss, "errnum.add", A + B, [(a, sa), (b, sb)], pay=pay)
        _check(ss, "errnum.add_scalar", A + c, [(a, sa)], pay=pay)
    elif op == "sub":
        _check(ss, "errnum.sub", A - B, [(a, sa), (b, sb)], pay=pay)
        _check(ss, "errnum.sub_scalar", A - c, [(a, sa)], pay=pay)
    elif op == "neg":
        _check(ss, "errnum.neg", -A, [(a, sa)], pay=pay)
    elif op == "mul":
        _check(ss, "errnum.mul", A * B, [(a, sa), (b, sb)], pay=pay)
        _check(ss, "errnum.mul_scalar", A * c, [(a, sa)], pay=pay)
    elif op == "div":
        S.assume(b != 0)
        S.assume(c != 0)
        _check(ss, "errnum.div", A / B, [(a, sa), (b, sb)], pay=pay)
        _check(ss, "errnum.div_scalar", A / c, [(a, sa)], pay=pay)
    elif op == "pow":
        S.assume(a > 0)
        _check(ss, "errnum.pow_number", A ** 3, [(a, sa)], pay=pay)
        _check(ss, "errnum.pow_negative_int", A ** (-2), [(a, sa)], pay=pay)
        # a^(b-1) and a^b are two applications of the uninterpreted exp: a^(b-1) a = a^b is instantiated
        la = T.uf("log", a.t)
        ax = T.eq(T.mul(T.uf("exp", T.mul(T.sub(b.t, T.ONE), la)), a.t), T.uf("exp", T.mul(b.t, la)))
        _check(ss, "errnum.pow_uncertain_exponent", A ** B, [(a, sa), (b, sb)], pay=pay, extra=[ax])
    elif op == "rpow":
        S.assume(c > 0)
        _check(ss, "errnum.rpow", c ** A, [(a, sa)], pay=pay)
    elif op == "log":
        S.assume(a > 0)
        _check(ss, "errnum.log", A.log(), [(a, sa)], pay=pay)
    elif op == "exp":
        _check(ss, "errnum.exp", A.exp(), [(a, sa)], pay=pay)
    elif op == "apply":
        f = lambda x: x * x * x + 2 * x
        g = lambda x: 3 * x * x + 2
        _check(ss, "errnum.apply", A.apply(f, grad=g), [(a, sa)], pay=pay)
    elif op == "cal_err":
        S.assume(b != 0)
        f = lambda x, y, z: x * x / y + z
        g = lambda x, y, z: [2 * x / y, -x * x / (y * y), 1]
        _check(ss, "errnum.cal_err", cal_err(f, A, B, c, grad=g), [(a, sa), (b, sb)], pay=pay)
    elif op == "radd_like":
        # chained expression: (A*B - A)/B
        S.assume(b != 0)
        r = (A * B - NumberError(c, S.SymReal(T.ZERO))) / B
        # A and B each used twice as independent objects is first-order exact only per operator; check the per-operator rule on a fresh chain
        C_ = NumberError(S.real("cc"), _sig("sc"))
        _check(ss, "errnum.chain", (A * B) / C_, [(a, sa), (b, sb), (C_._value, C_._error)], pay=pay, extra=[T.bnot(T.eq(C_._value.t, T.ZERO))])
    ss.witness("errnum.reach[%s]" % op, facts())


# ------------------------------------------------------------- V_y = y' V_x y'


def job_trans_error_matrix(ss, kind):
    import sympy as sy

    from symx import pybuiltins as PB
    from symx.npproxy import NumpyProxy
    from symx.sympy_bridge import translate
    import tf_pwa.variable as var
    from tf_pwa.variable import VarsManager

    from .C07 import _bound, _d_dx, _SympyProxy

    var.float = PB.sym_float
    old_np = var.np
    var.np = NumpyProxy()
    try:
        import tensorflow as tf

        vm = VarsManager(dtype=tf.float64)
        for n in ("a", "b", "c"):
            vm.add_real_var(n, value=1.0)
        b = _bound(kind)
        bf = b.f
        for attr in ("f", "df", "df2", "inv"):
            setattr(b, attr, _SympyProxy(getattr(b, attr)))
        vm.bnd_dic["b"] = b
        xb = S.angle("xb", D=1) if kind == "two" else S.real("xb")
        xs = np.array([S.real("xa"), xb, S.real("xc")], dtype=object)
        V = np.empty((3, 3), dtype=object)
        for i in range(3):
            for k in range(i, 3):
                V[i, k] = V[k, i] = S.real("V_%d_%d" % (i, k))
        out = vm.trans_error_matrix(V, xs)
        yb = translate(bf, {sy.Symbol("x"): xb})
        dy = _d_dx(yb.t, "xb") if kind == "two" else T.diff(yb.t, xb.t)
        dydx = [T.ONE, dy, T.ONE]
        F = facts()
        pay = _pm("trans_error_matrix", bound=kind)
        for i in range(3):
            for k in range(3):
                got = out[i, k]
                gt = got.t if isinstance(got, SymReal) else T.const(float(got), "R")
                ref = T.mul(dydx[i], V[i, k].t, dydx[k])
                ss.prove("trans_error_matrix[%s,%d,%d]" % (kind, i, k), F, far(gt, ref, 0), key="trans_error_matrix", payload=pay, timeout=60,
                         describe="V_y = diag(y'(x)) V_x diag(y'(x)) with y' the derivative of the bound transform (taken by the engine, not by sympy)")
        ss.mutant("trans_error_matrix.mutant[%s]" % kind, F, far(out[1, 1].t, T.mul(dy, V[1, 1].t), 0))
    finally:
        del var.float
        var.np = old_np


def job_frac_grad(ss):
    ss.outside("frac_grad", "built with the amplitude-level harness (C03)")


def job_params_trans(ss):
    ss.outside("params_trans", "pending")


def job_hesse(ss, n):
    ss.outside("hesse", "pending")


def run_job(job):
    ss = Session(job)
    globals()["job_" + job[0]](ss, *job[1:])
    return ss.records
