"""C10: replays / conformance on the real code."""
import math

import numpy as np


CASCADES = {
    "depth1": (5.0, [(3.0, [0.5, 0.25]), 1.0]),
    "depth2": (5.0, [(3.5, [(1.5, [0.5, 0.25]), 0.75]), 1.0]),
    "depth2b": (5.0, [1.0, (3.5, [0.75, (1.5, [0.5, 0.25])])]),
    "siblings": (6.0, [(2.0, [0.5, 0.25]), (3.0, [0.75, 1.0])]),
    "depth3": (8.0, [0.125, (6.0, [(4.0, [0.375, (2.5, [1.0, (1.25, [0.25, 0.5])])]), 0.625])]),
    "mixed": (9.0, [(3.0, [0.5, 0.25, 0.75]), (4.5, [(2.0, [0.5, 1.0]), 0.125, 1.5])]),
}


def conformance(tier):
    import tensorflow as tf
    from tf_pwa import phasespace as ps

    out = {}
    g = ps.PhaseSpaceGenerator(5.0, [1.0, 0.5, 0.3, 0.2])
    out["wtmax"] = float(g.m_wtMax)
    out["range"] = [[float(a), float(b)] for a, b in g.mass_range]
    ms = [tf.convert_to_tensor(np.array([0.8, 0.6])), tf.convert_to_tensor(np.array([2.0, 1.5]))]
    out["w"] = np.asarray(g.get_weight(ms).numpy()).tolist()
    out["w0"] = np.asarray(g.get_weight(ms, importances=False).numpy()).tolist()
    out["imp"] = np.asarray(g.mass_importances(ms).numpy()).tolist()
    out["p"] = np.asarray(ps.get_p(np.array([3.0, 2.0, 0.5]), 1.0, 0.5).numpy()).tolist()
    return out


def replay(p):
    import tensorflow as tf
    from tf_pwa import phasespace as ps
    from tf_pwa.angle import LorentzVector as lv

    kind = p["kind"]
    m = p.get("model", {})
    g = lambda k, d=0.0: float(m.get(k, d))
    try:
        if kind in ("momentum", "weight", "flat"):
            n = p["n"]
            M = g("M", 5.0)
            ms = [g("m%d" % (i + 1), 0.1) for i in range(n)]
            gen = ps.PhaseSpaceGenerator(M, ms)
            us = [g("rnd_%d" % (i + 1), 0.5) for i in range(max(0, n - 2))]
            # intermediate masses from the variates, as generate_mass builds them
            mass = []
            sm = sum(ms) - ms[-1] - ms[-2]
            m_n = ms[-1]
            for i in range(n - 2):
                b = M - sm
                a = m_n + ms[-i - 2]
                v = (b - a) * us[i] + a
                mass.append(tf.convert_to_tensor(np.array([v])))
                m_n = v
                sm = sm - ms[-i - 3]
            if kind == "flat":
                def dens(us_):
                    mass_, jac = [], 1.0
                    sm_ = sum(ms) - ms[-1] - ms[-2]
                    m_n_ = ms[-1]
                    for i in range(n - 2):
                        b_ = M - sm_
                        a_ = m_n_ + ms[-i - 2]
                        v_ = (b_ - a_) * us_[i] + a_
                        jac *= (b_ - a_)
                        mass_.append(tf.convert_to_tensor(np.array([v_])))
                        m_n_ = v_
                        sm_ = sm_ - ms[-i - 3]
                    imp_ = gen.mass_importances(mass_)
                    imp_ = float(np.asarray(imp_.numpy())[0]) if hasattr(imp_, "numpy") else float(imp_)
                    return imp_ / jac

                f0 = dens(us)
                worst = 0.0
                for k in range(len(us)):
                    for d in (0.13, -0.11):
                        u2 = list(us)
                        u2[k] = min(0.95, max(0.05, u2[k] + d))
                        worst = max(worst, abs(dens(u2) - f0) / max(abs(f0), 1e-300))
                return {"reproduced": bool(worst > 1e-9), "relative_variation_of_importance_x_proposal_density": worst}
            if kind == "momentum":
                pl = gen.generate_momentum(mass, 1)
                arr = [np.asarray(x.numpy())[0] for x in pl]
                errs = [abs(a[0] ** 2 - np.sum(a[1:] ** 2) - mm * mm) for a, mm in zip(arr, ms)]
                tot = np.sum(arr, axis=0)
                errs.append(np.max(np.abs(tot - np.array([M, 0, 0, 0]))))
                err = max(errs)
                return {"reproduced": bool(err > 1e-7 * (1 + M * M) or err != err), "error_magnitude": float(err)}
            w = float(np.asarray(gen.get_weight(mass).numpy())[0])
            imp = gen.mass_importances(mass)
            imp = float(np.asarray(imp.numpy())[0]) if hasattr(imp, "numpy") else float(imp)
            bad = (w > 1 + 1e-9) or (w < -1e-12) or (imp > 1 + 1e-9) or (imp < -1e-12) or w != w
            return {"reproduced": bool(bad), "weight": w, "importance": imp}
        if kind in ("monotone",):
            q = float(np.asarray(ps.get_p(np.array([g("M", 2.0)]), g("a", 0.5), g("b", 0.5)).numpy())[0])
            qx = float(np.asarray(ps.get_p(np.array([g("Mx", 2.5)]), g("ax", 0.4), g("b", 0.5)).numpy())[0])
            lam = (g("M", 2.0) ** 2 - (g("a", 0.5) + g("b", 0.5)) ** 2) * (g("M", 2.0) ** 2 - (g("a", 0.5) - g("b", 0.5)) ** 2)
            bad = q > qx * (1 + 1e-9) + 1e-12 or q < 0 or abs(4 * g("M", 2.0) ** 2 * q * q - lam) > 1e-7 * (1 + abs(lam))
            return {"reproduced": bool(bad), "q": q, "qx": qx}
        if kind == "concrete":
            n = p["n"]
            M = 5.279
            ms = [0.139, 0.494] if n == 2 else [0.139, 0.139, 0.494]
            out = ps.PhaseSpaceGenerator(M, ms).generate(200)
            arr = [np.asarray(x.numpy()) for x in out]
            tot = sum(arr)
            err = float(np.max(np.abs(tot - np.array([M, 0, 0, 0]))))
            for a_, mk in zip(arr, ms):
                err = max(err, float(np.max(np.abs(a_[:, 0] ** 2 - np.sum(a_[:, 1:] ** 2, axis=-1) - mk * mk))))
            return {"reproduced": bool(err > 1e-9), "error_magnitude": err, "what": "largest deviation of the momentum sum from (M,0,0,0) / of a mass shell over 200 events, masses as Python floats"}
        if kind == "cascade":
            # the real generator on the structure: mass shells, momentum sum and fixed intermediate masses
            M, mi = CASCADES[p["shape"]]
            out = ps.ChainGenerator(M, mi).generate(50)
            worst = [0.0]

            def m_of(x):
                x = np.asarray(x)
                return np.sqrt(np.maximum(x[:, 0] ** 2 - np.sum(x[:, 1:] ** 2, axis=-1), 0))

            def walk(tree, res):
                tot = 0
                for t, r_ in zip(tree[1], res):
                    if isinstance(t, (tuple, list)):
                        sub = walk(t, r_)
                        worst[0] = max(worst[0], float(np.max(np.abs(m_of(sub) - t[0]))))
                    else:
                        sub = np.asarray(r_.numpy() if hasattr(r_, "numpy") else r_)
                        worst[0] = max(worst[0], float(np.max(np.abs(m_of(sub) - t))))
                    tot = tot + sub
                return tot

            tot = walk((M, mi), out)
            worst[0] = max(worst[0], float(np.max(np.abs(tot - np.array([M, 0, 0, 0])))))
            return {"reproduced": bool(worst[0] > 1e-6), "error_magnitude": worst[0], "what": "largest deviation of a mass shell, a fixed intermediate mass or the momentum sum over 50 events"}
        if kind == "count":
            return {"reproduced": False, "error": "count replay: see ps.count (model of the refill loop); run generate() with a patched flatten_mass"}
        if kind in ("step", "step_i", "angles"):
            return {"reproduced": False, "error": "no replay for %s" % kind}
    except Exception as e:
        return {"reproduced": False, "error": "%s: %s" % (type(e).__name__, str(e)[:300])}
    return {"reproduced": False, "error": "unknown kind %s" % kind}
