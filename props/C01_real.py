"""C01: replays / conformance on the real code."""
import numpy as np

from props import amptools as AT
from props.C01 import get_cfg, transform


def _np(x):
    return np.asarray(x.numpy() if hasattr(x, "numpy") else x)


def _setp(amp, params=None):
    params = dict(params or {})
    if params.pop("__cartesian__", False):
        amp.vm.rp2xy_all()
    allp = {n: 0.3 + 0.07 * i for i, n in enumerate(sorted(amp.vm.variables)) if not n.endswith(("_mass", "_width"))}
    if params:
        allp.update(params)
    amp.set_params(allp)


def conformance(tier):
    out = {}
    for name in ("CFG3", "CFG_SPIN", "CFG_HALF", "CFG4", "CFG4S", "CFG_ID0", "CFG_IDB", "CFG_IDF", "CFG_TOP1", "CFG_TOPH"):
        amp, config = AT.build_model(get_cfg(name))
        amp.vm.rp2xy_all()
        _setp(amp)
        p4 = AT.phsp_p4(config, 2, seed=3)
        f, _ = transform("rotboost", 0)
        out[name] = _np(amp(AT.data_of(config, p4))).tolist()
        out[name + "_t"] = _np(amp(AT.data_of(config, {k: f(v) for k, v in p4.items()}))).tolist()
    return out


def replay(p):
    import tensorflow as tf

    kind = p["kind"]
    try:
        cfg = p.get("cfg")
        amp, config = AT.build_model(get_cfg(cfg))
        _setp(amp, p.get("params"))
        if kind == "transform":
            p4 = AT.phsp_p4(config, 2, seed=3)
            f, _ = transform(p["tkind"], p["seed"])
            d0 = _np(amp(AT.data_of(config, p4)))
            d1 = _np(amp(AT.data_of(config, {k: f(v) for k, v in p4.items()})))
            err = float(np.max(np.abs(d1 - d0) / np.abs(d0)))
            return {"reproduced": bool(err > 1e-6), "error_magnitude": err, "density": d0.tolist(), "density_transformed": d1.tolist()}
        if kind == "identical":
            p4 = AT.phsp_p4(config, 2, seed=3)
            ids = get_cfg(cfg)["data"]["identical_particles"][0]
            sw = dict(p4)
            sw[ids[0]], sw[ids[1]] = p4[ids[1]], p4[ids[0]]
            d0 = _np(amp(AT.data_of(config, p4)))
            d1 = _np(amp(AT.data_of(config, sw)))
            err = float(np.max(np.abs(d1 - d0) / np.abs(d0)))
            return {"reproduced": bool(err > 1e-6), "error_magnitude": err}
        if kind == "top_angles":
            p4 = AT.phsp_p4(config, 1, seed=3)

            def dens(al, be):
                data = AT.data_of(config, p4)
                for chain, dd in data["decay"].items():
                    for dec, v in dd.items():
                        if hasattr(dec, "core") and str(dec.core) == "A":
                            for part, w in v.items():
                                if isinstance(w, dict) and "ang" in w and part == dec.outs[0] and al is not None:
                                    w["ang"]["alpha"] = tf.constant([al], dtype=tf.float64)
                                    w["ang"]["beta"] = tf.constant([be], dtype=tf.float64)
                return float(_np(amp(data))[0])

            b = dens(None, None)
            d = dens(p["alpha"], p["beta"])
            err = abs(d - b) / abs(b)
            return {"reproduced": bool(err > 1e-6), "error_magnitude": err}
        if kind == "nonneg":
            data = AT.phsp_data(config, 2, seed=3)
            d = _np(amp(data))
            a = _np(amp.decay_group.get_amp(data))
            ref = np.sum(np.abs(a.reshape(a.shape[0], -1)) ** 2, axis=-1)
            err = float(np.max(np.abs(d - ref)))
            return {"reproduced": bool(err > 1e-9 or np.any(d < 0) or not np.all(np.isfinite(d))), "error_magnitude": err}
    except Exception as e:
        return {"reproduced": False, "error": "%s: %s" % (type(e).__name__, str(e)[:300])}
    return {"reproduced": False, "error": "no replay for %s" % kind}
