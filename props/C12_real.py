"""C12: code executed on the REAL tensorflow (replays) and on both (conformance)."""
import math

import numpy as np


def _l(x):
    a = np.asarray(x.numpy() if hasattr(x, "numpy") else x)
    if a.dtype.kind == "c":
        return [np.real(a).tolist(), np.imag(a).tolist()]
    return a.tolist()


def conformance(tier):
    from tf_pwa import cg, dfun
    from tf_pwa.angle import SU2M
    import tensorflow as tf

    out = {}
    th = np.array([0.0, 0.3, 1.2, 2.9, 3.0])
    al = np.array([-2.0, 0.1, 1.0, 3.0, -0.4])
    ga = np.array([0.5, -1.5, 2.2, 0.0, 1.1])
    for tj in range(0, 5):
        out["small_d_%d" % tj] = _l(dfun.small_d_matrix(th, tj))
        out["D_%d" % tj] = _l(dfun.D_matrix_conj(al, th, ga, tj))
    # inputs of tf_pwa/tests/test_dfun.py style
    ang = {"alpha": tf.convert_to_tensor(al), "beta": tf.convert_to_tensor(th), "gamma": tf.convert_to_tensor(ga)}
    out["lambda"] = _l(dfun.get_D_matrix_lambda(ang, 1, (-1, 0, 1), (-1, 1), (-0.5, 0.5) if False else (0,)))
    out["lambda_half"] = _l(dfun.get_D_matrix_lambda(ang, 0.5, (-0.5, 0.5), (-1, 0, 1), (-0.5, 0.5)))
    x = SU2M.Rotation_z(tf.convert_to_tensor(al)) * SU2M.Rotation_y(tf.convert_to_tensor(th)) * SU2M.Rotation_z(tf.convert_to_tensor(ga))
    e = x.get_euler_angle()
    out["euler"] = [_l(e["alpha"]), _l(e["beta"]), _l(e["gamma"])]
    out["su2"] = [[_l(x["x"][i][k]) for k in range(2)] for i in range(2)]
    out["boost"] = _l(SU2M.Boost_z(tf.convert_to_tensor(al))["x"][0][0])
    out["cg"] = [float(cg.cg_coef(1, 0.5, 1, -0.5, 0.5, 0.5)), float(cg.get_cg_coef(0.5, 1, -0.5, 1, 0.5, 0.5))]
    return out


def _d(beta, tj):
    from tf_pwa import dfun

    return np.asarray(dfun.small_d_matrix(np.array([beta]), tj).numpy())[0]


def replay(p):
    from tf_pwa import cg, dfun
    from tf_pwa.angle import SU2M
    import tensorflow as tf

    kind = p["kind"]
    tol = 1e-9
    err = 0.0
    if kind in ("orth", "at0", "ode", "symT", "symN"):
        tj, beta = p["twoj"], p["beta"]
        d = _d(beta, tj)
        n = tj + 1
        i, k = p["i"], p["k"]
        if kind == "orth":
            err = abs(float(np.dot(d[i], d[k])) - (1.0 if i == k else 0.0))
        elif kind == "at0":
            err = abs(d[i, k] - (1.0 if i == k else 0.0))
        elif kind == "symT":
            err = abs(d[i, k] - (-1) ** (i - k) * d[k, i])
        elif kind == "symN":
            err = abs(d[i, k] - d[n - 1 - k, n - 1 - i])
        else:
            from props.C12 import jy_generator

            h = 1e-5
            num = (_d(beta + h, tj) - _d(beta - h, tj)) / (2 * h)
            err = abs(num[i, k] - (jy_generator(tj) @ d)[i, k])
            tol = 1e-6
    elif kind == "weights":
        from props.C12 import wigner_weight_exact

        tj = p["twoj"]
        dfun.small_d_weight.cache_clear()
        w = dfun.small_d_weight(tj)
        for l in range(tj + 1):
            for a in range(tj + 1):
                for b in range(tj + 1):
                    s, w2 = wigner_weight_exact(tj, a, b, l)
                    err = max(err, abs(float(w[l][a][b]) - s * math.sqrt(float(w2))))
    elif kind in ("D_entry", "D_unitary"):
        tj = p["twoj"]
        D = np.asarray(dfun.D_matrix_conj(np.array([p["alpha"]]), np.array([p["beta"]]), np.array([p["gamma"]]), tj).numpy())[0]
        i, k = p["i"], p["k"]
        if kind == "D_unitary":
            err = abs(np.sum(D[i] * np.conj(D[k])) - (1.0 if i == k else 0.0))
        else:
            d = _d(p["beta"], tj)
            m1, m2 = i - tj / 2, k - tj / 2
            err = abs(D[i, k] - np.exp(1j * m1 * p["alpha"]) * d[i, k] * np.exp(1j * m2 * p["gamma"]))
    elif kind == "group_y":
        tj = p["twoj"]
        err = float(np.max(np.abs(_d(p["b1"], tj) @ _d(p["b2"], tj) - _d(p["b1"] + p["b2"], tj))))
    elif kind == "gather":
        tj = p["twoj"]
        n = tj + 1
        j = tj / 2
        rng = np.random.RandomState(1)
        D = rng.normal(size=(1, n, n)) + 1j * rng.normal(size=(1, n, n))
        hel = lambda t: [x / 2 for x in range(-t, t + 1, 2)]
        for tjb in range(0, 4):
            for tjc in range(0, 4):
                if (tjb + tjc + tj) % 2:
                    continue
                la, lb, lc = hel(tj), hel(tjb), hel(tjc)
                for f in (dfun.Dfun_delta_v2, dfun.Dfun_delta):
                    r = np.asarray(f(tf.convert_to_tensor(D), j, tuple(la), tuple(lb), tuple(lc)).numpy())
                    for ia, xa in enumerate(la):
                        for ib, xb in enumerate(lb):
                            for ic, xc in enumerate(lc):
                                dl = xb - xc
                                ref = D[0, int(round(xa + j)), int(round(dl + j))] if abs(dl) <= j else 0.0
                                err = max(err, abs(r[0, ia, ib, ic] - ref))
    elif kind in ("cg_table", "cg_sympy"):
        from props.C12 import cg_exact_sq

        f = cg.get_cg_coef if kind == "cg_table" else cg.cg_coef
        for args, got, ref in p["bad"]:
            a = [int(x) if float(x).is_integer() else x for x in args]
            s, c2 = cg_exact_sq(*[int(round(2 * x)) for x in (a[0], a[2], a[1], a[3], a[4], a[5])])
            err = max(err, abs(float(f(*a)) - s * math.sqrt(float(c2))))
    elif kind == "cg_d":
        tj1, tj2, J, Jp, M, Mp = p["tj1"], p["tj2"], p["J"], p["Jp"], p["M"], p["Mp"]
        beta = p["beta"]
        d1, d2 = _d(beta, tj1), _d(beta, tj2)
        hf = lambda x: x / 2 if x % 2 else x // 2
        tot = 0.0
        for m1 in range(-tj1, tj1 + 1, 2):
            m2 = M - m1
            if abs(m2) > tj2:
                continue
            for m1p in range(-tj1, tj1 + 1, 2):
                m2p = Mp - m1p
                if abs(m2p) > tj2:
                    continue
                c1 = cg.cg_coef(hf(tj1), hf(tj2), hf(m1), hf(m2), hf(J), hf(M))
                c2 = cg.cg_coef(hf(tj1), hf(tj2), hf(m1p), hf(m2p), hf(Jp), hf(Mp))
                tot += c1 * c2 * d1[(m1 + tj1) // 2, (m1p + tj1) // 2] * d2[(m2 + tj2) // 2, (m2p + tj2) // 2]
        ref = _d(beta, J)[(M + J) // 2, (Mp + J) // 2] if J == Jp else 0.0
        err = abs(tot - ref)
    elif kind in ("su2_euler", "su2_inv"):
        a = complex(*p["a"])
        b = complex(*p["b"])
        nrm = math.sqrt(abs(a) ** 2 + abs(b) ** 2)
        a, b = a / nrm, b / nrm
        c = lambda z: tf.convert_to_tensor(np.array([z], dtype=np.complex128))
        U = SU2M([[c(a), c(-np.conj(b))], [c(b), c(np.conj(a))]])
        if kind == "su2_inv":
            P = U * U.inv()
            err = max(abs(np.asarray(P["x"][i][k].numpy())[0] - (1.0 if i == k else 0.0)) for i in range(2) for k in range(2))
        else:
            ang = U.get_euler_angle()
            R = SU2M.Rotation_z(ang["gamma"]) * SU2M.Rotation_y(ang["beta"]) * SU2M.Rotation_z(ang["alpha"])
            g = lambda X: np.array([[np.asarray(X["x"][i][k].numpy())[0] for k in range(2)] for i in range(2)])
            err = np.max(np.abs(g(R) - g(U)))
            tol = 1e-7
    elif kind == "su2_compose":
        f = SU2M.Rotation_z if p["axis"] == "z" else SU2M.Rotation_y
        t = lambda v: tf.convert_to_tensor(np.array([v]))
        L = f(t(p["a1"])) * f(t(p["a2"]))
        Rr = f(t(p["a1"] + p["a2"]))
        err = max(abs(np.asarray(L["x"][i][k].numpy())[0] - np.asarray(Rr["x"][i][k].numpy())[0]) for i in range(2) for k in range(2))
    elif kind == "su2_sandwich":
        t = lambda v: tf.convert_to_tensor(np.array([v]))
        W = SU2M.Boost_z(t(-p["omega"])) * SU2M.Rotation_z(t(p["a1"])) * SU2M.Boost_z(t(p["omega"]))
        ang = W.get_euler_angle()
        R = SU2M.Rotation_z(ang["gamma"]) * SU2M.Rotation_y(ang["beta"]) * SU2M.Rotation_z(ang["alpha"])
        g = lambda X: np.array([[np.asarray(X["x"][i][k].numpy())[0] for k in range(2)] for i in range(2)])
        err = np.max(np.abs(g(R) - g(W)))
        tol = 1e-7
    elif kind == "su2_prod":
        m = p["model"]
        X = [[complex(m.get("x%d%d_re" % (i, k), 0), m.get("x%d%d_im" % (i, k), 0)) for k in range(2)] for i in range(2)]
        Y = [[complex(m.get("y%d%d_re" % (i, k), 0), m.get("y%d%d_im" % (i, k), 0)) for k in range(2)] for i in range(2)]
        c = lambda z: tf.convert_to_tensor(np.array([z], dtype=np.complex128))
        Z = SU2M([[c(X[0][0]), c(X[0][1])], [c(X[1][0]), c(X[1][1])]]) * SU2M([[c(Y[0][0]), c(Y[0][1])], [c(Y[1][0]), c(Y[1][1])]])
        ref = np.array(X) @ np.array(Y)
        err = max(abs(np.asarray(Z["x"][i][k].numpy())[0] - ref[i, k]) for i in range(2) for k in range(2))
    else:
        return {"reproduced": False, "error": "unknown kind %s" % kind}
    err = float(err)
    return {"reproduced": bool(err > tol or err != err), "error_magnitude": err, "tolerance": tol, "kind": kind}
