"""C06: replays / conformance on the real code."""
import math

import numpy as np

from props import toy_real as TR


def conformance(tier):
    """the real likelihood classes on a concrete polynomial toy density, on both
    tensorflow implementations"""
    import tensorflow as tf
    from tf_pwa.model.model import FCN, CombineFCN, Model
    import tf_pwa.model.cfit as cf

    if str(tf.__version__).endswith("symtf"):
        tf.STATE.var_leaves = True  # symbolic-then-evaluate: exercises the DAG differentiation
    out = {}
    F = {("F", i): {"v": 0.5 + 0.1 * i, "g": {0: 0.2 - 0.01 * i, 1: -0.1 + 0.02 * i}, "h": {(0, 0): 0.05, (0, 1): 0.01 * i, (1, 1): -0.02}} for i in list(range(6)) + list(range(100, 103)) + list(range(200, 205))}
    th0 = {"a": 1.0, "b": 1.0}
    pdf = TR.make_real_pdf(["a", "b"], th0, F)
    pdf.set_params({"a": 1.1, "b": 0.9})
    data = TR.events([0, 1, 2, 3, 4], [1.0, 0.7, 1.3, -0.2, 2.0])
    bg = TR.events([100, 101, 102], [-0.3, -0.4, -0.1])
    mc = TR.events([200, 201, 202, 203, 204], [1.0, 2.0, 0.5, 1.5, 1.0])
    for ext in (False, True):
        m = Model(pdf, extended=ext)
        for batch in (2, 7):
            fcn = FCN(m, data, mc, bg=bg, batch=batch)
            out["nll_%s_%d" % (ext, batch)] = float(fcn({}))
            n, g = fcn.nll_grad({})
            out["nllg_%s_%d" % (ext, batch)] = [float(n)] + [float(x) for x in g]
    fcn = FCN(Model(pdf), data, mc, bg=bg, batch=3, gauss_constr={"a": (1.0, 0.3)})
    out["constr"] = float(fcn({}))
    bg2 = TR.events([100, 101, 102])
    out["wbkg"] = float(FCN(Model(pdf, w_bkg=0.4), data, mc, bg=bg2, batch=3)({}))
    d2 = TR.events([0, 1, 2], [1.0, 0.7, 1.3], bg_value=[0.3, 0.2, 0.5], eff_value=[0.9, 0.8, 1.0])
    m2 = TR.events([200, 201, 202], [1.0, 2.0, 0.5], bg_value=[0.3, 0.4, 0.5], eff_value=[0.9, 1.0, 0.7])
    for cls, nm in ((cf.Model_cfit, "cfit"), (cf.ModelCfitExtended, "cfit_ext")):
        fc = FCN(cls(pdf, w_bkg=0.2), d2, m2, batch=2)
        out[nm] = float(fc({}))
        n, g = fc.nll_grad({})
        out[nm + "_g"] = [float(n)] + [float(x) for x in g]
    return out


def _oracle(F, tag, th, w, wb, v, nd, nb, nm, extended=False):
    ws = list(w) + list(wb)
    fs = [TR.fval(F, tag, i) for i in range(nd)] + [TR.fval(F, tag, 100 + i) for i in range(nb)]
    sw, sw2 = sum(ws), sum(x * x for x in ws)
    alpha = sw / sw2
    fm = [TR.fval(F, tag, 200 + j) for j in range(nm)]
    integ = sum(a * b for a, b in zip(v, fm)) / sum(v)
    ln = sum(wi * math.log(fi) for wi, fi in zip(ws, fs))
    return -alpha * (ln - sw * (integ if extended else math.log(integ)))


def replay(p):
    import tensorflow as tf
    from tf_pwa.model.model import FCN, CombineFCN, Model

    kind = p["kind"]
    m = p["model"]
    nd, nb, nm = p["cfg"]
    F = TR.parse_model(m)
    th0 = {"a": m.get("th_a", 1.0), "b": m.get("th_b", 1.0)}
    g = lambda pre, n, d=1.0: [float(m.get("%s_%d" % (pre, i), d)) for i in range(n)]
    try:
        if kind in ("default", "extended", "constraint", "bgdefault"):
            pdf = TR.make_real_pdf(["a", "b"], th0, F)
            w, wb, v = g("w", nd), g("wb", nb, -1.0), g("v", nm)
            mcw = p.get("mcw", True)
            data = TR.events(list(range(nd)), w)
            mc = TR.events(list(range(200, 200 + nm)), v if mcw else None)
            if not mcw:
                v = [1.0] * nm
            kw = {}
            if kind == "bgdefault":
                wbkg = float(m.get("w_bkg", 1.0))
                bg = TR.events(list(range(100, 100 + nb))) if nb else None
                wb = [-wbkg] * nb
                model = Model(pdf, w_bkg=wbkg)
            else:
                bg = TR.events(list(range(100, 100 + nb)), wb) if nb else None
                model = Model(pdf, extended=(kind == "extended"))
            if kind == "constraint":
                kw["gauss_constr"] = {"a": (float(m.get("mu", 0.0)), float(m.get("sigma", 1.0)))}
            ref = _oracle(F, "F", th0, w, wb, v, nd, nb, nm, extended=(kind == "extended"))
            if kind == "constraint":
                ref += (th0["a"] - float(m.get("mu", 0.0))) ** 2 / (2 * float(m.get("sigma", 1.0)) ** 2)
            errs = []
            for batch in sorted({1, p.get("batch", 1), nd + nb + 1}):
                fcn = FCN(model, data, mc, bg=bg, batch=batch, **kw)
                a = float(fcn({}))
                b = float(fcn.nll_grad({})[0])
                errs += [abs(a - ref), abs(b - ref)]
            err = max(errs)
            scale = 1 + abs(ref)
        elif kind in ("cfit", "cfit_ext"):
            import tf_pwa.model.cfit as cf

            pdf = TR.make_real_pdf(["a", "b"], th0, F)
            w, v = g("w", nd), g("v", nm)
            bgv, effv, bgm, effm = g("bgd", nd), g("effd", nd), g("bgm", nm), g("effm", nm)
            frac = float(m.get("frac", 0.3))
            data = TR.events(list(range(nd)), w, bg_value=bgv, eff_value=effv)
            mc = TR.events(list(range(200, 200 + nm)), v, bg_value=bgm, eff_value=effm)
            cls = cf.Model_cfit if kind == "cfit" else cf.ModelCfitExtended
            model = cls(pdf, w_bkg=frac)
            sw, sw2 = sum(w), sum(x * x for x in w)
            alpha = sw / sw2
            sv = sum(v)
            Isig = sum(v[j] / sv * effm[j] * TR.fval(F, "F", 200 + j) for j in range(nm))
            Ibg = sum(v[j] / sv * bgm[j] for j in range(nm))
            ref = 0.0
            for i in range(nd):
                P = (1 - frac) * effv[i] * TR.fval(F, "F", i) / Isig + frac * bgv[i] / Ibg
                ref -= alpha * w[i] * math.log(P)
            if kind == "cfit_ext":
                lam = Isig / (1 - frac)
                ref += -(alpha * sw) * math.log(lam) + lam
            errs = []
            for batch in sorted({1, p.get("batch", 1), nd + 1}):
                fcn = FCN(model, data, mc, batch=batch)
                a = float(fcn({}))
                b = float(fcn.nll_grad({})[0])
                errs += [abs(a - ref), abs(b - ref)]
            err = max(errs)
            scale = 1 + abs(ref)
        elif kind == "combine":
            nd2, nb2, nm2 = p["cfg2"]
            pdf = TR.make_real_pdf(["a", "b"], th0, F)
            w, wb, v = g("w", nd), g("wb", nb, -1.0), g("v", nm)
            w2, v2 = g("x", nd2), g("y", nm2)
            data = TR.events(list(range(nd)), w)
            bg = TR.events(list(range(100, 100 + nb)), wb) if nb else None
            mc = TR.events(list(range(200, 200 + nm)), v)
            data2 = TR.events(list(range(300, 300 + nd2)), w2)
            mc2 = TR.events(list(range(400, 400 + nm2)), v2)
            model = Model(pdf)
            F2 = dict(F)
            # the second data set's events are numbered 300.. / 400..: reuse the oracle with shifted indices
            Fs = {("F", i): F.get(("F", 300 + i), {}) for i in range(nd2)}
            Fs.update({("F", 200 + j): F.get(("F", 400 + j), {}) for j in range(nm2)})
            ref1 = _oracle(F, "F", th0, w, wb, v, nd, nb, nm)
            ref2 = _oracle(Fs, "F", th0, w2, [], v2, nd2, 0, nm2)
            mu, sg = float(m.get("mu", 0.0)), float(m.get("sigma", 1.0))
            pen = (th0["a"] - mu) ** 2 / (2 * sg * sg)
            f1 = FCN(model, data, mc, bg=bg, batch=2)
            f2 = FCN(model, data2, mc2, batch=2)
            comb = CombineFCN(fcns=[f1, f2])
            errs = [abs(float(comb({})) - ref1 - ref2), abs(float(comb.nll_grad({})[0]) - ref1 - ref2)]
            gc = {"a": (mu, sg)}
            combc = CombineFCN(fcns=[FCN(model, data, mc, bg=bg, batch=2, gauss_constr=gc), FCN(model, data2, mc2, batch=2, gauss_constr=gc)], gauss_constr=gc)
            errs += [abs(float(combc({})) - ref1 - ref2 - pen), abs(float(combc.nll_grad({})[0]) - ref1 - ref2 - pen)]
            err = max(errs)
            scale = 1 + abs(ref1 + ref2)
        else:
            return {"reproduced": False, "error": "replay for kind %s not implemented" % kind}
    except Exception as e:  # the real code failed on this input
        if p.get("expect_raise"):
            return {"reproduced": True, "raised": "%s: %s" % (type(e).__name__, str(e)[:300]), "kind": kind}
        return {"reproduced": False, "error": "%s: %s" % (type(e).__name__, e)}
    err = float(err)
    tol = 1e-7 * scale
    return {"reproduced": bool(err > tol or err != err), "error_magnitude": err, "tolerance": tol, "kind": kind}
