"""C17: replays on the real code (the same scenarios with float parameter values)."""
import numpy as np


_NAMES = ("_v", "_pval", "_same", "_symbolize")


def _unpatch():
    """undo _patch (the symtf side of the conformance run shares its process with symbolic jobs)"""
    from props import C17

    for n, f in getattr(C17, "_orig_for_real", {}).items():
        setattr(C17, n, f)


def _patch():
    from props import C17

    if not hasattr(C17, "_orig_for_real"):
        C17._orig_for_real = {n: getattr(C17, n) for n in _NAMES}
    C17._v = lambda name: {"tmp_a": 0.37, "tmp_b": -0.81, "tmp_c": 1.93}.get(name, 0.5)
    C17._pval = lambda v: float(v.numpy())
    C17._same = lambda a, b: (a == b) if not isinstance(a, float) else abs(a - b) <= 1e-12 * (1 + abs(a))
    C17._symbolize = lambda amp: amp.set_params({n: 0.3 + 0.07 * i for i, n in enumerate(sorted(amp.vm.variables)) if not n.endswith(("_mass", "_width"))})
    return C17


def conformance(tier):
    import tensorflow as tf

    C17 = _patch()
    try:
        if str(tf.__version__).endswith("symtf"):
            tf.STATE.symbolic_random = False
        before, after, d0, d1, inside = C17.scenario_block("amp.temp_params", None)
        out = {"dens": d0, "same": [float(x) for x in d1]}
        b, a, d0, d1, K = C17.scenario_comp("partial_weight", None)
        out["K"] = K
        out["dens2"] = d0
        return out
    finally:
        _unpatch()


def replay(p):
    C17 = _patch()
    kind = p["kind"]
    try:
        if kind == "state":
            what = p["what"]
            if what.startswith("restore.nested"):
                before, after, d0, d1 = C17.scenario_nested(p["outer"], p["inner"], p["fault"])
            elif what.startswith("restore."):
                before, after, d0, d1, _ = C17.scenario_block(p["block"], p["fault"])
            else:
                before, after, d0, d1, _ = C17.scenario_comp(p["comp"], p.get("k"), p.get("pre"))
            bad = C17._diff(before, after)
            if any(not C17._same(x, y) for x, y in zip(d0, d1)):
                bad.append("density")
            return {"reproduced": bool(bad), "changed": bad}
        if kind == "vm_bounded":
            import tensorflow as tf
            from tf_pwa.variable import VarsManager

            vm = VarsManager(dtype=tf.float64)
            vm.add_real_var("a", value=1.0)
            vm.add_real_var("b", value=1.0)
            vm.set_bound({"a": (0.0, 2.0)})
            vm.variables["a"].assign(p["y_a"])
            vm.variables["b"].assign(p["y_b"])
            before = {n: float(v.numpy()) for n, v in vm.variables.items()}
            try:
                with vm.temp_params({"a": 0.77, "b": 0.11}):
                    if p.get("fault"):
                        raise C17.Injected()
            except C17.Injected:
                pass
            after = {n: float(v.numpy()) for n, v in vm.variables.items()}
            bad = [n for n in before if abs(before[n] - after[n]) > 1e-9]
            return {"reproduced": bool(bad), "changed": bad, "before": before, "after": after}
    except Exception as e:
        return {"reproduced": False, "error": "%s: %s" % (type(e).__name__, str(e)[:300])}
    return {"reproduced": False, "error": "no replay for %s" % kind}
