"""C16 — parameter constraints survive every sequence of updates (bounded histories)."""
from __future__ import annotations

import itertools
import math
from fractions import Fraction

import numpy as np

from symx import fork
from symx import scalar as S
from symx import term as T
from symx.harness import Session
from symx.scalar import SymReal

from .common import facts, far, model_angle, simp, tensor_of, term_of

PID = "C16"
LEVEL = "model_checking"
CLAIM = (
    "Bounded model checking of the real VarsManager / Bound classes on a symbolic tensorflow substitute: a manager is built in the "
    "order a configuration applies constraints (create, fix, tie, bound) with symbolic parameter values, then every sequence of up to "
    "2 (quick) / 3 (thorough) operations from an alphabet of 13 (set, bulk set by dict and by list, read-all/write-back, re-randomise "
    "with symbolic random draws, polar<->Cartesian switches, std_polar, standard_complex, trans_params, fix/unfix, masked read) is "
    "executed; data-dependent branches (r < 0) are forked; after every step z3 decides the invariants for all values: fixed "
    "parameters unchanged unless explicitly assigned, tied names share one variable and count once among the free parameters, no "
    "duplicates in the free list, read-all/write-back is the identity, the complex value is preserved by coordinate changes and "
    "standardisation, and after standardisation r >= 0 and -pi <= phi < pi. For each bound type the transform and its inverse are "
    "mutually inverse on the allowed range, x2y(x) lies in [a,b] and the reported slopes equal the derivatives of the transform."
)
NOTE = (
    "histories bounded in length; one manager layout (2 real, 1 fixed, 1 tied pair, 1 complex, 1 bounded); sympy expressions of Bound "
    "evaluated by substitution; asin/sin, tan/arctan as principal-branch inverses"
)
TECHNIQUE = "bounded model checking by symbolic execution: every operation sequence up to the bound is run on the real VarsManager with symbolic values (path forking on data-dependent branches), invariants decided by z3 per state"
CLAIM_EXTRA = 'Tie groups: for every sequence of up to 3 (thorough: 4, sampled) set_same calls on pairs out of five names - including calls that merge existing groups - all connected names read the same value, an assignment through any tied name is read through every member and through nobody else, and each group counts once among the free parameters. Two polar parameters sharing their magnitude in a tie group registered before another group keep their complex values under standard_complex for either sign of the shared magnitude.'
NOTE_EXTRA = 'further layouts: five real names for the tie histories, three polar parameters with a shared magnitude; std_polar_all / rp2xy_all with shared magnitudes and set_fix on bounded parameters are outside the encoding'
EXPLANATION = CLAIM + " " + CLAIM_EXTRA
FUNCTIONS = [
    "tf_pwa/variable.py:VarsManager.add_real_var", "tf_pwa/variable.py:VarsManager.set_same (merging of tie groups)", "tf_pwa/variable.py:VarsManager.add_complex_var", "tf_pwa/variable.py:VarsManager.set_fix", "tf_pwa/variable.py:VarsManager.set_same",
    "tf_pwa/variable.py:VarsManager.set_bound", "tf_pwa/variable.py:VarsManager.get", "tf_pwa/variable.py:VarsManager.set", "tf_pwa/variable.py:VarsManager.read",
    "tf_pwa/variable.py:VarsManager.get_all_dic", "tf_pwa/variable.py:VarsManager.get_all_val", "tf_pwa/variable.py:VarsManager.set_all", "tf_pwa/variable.py:VarsManager.refresh_vars",
    "tf_pwa/variable.py:VarsManager.rp2xy", "tf_pwa/variable.py:VarsManager.xy2rp", "tf_pwa/variable.py:VarsManager.std_polar", "tf_pwa/variable.py:VarsManager.standard_complex",
    "tf_pwa/variable.py:VarsManager.trans_params", "tf_pwa/variable.py:VarsManager.mask_params", "tf_pwa/variable.py:VarsManager._std_polar_angle",
    "tf_pwa/variable.py:Bound.get_func", "tf_pwa/variable.py:Bound.get_x2y", "tf_pwa/variable.py:Bound.get_y2x", "tf_pwa/variable.py:Bound.get_dydx", "tf_pwa/variable.py:Bound.get_d2ydx2",
]
ASSUMPTIONS = [
    "random draws of refresh_vars are arbitrary reals in their ranges (stubs)",
    "angles of polar parameters are symbolic angles (rational trigonometry); the range clause -pi <= phi < pi is decided on a linear-arithmetic copy of the same scenario",
    "sympy expressions of Bound are evaluated at symbolic points by substitution into the expressions the constructor built",
]
TRUSTED = []

OPS = ["set_m", "set_f", "set_t1", "set_all_dict", "set_all_list", "roundtrip", "refresh", "rp2xy", "xy2rp", "std_polar", "standard_complex", "trans_cart", "trans_polar", "fix_unfix", "masked_read",
       "fix_unfix_t2", "fix_t2"]


def bounds(tier):
    return {"history_length": 2 if tier == "quick" else 3, "alphabet": OPS, "layout": "m (free), f (fixed), t1=t2 (tied), c (complex, polar), b (bounded two-sided)", "bound_types": 4}


def jobs(tier, seed):
    L = 2 if tier == "quick" else 3
    seqs = [s for n in range(1, L + 1) for s in itertools.product(range(len(OPS)), repeat=n)]
    if tier == "quick":
        # all single steps and all pairs
        pass
    chunk = 40 if tier == "quick" else 120
    out = [("histories", tuple(seqs[i : i + chunk])) for i in range(0, len(seqs), chunk)]
    out += [("shared_r",), ("std_range",), ("bound", "two"), ("bound", "lower"), ("bound", "upper"), ("bound", "custom")]
    npairs = len(_tie_pairs())
    tl = 3 if tier == "quick" else 4
    tseqs = [s_ for n in range(1, tl + 1) for s_ in itertools.product(range(npairs), repeat=n)]
    if tier != "quick":
        import random

        rnd = random.Random(seed + 16)
        tseqs = [s_ for s_ in tseqs if len(s_) < 4] + rnd.sample([s_ for s_ in tseqs if len(s_) == 4], 3000)
    out += [("ties", tuple(tseqs[i : i + 140])) for i in range(0, len(tseqs), 140)]
    return out


def _build():
    import tensorflow as tf
    from tf_pwa.variable import VarsManager

    vm = VarsManager(dtype=tf.float64)
    vm.add_real_var("m", value=1.0)
    vm.add_real_var("f", value=1.0)
    vm.add_real_var("t1", value=1.0)
    vm.add_real_var("t2", value=1.0)
    vm.add_complex_var("c", polar=True)
    vm.add_complex_var("d", polar=True)
    vm.set_fix("f")
    vm.set_fix("di")  # only the phase of d is fixed, its modulus stays free
    vm.set_same(["t1", "t2"])
    vm.variables["dr"].assign(tensor_of(S.real("v_dr")))
    vm.variables["di"].assign(tensor_of(S.angle("v_dphi", D=1)))
    # symbolic values
    vals = {"m": S.real("v_m"), "f": S.real("v_f"), "t1": S.real("v_t")}
    for k, v in vals.items():
        vm.variables[k].assign(tensor_of(v))
    r = S.real("v_r")
    ph = S.angle("v_phi", D=1)
    vm.variables["cr"].assign(tensor_of(r))
    vm.variables["ci"].assign(tensor_of(ph))
    return vm


def _val(vm, name):
    return term_of(vm.variables[name].arr.reshape(-1)[0])


def _complex_value(vm, name="c"):
    a = vm.variables[name + "r"].arr.reshape(-1)[0]
    b = vm.variables[name + "i"].arr.reshape(-1)[0]
    a = a if isinstance(a, SymReal) else SymReal(T.const(float(a), "R"))
    b = b if isinstance(b, SymReal) else SymReal(T.const(float(b), "R"))
    if vm.complex_vars[name]:
        c, s = b.cos_sin()
        return (a * c).t, (a * s).t
    return a.t, b.t


_fresh = itertools.count()


def _apply(vm, op, k=0):
    """returns the set of names explicitly assigned by this step (k = step index: names of the symbolic arguments)"""
    name = OPS[op]
    if name == "set_m":
        vm.set("m", tensor_of(S.real("a%d" % k)))
        return {"m"}
    if name == "set_f":
        vm.set("f", tensor_of(S.real("a%d" % k)))
        return {"f"}
    if name == "set_t1":
        vm.set("t1", tensor_of(S.real("a%d" % k)))
        return {"t1", "t2"}
    if name == "set_all_dict":
        vm.set_all({"m": tensor_of(S.real("a%d" % k)), "t2": tensor_of(S.real("b%d" % k))})
        return {"m", "t1", "t2"}
    if name == "set_all_list":
        n = len(vm.trainable_vars)
        # a phase slot of a polar parameter receives a symbolic angle, every other slot a symbolic real
        vals = [S.angle("l%d_%d" % (k, i), D=1) if (nm_ == "ci" and vm.complex_vars.get("c")) else S.real("l%d_%d" % (k, i)) for i, nm_ in enumerate(vm.trainable_vars)]
        vm.set_all([tensor_of(v) for v in vals])
        return set(vm.trainable_vars) | ({"t1", "t2"} if ("t1" in vm.trainable_vars or "t2" in vm.trainable_vars) else set())
    if name == "roundtrip":
        vm.set_all(vm.get_all_dic())
        return set()
    if name == "refresh":
        vm.refresh_vars()
        # re-randomisation may touch the free parameters only
        return set(vm.trainable_vars) | ({"t1", "t2"} if ("t1" in vm.trainable_vars or "t2" in vm.trainable_vars) else set())
    if name == "rp2xy":
        vm.rp2xy("c")
        return set()
    if name == "xy2rp":
        vm.xy2rp("c")
        return set()
    if name == "std_polar":
        vm.std_polar("c")
        return set()
    if name == "standard_complex":
        vm.standard_complex()
        return set()
    if name == "trans_cart":
        vm.trans_params(False)
        return set()
    if name == "trans_polar":
        vm.trans_params(True)
        return set()
    if name == "fix_unfix":
        vm.set_fix("m")
        vm.set_fix("m", unfix=True)
        return set()
    if name == "masked_read":
        with vm.mask_params({"m": 0.5}):
            vm.read("m")
        return set()
    if name == "fix_unfix_t2":
        # fix and free again a tied name that is not the head of its group (Variable.fixed() / freed() on it)
        vm.set_fix("t2")
        vm.set_fix("t2", unfix=True)
        vm.user_fixed = set(getattr(vm, "user_fixed", set())) - {"t2"}  # explicitly freed again
        return set()
    if name == "fix_t2":
        vm.set_fix("t2")
        vm.user_fixed = set(getattr(vm, "user_fixed", set())) | {"t2"}
        return set()
    raise ValueError(name)


def job_histories(ss, seqs):
    from symx import symtf

    states = transitions = 0
    for seq in seqs:
        def run(seq=seq):
            symtf.STATE.symbolic_random = True
            symtf.reset_state()
            vm = _build()
            snaps = []
            cplx_changed = False
            for k_step, op in enumerate(seq):
                before = {n: _val(vm, n) for n in vm.variables}
                zb = _complex_value(vm)
                tv_before = list(vm.trainable_vars)
                assigned = _apply(vm, op, k_step)
                after = {n: _val(vm, n) for n in vm.variables}
                za = _complex_value(vm)
                snaps.append((op, before, after, zb, za, assigned, list(vm.trainable_vars), vm.variables["t1"] is vm.variables["t2"], tv_before, bool(vm.complex_vars["c"]), sorted(getattr(vm, "user_fixed", set()))))
            return vm, snaps

        ex = fork.Explorer(max_paths=16, max_depth=12, timeout_s=10, total_s=300)
        for path in ex.run(run):
            tag = "%s,path" % ("+".join(OPS[o] for o in seq),)
            if path.error is not None:
                ss._rec(kind="obligation", name="vm.path_error[%s]" % tag, key="vm.path_error." + OPS[seq[-1]], status="sat", raised="%s: %s" % (type(path.error).__name__, str(path.error)[:200]),
                        payload=dict(kind="history", seq=[OPS[o] for o in seq], expect_raise=True), seconds=0.0)
                continue
            vm, snaps = path.result
            F = list(path.ctx.facts) + list(path.pc)
            pay = lambda m, seq=seq: dict(kind="history", seq=[OPS[o] for o in seq], model={k: float(v) for k, v in m.items() if not k.startswith(("sqrt#", "uf_"))})
            for step, (op, before, after, zb, za, assigned, tv, tied, tv_before, polar_now, fixed_now) in enumerate(snaps):
                states += 1
                transitions += 1
                nm = OPS[op]
                stag = "%s@%d" % ("+".join(OPS[o] for o in seq), step)
                # I1 fixed parameter only changes when explicitly assigned
                if "f" not in assigned:
                    ss.prove("vm.fixed_unchanged[%s]" % stag, F, far(after["f"], before["f"], 0), key="vm.fixed_unchanged." + nm, payload=pay, timeout=30, describe="a fixed parameter changes only when explicitly assigned")
                # parameters not touched by the step keep their value (polar/Cartesian switches re-express c and d: their complex value is checked below)
                coord = nm in ("rp2xy", "xy2rp", "std_polar", "standard_complex", "trans_cart", "trans_polar")
                for n in ("m", "t1", "di", "dr", "cr", "ci"):
                    if coord and n in ("di", "dr", "cr", "ci"):
                        continue
                    if n not in assigned:
                        ss.prove("vm.untouched[%s,%s]" % (stag, n), F, far(after[n], before[n], 0), key="vm.untouched." + nm, payload=pay, timeout=30)
                # I2 / I3 structure of the free list
                ok = tied and len(set(tv)) == len(tv) and all(n in vm.variables for n in tv) and sum(1 for n in tv if n in ("t1", "t2")) <= 1 and "f" not in tv
                # a name the user fixed is not varied through another name tied to it
                for fx in fixed_now:
                    ok = ok and not any(vm.variables[n] is vm.variables[fx] for n in tv)
                ss.concrete("vm.free_list[%s]" % stag, ok, key="vm.free_list." + nm, payload=dict(kind="history", seq=[OPS[o] for o in seq]),
                            describe="tied names share one variable and count once; no duplicates; only existing names; fixed names absent")
                # I5 complex value preserved by every step that does not assign it
                if "cr" not in assigned:
                    ss.prove("vm.complex_value[%s]" % stag, F, T.bor(far(za[0], zb[0], 0), far(za[1], zb[1], 0)), key="vm.complex_value." + nm, payload=pay, timeout=60,
                             describe="the complex value r e^{i phi} / x + i y is preserved")
                if nm in ("std_polar", "standard_complex", "trans_polar"):
                    r_after = after["cr"]
                    if polar_now:  # the representation right after this step (not at the end of the sequence)
                        ss.prove("vm.std_radius_nonneg[%s]" % stag, F, T.lt(r_after, T.ZERO), key="vm.std_radius." + nm, payload=pay, timeout=30, describe="after standardisation r >= 0")
    ss.note(name="vm.histories", states=max(states, 1), transitions=max(transitions, 1), sequences=len(seqs))


TIE_NAMES = ["a", "b", "c", "d", "e"]


def _tie_pairs():
    return [(x, y) for i, x in enumerate(TIE_NAMES) for y in TIE_NAMES[i + 1:]]


def job_ties(ss, seqs):
    """every sequence of set_same calls (as a configuration with overlapping var_equal groups makes them), then one
    assignment: all names connected by the ties read the assigned value, every other name keeps its own, each
    connected group counts once among the free parameters"""
    import tensorflow as tf
    from tf_pwa.variable import VarsManager

    pairs = _tie_pairs()
    states = 0
    for seq in seqs:
        S.new_context()
        vm = VarsManager(dtype=tf.float64)
        init = {}
        for n in TIE_NAMES:
            vm.add_real_var(n, value=1.0)
            init[n] = S.real("v_" + n)
            vm.variables[n].assign(tensor_of(init[n]))
        parent = {n: n for n in TIE_NAMES}

        def find(x):
            while parent[x] != x:
                x = parent[x]
            return x

        for k in seq:
            x, y = pairs[k]
            vm.set_same([x, y])
            parent[find(y)] = find(x)
        comp = {n: find(n) for n in TIE_NAMES}
        stag = "+".join("%s=%s" % pairs[k] for k in seq)
        pay = lambda m, seq=seq: dict(kind="ties", seq=[list(pairs[k]) for k in seq], model={k_: float(v) for k_, v in m.items()})
        # free list: one entry per connected group
        tv = list(vm.trainable_vars)
        groups = {}
        for n in TIE_NAMES:
            groups.setdefault(comp[n], []).append(n)
        ok = len(set(tv)) == len(tv) and all(sum(1 for n in g if n in tv) == 1 for g in groups.values())
        ss.concrete("ties.count_once[%s]" % stag, ok, key="ties.count_once", payload=pay({}), describe="each group of tied names counts exactly once among the free parameters")
        # values before the assignment: every name of a group reads the same value
        F = facts()
        for g in groups.values():
            for n in g[1:]:
                ss.prove("ties.read_equal[%s,%s=%s]" % (stag, g[0], n), F, far(_val(vm, g[0]), _val(vm, n), 0), key="ties.read_equal", payload=pay, timeout=30, describe="tied names read the same value")
        # one assignment through each name of the last tie: it reaches the whole group and nothing else
        tgt = pairs[seq[-1]][1]
        before = {n: _val(vm, n) for n in TIE_NAMES}
        new = S.real("new")
        vm.set(tgt, tensor_of(new))
        for n in TIE_NAMES:
            states += 1
            if comp[n] == comp[tgt]:
                ss.prove("ties.assign_reaches[%s,%s<-%s]" % (stag, n, tgt), F, far(_val(vm, n), new.t, 0), key="ties.assign", payload=pay, timeout=30, describe="an assignment to one tied name is read through every name tied to it")
            else:
                ss.prove("ties.assign_local[%s,%s]" % (stag, n), F, far(_val(vm, n), before[n], 0), key="ties.assign", payload=pay, timeout=30, describe="names outside the group keep their value")
    ss.note(name="vm.ties", states=max(states, 1), transitions=max(states, 1), sequences=len(seqs))


def job_shared_r(ss):
    """two polar complex parameters sharing their magnitude (set_share_r: a tie group on pr, qr) and a second,
    later tie group on real parameters: standard_complex (what a fit runs before it reads the parameters back)
    preserves the complex value of every parameter, for every sign of the shared magnitude"""
    import tensorflow as tf
    from symx import symtf
    from tf_pwa.variable import VarsManager

    def run():
        symtf.reset_state()
        vm = VarsManager(dtype=tf.float64)
        vm.add_complex_var("p", polar=True)
        vm.add_complex_var("q", polar=True)
        vm.add_complex_var("u", polar=True)
        vm.add_real_var("t1", value=1.0)
        vm.add_real_var("t2", value=1.0)
        vm.set_share_r(["p", "q"])
        vm.set_same(["t1", "t2"])
        vm.variables["pr"].assign(tensor_of(S.real("r")))
        vm.variables["pi"].assign(tensor_of(S.angle("phi_p", D=1)))
        vm.variables["qi"].assign(tensor_of(S.angle("phi_q", D=1)))
        vm.variables["ur"].assign(tensor_of(S.real("ru")))
        vm.variables["ui"].assign(tensor_of(S.angle("phi_u", D=1)))
        before = {n: _complex_value(vm, n) for n in ("p", "q", "u")}
        vm.standard_complex()
        after = {n: _complex_value(vm, n) for n in ("p", "q", "u")}
        return vm, before, after

    ex = fork.Explorer(max_paths=16, max_depth=12, timeout_s=10, total_s=300)
    n = 0
    for path in ex.run(run):
        n += 1
        if path.error is not None:
            ss._rec(kind="obligation", name="vm.shared_r.path_error[%d]" % n, key="vm.shared_r", status="error", error="%s: %s" % (type(path.error).__name__, str(path.error)[:200]))
            continue
        vm, before, after = path.result
        F = list(path.ctx.facts) + list(path.pc)
        pay = lambda m: dict(kind="shared_r", model={k: float(v) for k, v in m.items() if not k.startswith(("sqrt#", "uf_"))})
        for nm in ("p", "q", "u"):
            ss.prove("vm.shared_r.complex_value[path=%d,%s]" % (n, nm), F, T.bor(far(after[nm][0], before[nm][0], 0), far(after[nm][1], before[nm][1], 0)), key="vm.shared_r", payload=pay, timeout=60,
                     describe="standard_complex preserves r e^{i phi} of parameters sharing their magnitude (tie group registered before another one) and of an unconstrained one")
        ss.witness("vm.shared_r.reach[path=%d]" % n, F)
    ss.note(name="vm.shared_r", states=max(n, 1), transitions=max(n, 1))


def job_std_range(ss):
    """-pi <= phi < pi after std_polar, on a linear copy: phi a plain real in [-pi, pi)"""
    import tensorflow as tf
    from tf_pwa.variable import VarsManager

    def run():
        vm = VarsManager(dtype=tf.float64)
        vm.add_complex_var("c", polar=True)
        r, ph = S.real("r"), S.real("phi")
        c = S.ctx()
        c.fact(T.le(T.const(-math.pi, "R"), ph.t))
        c.fact(T.lt(ph.t, T.const(math.pi, "R")))
        vm.variables["cr"].assign(tensor_of(r))
        vm.variables["ci"].assign(tensor_of(ph))
        vm.std_polar("c")
        return vm

    ex = fork.Explorer(max_paths=8, max_depth=6, timeout_s=10, total_s=120)
    n = 0
    for path in ex.run(run):
        n += 1
        if path.error is not None:
            ss._rec(kind="obligation", name="vm.std_range.path_error[%d]" % n, key="vm.std_range", status="error", error=str(path.error))
            continue
        vm = path.result
        F = list(path.ctx.facts) + list(path.pc)
        p = _val(vm, "ci")
        r = _val(vm, "cr")
        pay = lambda m: dict(kind="std_range", r=float(m.get("r", -1.0)), phi=float(m.get("phi", 1.0)))
        ss.prove("vm.std_polar.phase_in_range[path=%d]" % n, F, T.bor(T.lt(p, T.const(-math.pi, "R")), T.ge(p, T.const(math.pi, "R"))), key="vm.std_polar.phase_in_range", payload=pay, timeout=30,
                 describe="after std_polar: -pi <= phi < pi")
        ss.prove("vm.std_polar.radius_nonneg[path=%d]" % n, F, T.lt(r, T.ZERO), key="vm.std_polar.radius", payload=pay, timeout=30)
    ss.note(name="vm.std_range", states=n, transitions=n)


def job_bound(ss, kind):
    import sympy as sy

    from symx import pybuiltins as PB
    from symx.sympy_bridge import translate
    import tf_pwa.variable as var

    from .C07 import _bound, _d_dx, _SympyProxy

    class _Cplx:
        def __init__(self, x):
            self.real = x

    saved = {k: var.__dict__.get(k) for k in ("float", "complex")}
    var.float = PB.sym_float
    var.complex = lambda x: _Cplx(x) if isinstance(x, SymReal) else complex(x)
    try:
        b = _bound(kind)
        bf, binv = b.f, b.inv
        lo = b.lower if b.lower is not None else None
        hi = b.upper if b.upper is not None else None
        for attr in ("f", "df", "df2", "inv"):
            setattr(b, attr, _SympyProxy(getattr(b, attr)))
        x = S.angle("x", D=1, lo=-1, hi=1) if kind == "two" else S.real("x")  # two-sided: principal branch -pi/2 <= x <= pi/2
        y = b.get_x2y(x)
        dy = b.get_dydx(x)
        d2y = b.get_d2ydx2(x)
        F = facts()
        pay = (lambda m: dict(kind="bound", bound=kind, x=model_angle(m, "x", 1))) if kind == "two" else (lambda m: dict(kind="bound", bound=kind, x=float(m.get("x", 0.3))))
        dx = (lambda t: _d_dx(t, "x")) if kind == "two" else (lambda t: T.diff(t, x.t))
        ss.prove("bound.slope[%s]" % kind, F, far(dy.t, dx(y.t), 0), key="bound.slope", payload=pay, timeout=60, describe="get_dydx = d/dx x2y (derivative taken by the engine)")
        ss.prove("bound.curvature[%s]" % kind, F, far(d2y.t, dx(dx(y.t)), 0), key="bound.curvature", payload=pay, timeout=60, describe="get_d2ydx2 = d2/dx2 x2y")
        rng = []
        if lo is not None:
            rng.append(T.lt(y.t, T.const(lo, "R")))
        if hi is not None:
            rng.append(T.gt(y.t, T.const(hi, "R")))
        ss.prove("bound.range[%s]" % kind, F, T.bor(*rng), key="bound.range", payload=pay, timeout=60, describe="x2y(x) lies inside [a, b] for every x")
        # inverse on the allowed range: x2y(y2x(y)) = y
        S.new_context()
        yv = S.real("y")
        if lo is not None:
            S.assume(yv >= lo)
        if hi is not None:
            S.assume(yv <= hi)
        if kind == "custom":
            S.assume(yv < hi)  # the custom map x^2/(1+x^2) does not attain its supremum
        if kind == "two":
            # y2x = asin(.) : represent the returned angle as a derived angle whose sine is the argument
            xi = b.get_y2x(yv)
        else:
            xi = b.get_y2x(yv)
        back = b.get_x2y(xi)
        F = facts()
        payy = lambda m: dict(kind="bound_inv", bound=kind, y=float(m.get("y", 0.5)))
        if lo is None:
            S.assume(yv >= -1000)
        if hi is None:
            S.assume(yv <= 1000)
        F = facts()
        # sympy's inverse carries float coefficients (e.g. 0.571428571428571): tolerance 1e-9 on |y| <= 1000
        ss.prove("bound.x2y_of_y2x[%s]" % kind, F, far(simp(F, back).t, yv.t, Fraction(1, 10**9)), key="bound.inverse", payload=payy, timeout=60, describe="x2y(y2x(y)) = y on the allowed range (tolerance 1e-9)")
        ss.witness("bound.reach[%s]" % kind, F)
    finally:
        for k, v in saved.items():
            if v is None:
                var.__dict__.pop(k, None)
            else:
                var.__dict__[k] = v


def run_job(job):
    ss = Session(job)
    globals()["job_" + job[0]](ss, *job[1:])
    return ss.records
