"""C15: code executed on the REAL tensorflow (replays) and on both (conformance)."""
import math

import numpy as np


def _l(x):
    a = np.asarray(x.numpy() if hasattr(x, "numpy") else x)
    if a.dtype.kind == "c":
        return [np.real(a).tolist(), np.imag(a).tolist()]
    return a.tolist()


def conformance(tier):
    import tensorflow as tf
    from tf_pwa import breit_wigner as bw
    from tf_pwa.amp.core import get_relative_p, get_relative_p2

    out = {}
    m = tf.convert_to_tensor(np.array([0.5, 0.77, 1.1, 2.3]))
    q = tf.convert_to_tensor(np.array([0.2, 0.36, 0.5, 1.1]))
    q0 = tf.convert_to_tensor(np.array([0.36, 0.36, 0.36, 0.36]))
    out["BW"] = _l(bw.BW(m, 0.77, 0.15))
    for L in range(0, 7):
        out["BWR%d" % L] = _l(bw.BWR(m, 0.77, 0.15, q, q0, L, 3.0))
        out["BWR2%d" % L] = _l(bw.BWR2(m, 0.77, 0.15, q * q, q0 * q0, L, 3.0))
        out["BWRn%d" % L] = _l(bw.BWR_normal(m, 0.77, 0.15, q * q, q0 * q0, L, 3.0))
        out["Bp%d" % L] = _l(bw.Bprime(L, q, q0, 3.0))
        out["Bq2%d" % L] = _l(bw.Bprime_q2(L, q * q - 0.2, q0 * q0, 3.0))
        out["G%d" % L] = _l(bw.Gamma(m, 0.15, q, q0, L, 0.77, 3.0))
        out["poly%d" % L] = _l(bw.Bprime_polynomial(L, q))
    c64 = lambda v: tf.convert_to_tensor(np.array(v, dtype=np.float64))
    out["GS"] = _l(bw.GS(m, c64(0.77), c64(0.15), q, q0, 1, 3.0))
    out["bf"] = _l(bw.barrier_factor([0, 1, 2], q, q0))
    out["bf2"] = _l(bw.barrier_factor2([0, 1, 2], q, q0))
    out["cm"] = _l(bw.twoBodyCMmom(m, 0.14, 0.3))
    out["p"] = _l(get_relative_p(m, 0.14, 0.3))
    out["p2"] = _l(get_relative_p2(m, 0.14, 0.3))
    out["one"] = _l(bw.one())
    return out


def _P(L, z):
    from props.C15 import bw_poly_coeffs

    acc = 0.0
    for c in bw_poly_coeffs(L):
        acc = acc * z + float(c)
    return acc


def _gamma(L, m, m0, g0, q, q0, d):
    return g0 * (q / q0) ** (2 * L + 1) * (m0 / m) * _P(L, (q0 * d) ** 2) / _P(L, (q * d) ** 2)


def replay(p):
    import tensorflow as tf
    from tf_pwa import breit_wigner as bw

    kind = p["kind"]
    t = lambda v: tf.convert_to_tensor(np.array([v], dtype=np.float64))
    c = lambda x: complex(np.asarray(x.numpy()).reshape(-1)[0])
    f = lambda x: float(np.asarray(x.numpy()).reshape(-1)[0])
    tol = 1e-8
    err = 0.0
    L = p.get("L", 0)
    with np.errstate(all="ignore"):
        if kind == "BW":
            r = c(bw.BW(t(p["m"]), p["m0"], p["g0"]))
            den = p["m0"] ** 2 - p["m"] ** 2 - 1j * p["m0"] * p["g0"]
            err = max(abs(r * den - 1), 0.0 if r.imag > 0 else 1.0)
        elif kind == "one":
            err = abs(complex(bw.one().numpy()) - 1)
        elif kind == "cmmom":
            k = f(bw.twoBodyCMmom(t(p["m0"]), t(p["m1"]), t(p["m2"])))
            lam = (p["m0"] ** 2 - (p["m1"] + p["m2"]) ** 2) * (p["m0"] ** 2 - (p["m1"] - p["m2"]) ** 2)
            ref = math.sqrt(lam) / (2 * p["m0"]) if (lam > 0 and p["m0"] > p["m1"] + p["m2"]) else 0.0
            err = abs(k - ref) if p["m0"] > abs(p["m1"] - p["m2"]) else 0.0
        elif kind in ("poly",):
            err = abs(f(bw.Bprime_polynomial(L, t(p["z"]))) - _P(L, p["z"])) / max(1.0, abs(_P(L, p["z"])))
            from tf_pwa import formula

            err = max(err, abs(float(formula.Bprime_polynomial(L, p["z"])) - _P(L, p["z"])) / max(1.0, abs(_P(L, p["z"]))))
        elif kind == "poly_gen":
            from props.C15 import bw_poly_coeffs

            g = [float(x) for x in bw.get_bprime_coeff(L)]
            ref = [float(x) for x in bw_poly_coeffs(L)]
            err = max(abs(a / g[0] - b) for a, b in zip(g, ref))
        elif kind in ("bprime", "barrier"):
            q, q0, d = p["q"], p["q0"], p["d"]
            ref = math.sqrt(_P(L, (q0 * d) ** 2) / _P(L, (q * d) ** 2))
            b = f(bw.Bprime(L, t(q), t(q0), d))
            b2 = f(bw.Bprime_q2(L, t(q * q), t(q0 * q0), d))
            bf = np.asarray(bw.barrier_factor(list(range(L + 1)), t(q), t(q0), d).numpy())[L, 0]
            bf2 = np.asarray(bw.barrier_factor2(list(range(L + 1)), t(q), t(q0), d).numpy())[0, L]
            err = max(abs(b - ref), abs(b2 - ref), abs(bf - q**L * ref), abs(bf2 - q**L * ref)) / max(1.0, abs(ref))
        elif kind == "bprime_q2_below":
            # the pole sits at an algebraic number that a double only approximates: the value is not finite there, or
            # unboundedly large on the side of the root where the ratio of the polynomials is positive
            worst = 0.0
            for rel in (0.0, 1e-15, -1e-15, 1e-14, -1e-14, 1e-13, -1e-13, 1e-12, -1e-12, 1e-11, -1e-11, 1e-10, -1e-10):
                b2 = f(bw.Bprime_q2(L, t(p["q2"] * (1 + rel)), t(p["q02"]), p["d"]))
                worst = float("inf") if not math.isfinite(b2) else max(worst, abs(b2))
            err = float("inf") if worst > 1e4 else 0.0
        elif kind == "gamma":
            g = f(bw.Gamma(t(p["m"]), p["g0"], t(p["q"]), t(p["q0"]), L, p["m0"], p["d"]))
            ref = _gamma(L, p["m"], p["m0"], p["g0"], p["q"], p["q0"], p["d"])
            err = abs(g - ref) / max(1.0, abs(ref))
        elif kind in ("bwr", "bwr2"):
            m, m0, g0, q, q0, d = (p[k] for k in ("m", "m0", "g0", "q", "q0", "d"))
            gam = _gamma(L, m, m0, g0, q, q0, d)
            den = m0 * m0 - m * m - 1j * m0 * gam
            if kind == "bwr":
                r = c(bw.BWR(t(m), m0, g0, t(q), t(q0), L, d))
                err = max(abs(r * den - 1), 0.0 if r.imag > 0 else 1.0)
            else:
                r = c(bw.BWR2(t(m), m0, g0, t(q * q), t(q0 * q0), L, d))
                rn = c(bw.BWR_normal(t(m), m0, g0, t(q * q), t(q0 * q0), L, d))
                err = max(abs(r * den - 1), abs(rn * den - math.sqrt(m0 * gam)), 0.0 if r.imag > 0 else 1.0)
        elif kind == "bwr2_below":
            m, m0, g0, s_, q02, d = (p[k] for k in ("m", "m0", "g0", "s", "q02", "d"))
            q2 = -s_
            r = c(bw.BWR2(t(m), m0, g0, t(q2), t(q02), L, d))
            gam_im = g0 * (m0 / m) * _P(L, q02 * d * d) / _P(L, q2 * d * d) * (q2 / q02) ** L * math.sqrt(s_ / q02)
            D = m0 * m0 - m * m + m0 * gam_im
            err = abs(r * D - 1)
        elif kind == "dom":
            import sympy

            from tf_pwa import formula
            from tf_pwa.amp.core import get_relative_p

            m, m0, g0, m1, m2 = (p[k] for k in ("m", "m0", "g0", "m1", "m2"))
            q = get_relative_p(t(m), t(m1), t(m2))
            q0 = get_relative_p(t(m0), t(m1), t(m2))
            r = c(bw.BWR(t(m), m0, g0, q, q0, L, 3.0))
            dom = complex(sympy.N(formula.BWR_dom(m, m0, g0, L, m1, m2)))
            err = abs(r * dom - 1)
            if L == 0:
                err = max(err, abs(c(bw.BW(t(m), m0, g0)) * complex(sympy.N(formula.BW_dom(m, m0, g0))) - 1))
        elif kind in ("gs_parts", "gs_assembly"):
            pi = float(np.float32(3.14159265359))
            if kind == "gs_parts":
                m, a, b, m0, g0 = (p[k] for k in ("m", "a", "b", "m0", "g0"))

                def k(x):
                    lam = (x * x - (a + b) ** 2) * (x * x - (a - b) ** 2)
                    return math.sqrt(lam) / (2 * x)

                h = lambda x: (2.0 / pi) * (k(x) / x) * math.log((x + 2 * k(x)) / (a + b))
                dh = lambda x: h(x) * (1.0 / (8 * k(x) ** 2) - 1.0 / (2 * x * x)) + 1.0 / (2 * pi * x * x)
                s = m * m
                sm24 = (a + b) ** 2 / 4
                dref = 3.0 / pi * sm24 / k(m) ** 2 * math.log((m + 2 * k(m)) / (a + b)) + m / (2 * pi * k(m)) - sm24 * m / (pi * k(m) ** 3)
                errs = [
                    abs(f(bw.twoBodyCMmom(t(m), t(a), t(b))) - k(m)),
                    abs(f(bw.hFun(t(s), t(a), t(b))) - h(m)),
                    abs(f(bw.dh_dsFun(t(s), t(a), t(b))) - dh(m)),
                    abs(f(bw.dFun(t(s), t(a), t(b))) - dref) / max(1.0, abs(dref)),
                ]
                if m0 > a + b:
                    k0 = k(m0)
                    fref = g0 * m0 * m0 / k0**3 * (k(m) ** 2 * (h(m) - h(m0)) + (m0 * m0 - s) * k0**2 * dh(m0))
                    errs.append(abs(f(bw.fsFun(t(s), t(m0 * m0), t(g0), t(a), t(b))) - fref) / max(1.0, abs(fref)))
                err = max(errs)
            else:
                m, m0, g0, q, q0, d, Dv, fv = (p[k] for k in ("m", "m0", "g0", "q", "q0", "d", "Dval", "fval"))
                od, of = bw.dFun, bw.fsFun
                bw.dFun = lambda *a_, **k_: t(Dv)
                bw.fsFun = lambda *a_, **k_: t(fv)
                try:
                    r = c(bw.GS(t(m), t(m0), t(g0), t(q), t(q0), 1, d))
                finally:
                    bw.dFun, bw.fsFun = od, of
                gam = _gamma(1, m, m0, g0, q, q0, d)
                ref = (1 + Dv * g0 / m0) / (m0 * m0 - m * m + fv - 1j * m0 * gam)
                err = abs(r - ref) / max(1.0, abs(ref))
        elif kind in ("pm", "calmom"):
            return _replay_pm(p)
        elif kind == "pmls":
            return _replay_pmls(p)
        else:
            return {"reproduced": False, "error": "unknown kind %s" % kind}
    err = float(err)
    return {"reproduced": bool(err > tol or err != err), "error_magnitude": err, "tolerance": tol, "kind": kind}


# ------------------------------------------------------------------ registered particle models (props/C15pm.py)


def _q2(m, a, b):
    return (m * m - (a + b) ** 2) * (m * m - (a - b) ** 2) / (4 * m * m)


def _csqrt(x):
    import cmath

    return cmath.sqrt(complex(x))


def _pm_reference(model, L, extra, v, q, q0):
    """documented formulas in plain complex arithmetic; q, q0: break-up momenta of R -> B C at m and m0"""
    import cmath

    m, m0 = v["m"], v["m0"]
    g0 = v.get("g0")
    d = 3.0
    if model in ("BWR", "default", "BWR2", "BWR_below", "BW", "BWR_normal"):
        running = extra.get("running_width", True) and model != "BW"
        gam = _gamma(L, m, m0, g0, q, q0, d) if running else g0
        R = 1 / (m0 * m0 - m * m - 1j * m0 * gam)
        if model == "BWR_normal" and running:
            R = R * math.sqrt(m0 * gam)
        if extra.get("width_norm"):
            R = R * g0
        return R
    if model == "BWR_coupling":
        gam = q / m * q ** (2 * L) * _P(L, 1.0) / _P(L, (q * d) ** 2)
        return 1 / (m0 * m0 - m * m - 1j * m0 * g0 * gam)
    if model == "LASS":
        a, r = abs(v["p_a"]), abs(v["p_r"])
        cot = 1 / (a * q) + r * q / 2
        e2 = complex(cot * cot - 1, 2 * cot) / (cot * cot + 1)
        return m / (q * cot - 1j * q) + e2 * (m0 * g0 * m0 / q0) / (m0 * m0 - m * m - 1j * m0 * g0 * (q / m) * (m0 / q0))
    if model == "one":
        return 1.0
    if model == "x":
        return m
    if model == "exp":
        return math.exp(-abs(v["p_a"]) * m)
    if model == "exp_com":
        return cmath.exp(-complex(v["p_a"], v["p_b"]) * m * m)
    if model.startswith("Flatte"):
        gen = model in ("FlatteGen", "Flatte2")
        sign = 1 if model == "Flatte" else -1
        ml = extra["mass_list"]
        ll = extra.get("l_list") or [0] * len(ml)
        tot = 0
        for i, (ma, mb) in enumerate(ml):
            g = v["p_g_%d" % i]
            if model == "Flatte2":
                g = g * g
            qi = _csqrt(_q2(m, ma, mb))
            if qi.real == 0 and qi.imag < 0:
                qi = -qi
            term = g * qi / m
            if gen:
                if extra.get("cut_phsp") and m < ma + mb:
                    continue
                qi0 = abs(_csqrt(_q2(m0, ma, mb)))
                if extra.get("no_q0"):
                    qi0 = 1.0
                else:
                    term = term * m0 / qi0
                l = ll[i]
                term = term * (abs(qi) / qi0) ** (2 * l)
                if extra.get("has_bprime", True):
                    term = term * _P(l, (qi0 * d) ** 2) / _P(l, (abs(qi) * d) ** 2)
            tot += term
        pre = 1.0 if (gen and extra.get("no_m0")) else m0
        return 1 / (m0 * m0 - m * m + sign * 1j * pre * tot)
    return None


def _replay_pm(p):
    import copy

    import tensorflow as tf

    tol = 1e-8
    if p["kind"] == "calmom":
        import sympy

        import tf_pwa.amp.flatte as fl

        v = p["values"]
        m, ma, mb = v["m"], v["ma"], v["mb"]
        got = complex(np.asarray(fl.cal_monentum(tf.convert_to_tensor(np.array([m])), ma, mb).numpy()).reshape(-1)[0])
        ref = _csqrt(_q2(m, ma, mb))
        if ref.real == 0 and ref.imag < 0:
            ref = -ref
        sm = sympy.Symbol("m")
        gs = complex(sympy.N(fl.cal_monentum_sympy(sm, ma, mb).subs({sm: m})))
        err = max(abs(got - ref), abs(gs - ref)) / max(1.0, abs(ref))
        return {"reproduced": bool(err > tol or err != err), "error_magnitude": float(err), "kind": "calmom"}
    from props.C15pm import MA, MB, MC, cfg
    from tf_pwa.config_loader import ConfigLoader

    model, L, extra, v = p["model"], p["L"], dict(p["extra"]), dict(p["values"])
    below = extra.pop("__below__", False)
    try:
        config = ConfigLoader(copy.deepcopy(cfg(model, L, **extra)))
        amp = config.get_amplitude()
    except Exception as e:
        return {"reproduced": bool(p.get("expect_raise")), "error": "%s: %s" % (type(e).__name__, str(e)[:200])}
    chain = list(amp.decay_group)[0]
    R = list(chain.inner)[0]
    for n in list(amp.vm.variables):
        if n == "R_BC_mass":
            amp.vm.set(n, v["m0"])
        elif n == "R_BC_width":
            amp.vm.set(n, v["g0"])
        elif n.startswith("R_BC_"):
            amp.vm.set(n, v.get("p_" + n[len("R_BC_"):], 1.0))
    m, m0 = v["m"], v["m0"]
    t = lambda x: tf.convert_to_tensor(np.array([x], dtype=np.float64))
    c = lambda x: complex(np.asarray(x.numpy() if hasattr(x, "numpy") else x).reshape(-1)[0])
    out = {"kind": "pm", "tag": p.get("tag")}
    with np.errstate(all="ignore"):
        if p.get("pmq"):
            data_p = {q_: {"m": t(float(q_.get_mass()))} for q_ in chain.outs}
            data_p[chain.top] = {"m": t(MA)}
            data_p[R] = {"m": t(m)}
            data_c = {d_: {} for d_ in chain}
            chain.get_amp_particle(data_p, data_c, all_data={"particle": data_p, "decay": data_c})
            dc = [x for d_, x in data_c.items() if d_.core is R][0]
            q2, q02 = _q2(m, MB, MC), _q2(m0, MB, MC)
            errs = [abs(c(dc["|q|"]).real - math.sqrt(q2)), abs(c(dc["|q0|"]).real - math.sqrt(q02)), abs(c(dc["|q|2"]).real - q2), abs(c(dc["|q0|2"]).real - q02)]
            err = max(errs)
            out.update(reproduced=bool(err > tol or err != err), error_magnitude=float(err))
            return out
        if p.get("dom"):
            import sympy

            var = R.get_sympy_var()
            flat = []
            for x in var:
                flat += list(x) if isinstance(x, (list, tuple)) else [x]
            sheet = (1 << len(extra["mass_list"])) - 1 if model.startswith("Flatte") else 0
            try:
                f = R.get_sympy_dom(*var, sheet=sheet)
                nums = [float(np.asarray(x.numpy() if hasattr(x, "numpy") else x).reshape(-1)[0]) for x in R.get_num_var()]
                g = f.subs(dict(zip(flat[1:], nums)))
                dom = complex(sympy.N(g.subs({flat[0]: m})))
                rnum = c(R(t(m)))
            except Exception as e:
                out.update(reproduced=bool(p.get("expect_raise")), error="%s: %s" % (type(e).__name__, str(e)[:200]))
                return out
            err = abs(rnum * dom - 1)
            out.update(reproduced=bool(err > tol or err != err), error_magnitude=float(err), numeric_inverse=[(1 / rnum).real, (1 / rnum).imag], sympy_dom=[dom.real, dom.imag], m=m, m0=m0)
            return out
        data_p = {q_: {"m": t(float(q_.get_mass()))} for q_ in chain.outs}
        data_p[chain.top] = {"m": t(MA)}
        data_p[R] = {"m": t(m)}
        data_c = {d_: {} for d_ in chain}
        if p.get("symq"):
            q, q0 = v["q"], v["q0"]
            for d_ in chain:
                if d_.core is R:
                    data_c[d_].update({"|q|": t(q), "|q0|": t(q0), "|q|2": t(q * q), "|q0|2": t(q0 * q0)})
        else:
            q = math.sqrt(max(_q2(m, MB, MC), 0.0))
            if below:
                mmax, mmin = MA - 0.25, MB + MC
                meff = mmin + (mmax - mmin) / 2 * (1 + math.tanh((m0 - (mmax + mmin) / 2) / (mmax - mmin)))
                q0 = math.sqrt(_q2(meff, MB, MC))
            else:
                q0 = math.sqrt(max(_q2(m0, MB, MC), 0.0))
        try:
            got = c(chain.get_amp_particle(data_p, data_c, all_data={"particle": data_p, "decay": data_c}))
        except Exception as e:
            out.update(reproduced=bool(p.get("expect_raise")), error="%s: %s" % (type(e).__name__, str(e)[:200]))
            return out
        if model == "GS_rho":
            from tf_pwa import breit_wigner as bw

            ref = c(bw.GS(t(m), t(m0), t(v["g0"]), t(q), t(q0), L, 3.0, 0.13957039, 0.1349768))
        else:
            ref = _pm_reference(model, L, extra, v, q, q0)
        if ref is None:
            out.update(reproduced=False, error="no reference for %s" % model)
            return out
        err = abs(got - ref) / max(1.0, abs(ref))
        bad_im = model in ("BWR", "default", "BWR2", "BW", "BWR_coupling") and v.get("g0", 1) > 0 and not got.imag > 0
        out.update(reproduced=bool(err > tol or err != err or bad_im), error_magnitude=float(err), got=[got.real, got.imag], documented=[ref.real, ref.imag] if isinstance(ref, complex) else [float(ref), 0.0], m=m, m0=m0)
        return out


def _replay_pmls(p):
    import sympy
    import tensorflow as tf

    from props.C15pm import MB, MC, _ls_particle

    v = p["values"]
    m, m0, g0, k, q02 = v["m"], v["m0"], v["g0"], v["k"], v["q02"]
    q2 = k * k * q02
    a, dec = _ls_particle(p["case"], p["fix"])
    vm = a.mass.vm
    vm.set("R_mass", m0)
    vm.set("R_width", g0)
    th = list(p["thetas"])
    for i, x in enumerate(th):
        vm.set("R_theta%d" % i, x)
    ls = dec.get_ls_list()
    t = lambda x: tf.convert_to_tensor(np.array([x], dtype=np.float64))
    c = lambda x: complex(np.asarray(x.numpy() if hasattr(x, "numpy") else x).reshape(-1)[0])
    d = 3.0
    out = {"kind": "pmls", "case": p["case"], "fix_bug1": p["fix"]}
    with np.errstate(all="ignore"):
        if p.get("dom"):
            var = a.get_sympy_var()
            f = a.get_sympy_dom(*var)
            flat, nums = [], []
            for x in var:
                flat += list(x) if isinstance(x, (list, tuple)) else [x]
            for x in a.get_num_var():
                nums += list(x) if isinstance(x, (list, tuple)) else [x]
            nums = [float(np.asarray(x.numpy() if hasattr(x, "numpy") else x).reshape(-1)[0]) for x in nums]
            # the momenta follow from the masses here (the solver's q^2, q0^2 are free): use a mass above threshold
            mm = max(m, MB + MC + 0.1)
            mm0 = max(m0, MB + MC + 0.1)
            vm.set("R_mass", mm0)
            nums[0] = mm0
            dom = complex(sympy.N(f.subs(dict(zip(flat[1:], nums))).subs({flat[0]: mm})))
            nd, _ = a.get_ls_amp_frac(t(mm), ls, t(_q2(mm, MB, MC)), t(_q2(mm0, MB, MC)))
            err = abs(dom - c(nd)) / max(1.0, abs(dom))
            out.update(reproduced=bool(err > 1e-8 or err != err), error_magnitude=float(err), sympy_dom=[dom.real, dom.imag], numeric_dom=[c(nd).real, c(nd).imag])
            return out
        got = [c(x) for x in a.get_ls_amp(t(m), ls, t(q2), t(q02))]
        gam, f = [], 1.0
        for x in th:
            gam.append(f * math.cos(x))
            f *= math.sin(x)
        gam.append(f)
        g = [ga * k**l * math.sqrt(_P(l, q02 * d * d) / _P(l, q2 * d * d)) for (l, _s), ga in zip(ls, gam)]
        den = m0 * m0 - m * m - 1j * m0 * g0 * k * (m0 / m) * sum(x * x for x in g)
        err = max(abs(r_ * den - gi) for r_, gi in zip(got, g))
        out.update(reproduced=bool(err > 1e-8 or err != err), error_magnitude=float(err), got=[[x.real, x.imag] for x in got], documented=[[(gi / den).real, (gi / den).imag] for gi in g])
        return out
