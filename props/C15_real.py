"""C15: code executed on the REAL tensorflow (replays) and on both (conformance)."""
import math

import numpy as np


def _l(x):
    a = np.asarray(x.numpy() if hasattr(x, "numpy") else x)
    if a.dtype.kind == "c":
        return [np.real(a).tolist(), np.imag(a).tolist()]
    return a.tolist()


def conformance(tier):
    import tensorflow as tf
    from tf_pwa import breit_wigner as bw
    from tf_pwa.amp.core import get_relative_p, get_relative_p2

    out = {}
    m = tf.convert_to_tensor(np.array([0.5, 0.77, 1.1, 2.3]))
    q = tf.convert_to_tensor(np.array([0.2, 0.36, 0.5, 1.1]))
    q0 = tf.convert_to_tensor(np.array([0.36, 0.36, 0.36, 0.36]))
    out["BW"] = _l(bw.BW(m, 0.77, 0.15))
    for L in range(0, 7):
        out["BWR%d" % L] = _l(bw.BWR(m, 0.77, 0.15, q, q0, L, 3.0))
        out["BWR2%d" % L] = _l(bw.BWR2(m, 0.77, 0.15, q * q, q0 * q0, L, 3.0))
        out["BWRn%d" % L] = _l(bw.BWR_normal(m, 0.77, 0.15, q * q, q0 * q0, L, 3.0))
        out["Bp%d" % L] = _l(bw.Bprime(L, q, q0, 3.0))
        out["Bq2%d" % L] = _l(bw.Bprime_q2(L, q * q - 0.2, q0 * q0, 3.0))
        out["G%d" % L] = _l(bw.Gamma(m, 0.15, q, q0, L, 0.77, 3.0))
        out["poly%d" % L] = _l(bw.Bprime_polynomial(L, q))
    c64 = lambda v: tf.convert_to_tensor(np.array(v, dtype=np.float64))
    out["GS"] = _l(bw.GS(m, c64(0.77), c64(0.15), q, q0, 1, 3.0))
    out["bf"] = _l(bw.barrier_factor([0, 1, 2], q, q0))
    out["bf2"] = _l(bw.barrier_factor2([0, 1, 2], q, q0))
    out["cm"] = _l(bw.twoBodyCMmom(m, 0.14, 0.3))
    out["p"] = _l(get_relative_p(m, 0.14, 0.3))
    out["p2"] = _l(get_relative_p2(m, 0.14, 0.3))
    out["one"] = _l(bw.one())
    return out


def _P(L, z):
    from props.C15 import bw_poly_coeffs

    acc = 0.0
    for c in bw_poly_coeffs(L):
        acc = acc * z + float(c)
    return acc


def _gamma(L, m, m0, g0, q, q0, d):
    return g0 * (q / q0) ** (2 * L + 1) * (m0 / m) * _P(L, (q0 * d) ** 2) / _P(L, (q * d) ** 2)


def replay(p):
    import tensorflow as tf
    from tf_pwa import breit_wigner as bw

    kind = p["kind"]
    t = lambda v: tf.convert_to_tensor(np.array([v], dtype=np.float64))
    c = lambda x: complex(np.asarray(x.numpy()).reshape(-1)[0])
    f = lambda x: float(np.asarray(x.numpy()).reshape(-1)[0])
    tol = 1e-8
    err = 0.0
    L = p.get("L", 0)
    with np.errstate(all="ignore"):
        if kind == "BW":
            r = c(bw.BW(t(p["m"]), p["m0"], p["g0"]))
            den = p["m0"] ** 2 - p["m"] ** 2 - 1j * p["m0"] * p["g0"]
            err = max(abs(r * den - 1), 0.0 if r.imag > 0 else 1.0)
        elif kind == "one":
            err = abs(complex(bw.one().numpy()) - 1)
        elif kind == "cmmom":
            k = f(bw.twoBodyCMmom(t(p["m0"]), t(p["m1"]), t(p["m2"])))
            lam = (p["m0"] ** 2 - (p["m1"] + p["m2"]) ** 2) * (p["m0"] ** 2 - (p["m1"] - p["m2"]) ** 2)
            ref = math.sqrt(lam) / (2 * p["m0"]) if (lam > 0 and p["m0"] > p["m1"] + p["m2"]) else 0.0
            err = abs(k - ref) if p["m0"] > abs(p["m1"] - p["m2"]) else 0.0
        elif kind in ("poly",):
            err = abs(f(bw.Bprime_polynomial(L, t(p["z"]))) - _P(L, p["z"])) / max(1.0, abs(_P(L, p["z"])))
            from tf_pwa import formula

            err = max(err, abs(float(formula.Bprime_polynomial(L, p["z"])) - _P(L, p["z"])) / max(1.0, abs(_P(L, p["z"]))))
        elif kind == "poly_gen":
            from props.C15 import bw_poly_coeffs

            g = [float(x) for x in bw.get_bprime_coeff(L)]
            ref = [float(x) for x in bw_poly_coeffs(L)]
            err = max(abs(a / g[0] - b) for a, b in zip(g, ref))
        elif kind in ("bprime", "barrier"):
            q, q0, d = p["q"], p["q0"], p["d"]
            ref = math.sqrt(_P(L, (q0 * d) ** 2) / _P(L, (q * d) ** 2))
            b = f(bw.Bprime(L, t(q), t(q0), d))
            b2 = f(bw.Bprime_q2(L, t(q * q), t(q0 * q0), d))
            bf = np.asarray(bw.barrier_factor(list(range(L + 1)), t(q), t(q0), d).numpy())[L, 0]
            bf2 = np.asarray(bw.barrier_factor2(list(range(L + 1)), t(q), t(q0), d).numpy())[0, L]
            err = max(abs(b - ref), abs(b2 - ref), abs(bf - q**L * ref), abs(bf2 - q**L * ref)) / max(1.0, abs(ref))
        elif kind == "bprime_q2_below":
            # the pole sits at an algebraic number that a double only approximates: the value is not finite there, or
            # unboundedly large on the side of the root where the ratio of the polynomials is positive
            worst = 0.0
            for rel in (0.0, 1e-15, -1e-15, 1e-14, -1e-14, 1e-13, -1e-13, 1e-12, -1e-12, 1e-11, -1e-11, 1e-10, -1e-10):
                b2 = f(bw.Bprime_q2(L, t(p["q2"] * (1 + rel)), t(p["q02"]), p["d"]))
                worst = float("inf") if not math.isfinite(b2) else max(worst, abs(b2))
            err = float("inf") if worst > 1e4 else 0.0
        elif kind == "gamma":
            g = f(bw.Gamma(t(p["m"]), p["g0"], t(p["q"]), t(p["q0"]), L, p["m0"], p["d"]))
            ref = _gamma(L, p["m"], p["m0"], p["g0"], p["q"], p["q0"], p["d"])
            err = abs(g - ref) / max(1.0, abs(ref))
        elif kind in ("bwr", "bwr2"):
            m, m0, g0, q, q0, d = (p[k] for k in ("m", "m0", "g0", "q", "q0", "d"))
            gam = _gamma(L, m, m0, g0, q, q0, d)
            den = m0 * m0 - m * m - 1j * m0 * gam
            if kind == "bwr":
                r = c(bw.BWR(t(m), m0, g0, t(q), t(q0), L, d))
                err = max(abs(r * den - 1), 0.0 if r.imag > 0 else 1.0)
            else:
                r = c(bw.BWR2(t(m), m0, g0, t(q * q), t(q0 * q0), L, d))
                rn = c(bw.BWR_normal(t(m), m0, g0, t(q * q), t(q0 * q0), L, d))
                err = max(abs(r * den - 1), abs(rn * den - math.sqrt(m0 * gam)), 0.0 if r.imag > 0 else 1.0)
        elif kind == "bwr2_below":
            m, m0, g0, s_, q02, d = (p[k] for k in ("m", "m0", "g0", "s", "q02", "d"))
            q2 = -s_
            r = c(bw.BWR2(t(m), m0, g0, t(q2), t(q02), L, d))
            gam_im = g0 * (m0 / m) * _P(L, q02 * d * d) / _P(L, q2 * d * d) * (q2 / q02) ** L * math.sqrt(s_ / q02)
            D = m0 * m0 - m * m + m0 * gam_im
            err = abs(r * D - 1)
        elif kind == "dom":
            import sympy

            from tf_pwa import formula
            from tf_pwa.amp.core import get_relative_p

            m, m0, g0, m1, m2 = (p[k] for k in ("m", "m0", "g0", "m1", "m2"))
            q = get_relative_p(t(m), t(m1), t(m2))
            q0 = get_relative_p(t(m0), t(m1), t(m2))
            r = c(bw.BWR(t(m), m0, g0, q, q0, L, 3.0))
            dom = complex(sympy.N(formula.BWR_dom(m, m0, g0, L, m1, m2)))
            err = abs(r * dom - 1)
            if L == 0:
                err = max(err, abs(c(bw.BW(t(m), m0, g0)) * complex(sympy.N(formula.BW_dom(m, m0, g0))) - 1))
        elif kind in ("gs_parts", "gs_assembly"):
            pi = float(np.float32(3.14159265359))
            if kind == "gs_parts":
                m, a, b, m0, g0 = (p[k] for k in ("m", "a", "b", "m0", "g0"))

                def k(x):
                    lam = (x * x - (a + b) ** 2) * (x * x - (a - b) ** 2)
                    return math.sqrt(lam) / (2 * x)

                h = lambda x: (2.0 / pi) * (k(x) / x) * math.log((x + 2 * k(x)) / (a + b))
                dh = lambda x: h(x) * (1.0 / (8 * k(x) ** 2) - 1.0 / (2 * x * x)) + 1.0 / (2 * pi * x * x)
                s = m * m
                sm24 = (a + b) ** 2 / 4
                dref = 3.0 / pi * sm24 / k(m) ** 2 * math.log((m + 2 * k(m)) / (a + b)) + m / (2 * pi * k(m)) - sm24 * m / (pi * k(m) ** 3)
                errs = [
                    abs(f(bw.twoBodyCMmom(t(m), t(a), t(b))) - k(m)),
                    abs(f(bw.hFun(t(s), t(a), t(b))) - h(m)),
                    abs(f(bw.dh_dsFun(t(s), t(a), t(b))) - dh(m)),
                    abs(f(bw.dFun(t(s), t(a), t(b))) - dref) / max(1.0, abs(dref)),
                ]
                if m0 > a + b:
                    k0 = k(m0)
                    fref = g0 * m0 * m0 / k0**3 * (k(m) ** 2 * (h(m) - h(m0)) + (m0 * m0 - s) * k0**2 * dh(m0))
                    errs.append(abs(f(bw.fsFun(t(s), t(m0 * m0), t(g0), t(a), t(b))) - fref) / max(1.0, abs(fref)))
                err = max(errs)
            else:
                m, m0, g0, q, q0, d, Dv, fv = (p[k] for k in ("m", "m0", "g0", "q", "q0", "d", "Dval", "fval"))
                od, of = bw.dFun, bw.fsFun
                bw.dFun = lambda *a_, **k_: t(Dv)
                bw.fsFun = lambda *a_, **k_: t(fv)
                try:
                    r = c(bw.GS(t(m), t(m0), t(g0), t(q), t(q0), 1, d))
                finally:
                    bw.dFun, bw.fsFun = od, of
                gam = _gamma(1, m, m0, g0, q, q0, d)
                ref = (1 + Dv * g0 / m0) / (m0 * m0 - m * m + fv - 1j * m0 * gam)
                err = abs(r - ref) / max(1.0, abs(ref))
        else:
            return {"reproduced": False, "error": "unknown kind %s" % kind}
    err = float(err)
    return {"reproduced": bool(err > tol or err != err), "error_magnitude": err, "tolerance": tol, "kind": kind}
