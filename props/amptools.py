"""Small real amplitude models (through ConfigLoader) for the amplitude-level harnesses."""
from __future__ import annotations

import numpy as np

from symx import scalar as S
from symx import term as T

from .common import tensor_of

CFG3 = {
    "data": {"dat_order": ["B", "C", "D"]},
    "decay": {"A": [["R_BC", "D"], ["R_BC2", "D"], ["R_BD", "C"]], "R_BC": ["B", "C"], "R_BC2": ["B", "C"], "R_BD": ["B", "D"]},
    "particle": {
        "$top": {"A": {"J": 0, "P": -1, "mass": 4.6}},
        "$finals": {"B": {"J": 0, "P": -1, "mass": 2.0}, "C": {"J": 0, "P": -1, "mass": 2.0}, "D": {"J": 0, "P": -1, "mass": 0.14}},
        "R_BC": {"J": 1, "P": -1, "mass": 4.16, "width": 0.1},
        "R_BC2": {"J": 0, "P": 1, "mass": 4.3, "width": 0.2},
        "R_BD": {"J": 1, "P": -1, "mass": 2.43, "width": 0.3},
    },
}

CFG_SPIN = {
    "data": {"dat_order": ["B", "C", "D"]},
    "decay": {"A": [["R_BC", "D"], ["R_BD", "C"], ["R_CD", "B"]], "R_BC": ["B", "C"], "R_BD": ["B", "D"], "R_CD": ["C", "D"]},
    "particle": {
        "$top": {"A": {"J": 1, "P": -1, "mass": 4.6}},
        "$finals": {"B": {"J": 1, "P": -1, "mass": 2.0}, "C": {"J": 1, "P": -1, "mass": 2.0}, "D": {"J": 0, "P": -1, "mass": 0.14}},
        "R_BC": {"J": 1, "P": 1, "mass": 4.16, "width": 0.1},
        "R_BD": {"J": 1, "P": 1, "mass": 2.43, "width": 0.3},
        "R_CD": {"J": 1, "P": 1, "mass": 2.42, "width": 0.03},
    },
}

CFG_HALF = {
    "data": {"dat_order": ["B", "C", "D"]},
    "decay": {"A": [["R_BC", "D"], ["R_BD", "C"]], "R_BC": ["B", "C"], "R_BD": ["B", "D"]},
    "particle": {
        "$top": {"A": {"J": 0.5, "P": 1, "mass": 5.6}},
        "$finals": {"B": {"J": 0.5, "P": 1, "mass": 0.94}, "C": {"J": 0, "P": -1, "mass": 0.5}, "D": {"J": 1, "P": -1, "mass": 3.1}},
        "R_BC": {"J": 1.5, "P": -1, "mass": 1.52, "width": 0.02},
        "R_BD": {"J": 0.5, "P": -1, "mass": 4.45, "width": 0.05},
    },
}


CFG4 = {
    "data": {"dat_order": ["B", "C", "D", "E"]},
    "decay": {"A": [["R1", "R2"], ["R1", "R3"]], "R1": ["B", "C"], "R2": ["D", "E"], "R3": ["D", "E"]},
    "particle": {
        "$top": {"A": {"J": 0, "P": -1, "mass": 5.0}},
        "$finals": {"B": {"J": 0, "P": -1, "mass": 0.5}, "C": {"J": 0, "P": -1, "mass": 0.5}, "D": {"J": 0, "P": -1, "mass": 0.14}, "E": {"J": 0, "P": -1, "mass": 0.14}},
        "R1": {"J": 1, "P": -1, "mass": 1.9, "width": 0.1},
        "R2": {"J": 1, "P": -1, "mass": 0.77, "width": 0.15},
        "R3": {"J": 2, "P": 1, "mass": 1.0, "width": 0.3},
    },
}


# four-body, two topology classes, a three-level cascade, spin-1/2 final particles at depth 2 and 3
CFG4S = {
    "data": {"dat_order": ["B", "C", "D", "E"]},
    "decay": {"A": [["R1", "R2"], ["X", "E"]], "R1": ["B", "C"], "R2": ["D", "E"], "X": ["R1", "D"]},
    "particle": {
        "$top": {"A": {"J": 0, "P": -1, "mass": 5.0}},
        "$finals": {"B": {"J": 0.5, "P": 1, "mass": 0.94}, "C": {"J": 0, "P": -1, "mass": 0.5}, "D": {"J": 0, "P": -1, "mass": 0.14}, "E": {"J": 0.5, "P": 1, "mass": 0.94}},
        "R1": {"J": 0.5, "P": -1, "mass": 1.6, "width": 0.1},
        "R2": {"J": 0.5, "P": 1, "mass": 1.3, "width": 0.15},
        "X": {"J": 0.5, "P": 1, "mass": 2.4, "width": 0.3},
    },
}


def build_model(cfg=None, **amp_kwargs):
    import copy

    from tf_pwa.config_loader import ConfigLoader

    cfg = copy.deepcopy(cfg or CFG3)
    if amp_kwargs:
        cfg["data"].update(amp_kwargs)
    config = ConfigLoader(cfg)
    amp = config.get_amplitude()
    return amp, config


def phsp_data(config, n, seed=1):
    """n phase-space events (concrete kinematics) as the data dictionary of the model.
    The uniform variates come from numpy (same events under the real and the substitute tensorflow)."""
    return _phsp(config, n, seed, False)


def phsp_p4(config, n, seed=1):
    """the same events as {final particle name: numpy array (n, 4)} (E, px, py, pz), parent at rest"""
    return _phsp(config, n, seed, True)


def data_of(config, p4):
    """data dictionary of the model for given four-momenta {name: array (n, 4)}"""
    import tensorflow as tf

    outs = config.get_dat_order()
    return config.data.cal_angle({k: tf.convert_to_tensor(np.asarray(p4[str(k)], dtype=np.float64)) for k in outs})


def _phsp(config, n, seed, only_p4):
    import tensorflow as tf
    from tf_pwa.phasespace import PhaseSpaceGenerator

    rng = np.random.RandomState(seed)

    def uniform(shape, minval=0.0, maxval=1.0, dtype=None, **kw):
        shp = [int(x) for x in (shape if hasattr(shape, "__len__") else [shape])]
        return tf.convert_to_tensor(rng.uniform(float(minval), float(maxval if maxval is not None else 1.0), size=shp))

    sym_state = getattr(tf, "STATE", None)
    old_flag = sym_state.symbolic_random if sym_state is not None else None
    if sym_state is not None:
        sym_state.symbolic_random = False
    old = tf.random.uniform
    tf.random.uniform = uniform
    try:
        top = config.get_decay().top
        outs = config.get_dat_order()
        m0 = float(top.get_mass())
        mi = [float(config.get_decay().get_particle(str(i)).get_mass()) for i in outs]
        gen = PhaseSpaceGenerator(m0, mi)
        mass = gen.generate_mass(n)
        p = gen.generate_momentum(mass, n)
        if only_p4:
            data = {str(k): np.asarray(getattr(v, "numpy", lambda: v)() if not hasattr(v, "arr") else v.arr, dtype=np.float64) for k, v in zip(outs, p)}
        else:
            data = config.data.cal_angle(dict(zip(outs, p)))
    finally:
        tf.random.uniform = old
        if sym_state is not None:
            sym_state.symbolic_random = old_flag
    return data


def symbolize_couplings(amp, prefix="g_", cartesian=False):
    """every trainable parameter gets a symbolic value (phases of polar couplings are symbolic
    angles so that their sines and cosines are rational); returns {name: SymReal}.
    cartesian=True first switches all complex couplings to x + i y (then the amplitude is polynomial)."""
    out = {}
    vm = amp.vm
    if cartesian:
        vm.rp2xy_all()
    for i, n in enumerate(coupling_names(vm)):
        if n.endswith("i") and vm.complex_vars.get(n[:-1]) is True:
            x = S.angle("%s%d" % (prefix, i), D=1)
        else:
            x = S.real("%s%d" % (prefix, i))
        vm.variables[n].assign(tensor_of(x))
        out[n] = x
    return out


def coupling_names(vm):
    """free parameters plus the fixed reference couplings (so that no chain is evaluated in
    rounded floating point while the others are exact)"""
    names = list(vm.trainable_vars)
    for n in vm.variables:
        if n not in names and ("_total_" in n or "_g_ls_" in n):
            names.append(n)
    return names


def model_params(amp, model, prefix="g_", cartesian=False):
    """solver model -> {parameter name: float} in the naming of symbolize_couplings"""
    import math

    out = {}
    vm = amp.vm
    if cartesian:
        out["__cartesian__"] = True
    for i, n in enumerate(coupling_names(vm)):
        key = "%s%d" % (prefix, i)
        if n.endswith("i") and vm.complex_vars.get(n[:-1]) is True:
            out[n] = 2 * math.atan(float(model.get("u_" + key, 0.3)))
        else:
            out[n] = float(model.get(key, 0.7))
    return out
