"""C13: replays / conformance on the real code."""
import itertools

import numpy as np


def _ref_list(ja, jb, jc, pa, pb, pc, p_break, ca):
    """reference enumeration in doubled integers (independent of the code's loops)"""
    tja, tjb, tjc = int(round(2 * ja)), int(round(2 * jb)), int(round(2 * jc))
    out = []
    for s2 in range(abs(tjb - tjc), tjb + tjc + 1, 2):
        if (tja + s2) % 2:
            continue
        for l2 in range(abs(tja - s2), tja + s2 + 1, 2):
            l = l2 // 2
            if l2 % 2:
                continue
            if not p_break and pa != pb * pc * (-1) ** l:
                continue
            if ca is not None and ca != (-1) ** (l + s2 // 2):
                continue
            out.append((l, s2))
    return out


def conformance(tier):
    from tf_pwa.particle import GetA2BC_LS_list

    out = {}
    J = lambda t: t / 2 if t % 2 else t // 2
    k = 0
    for tja, tjb, tjc in itertools.product(range(0, 5), repeat=3):
        for pa, pb, pc, brk in [(1, 1, 1, False), (-1, 1, -1, False), (1, -1, 1, True)]:
            r = GetA2BC_LS_list(J(tja), J(tjb), J(tjc), pa, pb, pc, p_break=brk)
            out["ls%d" % k] = [[float(l), float(s)] for l, s in r]
            k += 1
    return out


def replay(p):
    kind = p["kind"]
    if kind == "select":
        from tf_pwa.particle import GetA2BC_LS_list

        J = lambda t: t / 2 if t % 2 else t // 2
        ja, jb, jc = J(p["tja"]), J(p["tjb"]), J(p["tjc"])
        got = GetA2BC_LS_list(ja, jb, jc, p["pa"], p["pb"], p["pc"], p_break=p["p_break"], ca=p["ca"])
        got2 = [(int(l), int(round(2 * s))) for l, s in got]
        ref = _ref_list(ja, jb, jc, p["pa"], p["pb"], p["pc"], p["p_break"], p["ca"])
        ok = sorted(got2) == sorted(ref) and len(set(got2)) == len(got2)
        return {"reproduced": not ok, "got": got2, "expected": ref}
    if kind == "rank":
        from tf_pwa.amp import HelicityDecay, get_particle

        J = lambda t: t / 2 if t % 2 else t // 2
        a = get_particle("RA", J=J(p["tja"]), P=p["pa"])
        b = get_particle("RB", J=J(p["tjb"]), P=p["pb"])
        c = get_particle("RC", J=J(p["tjc"]), P=p["pc"])
        d = HelicityDecay(a, [b, c], p_break=p["p_break"])
        ls = d.get_ls_list()
        hel = lambda t: [x / 2 for x in range(-t, t + 1, 2)]
        hb, hc = hel(p["tjb"]), hel(p["tjc"])
        allowed = [(x, y) for x in hb for y in hc if abs(x - y) <= J(p["tja"])]
        if p["p_break"]:
            expect = len(allowed)
        else:
            eta = p["pa"] * p["pb"] * p["pc"] * (-1) ** int(round(J(p["tja"]) - J(p["tjb"]) - J(p["tjc"])))
            n0 = sum(1 for x, y in allowed if x == 0 and y == 0)
            expect = (len(allowed) + eta * n0) // 2
        bad = len(ls) != expect
        rank = None
        if ls:
            M = np.asarray(d.get_cg_matrix(), dtype=float).reshape(len(ls), -1)
            rank = int(np.linalg.matrix_rank(M, tol=1e-9))
            bad = bad or rank != len(ls)
            if not p["p_break"]:
                for i in range(len(ls)):
                    m1 = M[i].reshape(len(hb), len(hc))
                    if np.max(np.abs(m1[::-1, ::-1] - eta * m1)) > 1e-9:
                        bad = True
        return {"reproduced": bool(bad), "n_ls": len(ls), "expected": expect, "rank": rank}
    if kind == "filters":
        return {"reproduced": bool(p.get("bad")), "bad": p.get("bad")}
    return {"reproduced": False, "error": "unknown kind"}
