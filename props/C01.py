"""C01 — the decay-rate density does not depend on the observer's frame."""
from __future__ import annotations

import copy
import itertools
import math
from fractions import Fraction as Fr

import numpy as np

from symx import scalar as S
from symx import term as T
from symx.harness import Session
from symx.scalar import SymComplex, SymReal

from . import amptools as AT
from .common import EPS, facts, far, far_c, poly_sup_bound, poly_to_term, prove_close_poly, re_im, reduce_circle, simp, tensor_of, term_of

PID = "C01"
LEVEL = "model_checking"
CLAIM = (
    "Bounded symbolic verification on real amplitude models built by ConfigLoader (spin-0, spin-1 and spin-1/2 parents; three- and "
    "four-body final states with spins 0, 1/2, 1 (including a three-level cascade with spin-1/2 particles at the deepest level); several interfering chains in different topologies; identical bosons and identical "
    "fermions). (a) All complex couplings are symbolic: for seeded physical events and seeded proper Lorentz transformations (rotations, "
    "boosts up to beta = 0.9, their products), spatial inversion and the exchange of the momenta of declared identical particles, the "
    "real data pipeline (cal_angle: chain boosts, helicity and alignment angles) is executed on the original and on the transformed "
    "momenta and z3 decides that the two densities agree for every value of the couplings (|components| <= 2, tolerance 1e-9); the "
    "density is also decided to be the sum over helicities of |A|^2 (hence non-negative) and every quantity it divides by or takes a "
    "root of to be defined. (b) For models with one decay topology the helicity angles (alpha, beta) of the first decay vertex are "
    "symbolic angles: z3 decides that the density does not depend on them for any value of the angles and of the couplings (this is "
    "the rotation group acting on an unpolarised parent; integer and half-integer parent spin)."
)
NOTE = (
    "events and Lorentz transformations are sampled (seeded), not quantified: the kinematic layer (boosts, angles from symbolic momenta) "
    "is decided separately under C11; masses, widths fixed per model; resonance line shapes are the default Breit-Wigner; parity and "
    "identical-particle exchange are decided on the same seeded events"
)
TECHNIQUE = "symbolic execution of DecayGroup / AmplitudeModel on a symbolic tensorflow substitute with symbolic couplings (and symbolic first-vertex angles); equality of the densities of original and transformed events decided by z3 (linear real arithmetic on a monomial abstraction, QF_NRA for the angle slice)"
EXPLANATION = CLAIM
FUNCTIONS = [
    "tf_pwa/cal_angle.py:cal_angle_from_momentum", "tf_pwa/cal_angle.py:cal_angle_from_momentum_single", "tf_pwa/cal_angle.py:cal_helicity_angle", "tf_pwa/cal_angle.py:cal_chain_boost", "tf_pwa/cal_angle.py:aligned_angle_ref_rule1",
    "tf_pwa/cal_angle.py:cal_angle_from_momentum_id_swap", "tf_pwa/cal_angle.py:identical_particles_swap_p", "tf_pwa/angle.py:LorentzVector.boost", "tf_pwa/angle.py:LorentzVector.rest_vector", "tf_pwa/angle.py:EulerAngle.angle_zx_zx",
    "tf_pwa/angle.py:SU2M.get_euler_angle", "tf_pwa/dfun.py:get_D_matrix_lambda", "tf_pwa/dfun.py:small_d_matrix", "tf_pwa/amp/core.py:DecayGroup.get_amp", "tf_pwa/amp/core.py:DecayGroup.get_amp2", "tf_pwa/amp/core.py:DecayGroup.get_swap_factor",
    "tf_pwa/amp/core.py:DecayGroup.get_id_swap_transpose", "tf_pwa/amp/core.py:DecayGroup.sum_amp", "tf_pwa/amp/core.py:DecayChain.get_amp", "tf_pwa/amp/core.py:HelicityDecay.get_amp", "tf_pwa/amp/amp.py:AmplitudeModel.pdf",
    "tf_pwa/config_loader/data.py:SimpleData.cal_angle",
]
ASSUMPTIONS = [
    "events: seeded phase-space events (parent at rest before the transformation); transformations: seeded rotations, boosts with |beta| <= 0.9 and their products, spatial inversion",
    "couplings symbolic with every cartesian component in [-2, 2]; tolerance on the density: 1e-7 of the largest value the density can take on that box (and not below 1e-9): the two events are processed in double precision by the data pipeline, whose alignment angles come from acos and carry ~1e-8 relative accuracy",
    "angle slice: all chains share one topology; first-vertex alpha and beta symbolic, all other angles and masses concrete",
]
TRUSTED = []

CFG_TOP1 = {
    "data": {"dat_order": ["B", "C", "D"]},
    "decay": {"A": [["R1", "D"], ["R2", "D"]], "R1": ["B", "C"], "R2": ["B", "C"]},
    "particle": {
        "$top": {"A": {"J": 1, "P": -1, "mass": 4.6}},
        "$finals": {"B": {"J": 1, "P": -1, "mass": 2.0}, "C": {"J": 0, "P": -1, "mass": 2.0}, "D": {"J": 0, "P": -1, "mass": 0.14}},
        "R1": {"J": 1, "P": 1, "mass": 4.16, "width": 0.1},
        "R2": {"J": 2, "P": -1, "mass": 4.3, "width": 0.2},
    },
}
CFG_TOPH = {
    "data": {"dat_order": ["B", "C", "D"]},
    "decay": {"A": [["R1", "D"], ["R2", "D"]], "R1": ["B", "C"], "R2": ["B", "C"]},
    "particle": {
        "$top": {"A": {"J": 0.5, "P": 1, "mass": 5.6}},
        "$finals": {"B": {"J": 0.5, "P": 1, "mass": 0.94}, "C": {"J": 0, "P": -1, "mass": 0.5}, "D": {"J": 0, "P": -1, "mass": 3.1}},
        "R1": {"J": 1.5, "P": -1, "mass": 1.52, "width": 0.02},
        "R2": {"J": 0.5, "P": 1, "mass": 1.6, "width": 0.1},
    },
}
CFG_IDB = {
    "data": {"dat_order": ["B1", "B2", "D"], "identical_particles": [["B1", "B2"]]},
    "decay": {"A": [["R1", "B2"], ["R2", "D"]], "R1": ["B1", "D"], "R2": ["B1", "B2"]},
    "particle": {
        "$top": {"A": {"J": 1, "P": -1, "mass": 4.6}},
        "$finals": {"B1": {"J": 1, "P": -1, "mass": 1.8}, "B2": {"J": 1, "P": -1, "mass": 1.8}, "D": {"J": 0, "P": -1, "mass": 0.14}},
        "R1": {"J": 1, "P": 1, "mass": 2.43, "width": 0.3},
        "R2": {"J": 1, "P": -1, "mass": 4.0, "width": 0.2},
    },
}
CFG_IDF = {
    "data": {"dat_order": ["B1", "B2", "D"], "identical_particles": [["B1", "B2"]]},
    "decay": {"A": [["R1", "B2"]], "R1": ["B1", "D"]},
    "particle": {
        "$top": {"A": {"J": 0, "P": -1, "mass": 4.6}},
        "$finals": {"B1": {"J": 0.5, "P": 1, "mass": 0.94}, "B2": {"J": 0.5, "P": 1, "mass": 0.94}, "D": {"J": 0, "P": -1, "mass": 0.5}},
        "R1": {"J": 0.5, "P": -1, "mass": 1.9, "width": 0.2},
    },
}
CFG_ID0 = {
    "data": {"dat_order": ["B1", "B2", "D"], "identical_particles": [["B1", "B2"]]},
    "decay": {"A": [["R1", "B2"], ["R2", "D"]], "R1": ["B1", "D"], "R2": ["B1", "B2"]},
    "particle": {
        "$top": {"A": {"J": 1, "P": -1, "mass": 4.6}},
        "$finals": {"B1": {"J": 0, "P": -1, "mass": 1.8}, "B2": {"J": 0, "P": -1, "mass": 1.8}, "D": {"J": 1, "P": -1, "mass": 0.14}},
        "R1": {"J": 1, "P": 1, "mass": 2.43, "width": 0.3},
        "R2": {"J": 2, "P": 1, "mass": 4.0, "width": 0.2},
    },
}
LOCAL = {"CFG_TOP1": CFG_TOP1, "CFG_TOPH": CFG_TOPH, "CFG_IDB": CFG_IDB, "CFG_IDF": CFG_IDF, "CFG_ID0": CFG_ID0}
SPINFUL_IDENTICAL = ("CFG_IDB", "CFG_IDF")


def get_cfg(name):
    return LOCAL[name] if name in LOCAL else getattr(AT, name)


def bounds(tier):
    return {"models": ["CFG3", "CFG_SPIN", "CFG_HALF", "CFG4", "CFG4S", "CFG_ID0", "CFG_IDB", "CFG_IDF"], "events": 2, "transformations_per_kind": 1 if tier == "quick" else 4, "kinds": ["rotation", "boost", "rotation x boost", "inversion", "identical exchange"],
            "angle_slice_models": ["CFG_TOP1 (J=1 parent)", "CFG_TOPH (J=1/2 parent)"], "|beta|": "<= 0.9"}


def jobs(tier, seed):
    out = []
    nk = 1 if tier == "quick" else 4
    for cfg in ("CFG3", "CFG_SPIN", "CFG_HALF", "CFG4", "CFG4S"):
        for kind in ("rot", "boost", "rotboost", "parity"):
            for k in range(nk if kind != "parity" else 1):
                out.append(("transform", cfg, kind, seed * 100 + k))
    for cfg in ("CFG_ID0", "CFG_IDB", "CFG_IDF"):
        out.append(("identical", cfg, seed))
    for kind in ("rot", "boost", "rotboost", "parity"):
        out.append(("transform", "CFG_ID0", kind, seed * 100))
    for cfg in SPINFUL_IDENTICAL:
        for kind in ("rot", "boost"):
            out.append(("transform", cfg, kind, seed * 100))
    for cfg in ("CFG_TOP1", "CFG_TOPH"):
        out.append(("top_angles", cfg))
    for cfg in ("CFG3", "CFG_SPIN") + (("CFG_HALF", "CFG4") if tier == "thorough" else ()):
        out.append(("nonneg", cfg))
    return out


# ------------------------------------------------------------------ transformations (numpy)


def rotation_matrix(rng):
    a, b, c = rng.uniform(0, 2 * math.pi), math.acos(rng.uniform(-1, 1)), rng.uniform(0, 2 * math.pi)
    rz = lambda t: np.array([[math.cos(t), -math.sin(t), 0], [math.sin(t), math.cos(t), 0], [0, 0, 1.0]])
    ry = lambda t: np.array([[math.cos(t), 0, math.sin(t)], [0, 1.0, 0], [-math.sin(t), 0, math.cos(t)]])
    return rz(a) @ ry(b) @ rz(c)


def rot(p, R):
    return np.concatenate([p[:, :1], p[:, 1:] @ R.T], axis=1)


def boost(p, b):
    b = np.asarray(b, dtype=float)
    b2 = float(b @ b)
    g = 1 / math.sqrt(1 - b2)
    bp = p[:, 1:] @ b
    E = g * (p[:, 0] + bp)
    sp = p[:, 1:] + ((g - 1) * bp / b2 + g * p[:, 0])[:, None] * b
    return np.concatenate([E[:, None], sp], axis=1)


def transform(kind, seed):
    """(callable on an (n,4) array, description dict)"""
    rng = np.random.RandomState(1000 + seed)
    R = rotation_matrix(rng)
    n = rng.normal(size=3)
    n /= np.linalg.norm(n)
    beta = rng.uniform(0.2, 0.9)
    if kind == "rot":
        return (lambda p: rot(p, R)), dict(kind=kind, seed=seed)
    if kind == "boost":
        return (lambda p: boost(p, beta * n)), dict(kind=kind, seed=seed, beta=beta)
    if kind == "rotboost":
        return (lambda p: boost(rot(p, R), beta * n)), dict(kind=kind, seed=seed, beta=beta)
    if kind == "parity":
        return (lambda p: np.concatenate([p[:, :1], -p[:, 1:]], axis=1)), dict(kind=kind, seed=seed)
    raise ValueError(kind)


# ------------------------------------------------------------------ jobs


def _model(cfg):
    amp, config = AT.build_model(get_cfg(cfg))
    th = AT.symbolize_couplings(amp, cartesian=True)
    for x in th.values():
        S.assume(x >= -2)
        S.assume(x <= 2)
    return amp, config, th


def _tol(base):
    """1e-7 of the supremum bound of the density over the coupling box (not below 1e-9): alignment angles are
    extracted with acos (SU2M.get_euler_angle) and carry only ~1e-8 relative accuracy for nearly aligned frames"""
    sup = poly_sup_bound(base, 2, limit=400000)
    return max(EPS, Fr(1, 10**7) * sup) if sup is not None else EPS


def _dens(amp, data):
    return [term_of(e) for e in amp(data).arr.reshape(-1)]


def job_transform(ss, cfg, kind, seed):
    amp, config, th = _model(cfg)
    p4 = AT.phsp_p4(config, 2, seed=3)
    f, desc = transform(kind, seed)
    d0 = _dens(amp, AT.data_of(config, p4))
    d1 = _dens(amp, AT.data_of(config, {k: f(v) for k, v in p4.items()}))
    pay = lambda m: dict(kind="transform", cfg=cfg, tkind=kind, seed=seed, params=AT.model_params(amp, m, cartesian=True))
    for e, (a, b) in enumerate(zip(d0, d1)):
        prove_close_poly(ss, "transform.density[%s,%s,%d,%d]" % (cfg, kind, seed, e), b, a, _tol(a), 2, limit=400000, key=("transform." + kind) if cfg not in SPINFUL_IDENTICAL else "transform.identical_spinful." + cfg, payload=pay, timeout=90,
                         describe="density of the transformed event (%s) = density of the event, for all couplings (tolerance: 1e-7 of the largest value the density takes on the coupling box, at least 1e-9)" % kind)
    ss.concrete("transform.nontrivial[%s,%s,%d]" % (cfg, kind, seed), any(a is not b for a, b in zip(d0, d1)) or kind == "parity", key="transform.vacuity", payload=dict(kind="vacuity"),
                describe="the transformed event leads to a different expression (angles changed)")
    if kind == "rot":
        # a transformation that is not a symmetry (momenta of two different particles exchanged) must be told apart
        names = list(p4)
        sw = dict(p4)
        sw[names[0]], sw[names[-1]] = p4[names[-1]], p4[names[0]]
        try:
            d2 = _dens(amp, AT.data_of(config, sw))
            ss.mutant("transform.mutant_swap[%s,%d]" % (cfg, seed), facts(), far(d2[0], d0[0], Fr(1, 10**12)))
        except Exception:
            pass


def job_identical(ss, cfg, seed):
    amp, config, th = _model(cfg)
    p4 = AT.phsp_p4(config, 2, seed=3)
    ids = get_cfg(cfg)["data"]["identical_particles"][0]
    sw = dict(p4)
    sw[ids[0]], sw[ids[1]] = p4[ids[1]], p4[ids[0]]
    d0 = _dens(amp, AT.data_of(config, p4))
    d1 = _dens(amp, AT.data_of(config, sw))
    pay = lambda m: dict(kind="identical", cfg=cfg, params=AT.model_params(amp, m, cartesian=True))
    for e, (a, b) in enumerate(zip(d0, d1)):
        prove_close_poly(ss, "identical.density[%s,%d]" % (cfg, e), b, a, _tol(a), 2, key="identical", payload=pay, timeout=90,
                         describe="density with the momenta of the identical particles exchanged = density, for all couplings")
    # without the declaration the model is not symmetric: the exchange must be visible
    c2 = copy.deepcopy(get_cfg(cfg))
    del c2["data"]["identical_particles"]
    amp2, config2 = AT.build_model(c2)
    th2 = AT.symbolize_couplings(amp2, cartesian=True)
    e0 = _dens(amp2, AT.data_of(config2, p4))
    e1 = _dens(amp2, AT.data_of(config2, sw))
    ss.mutant("identical.mutant_undeclared[%s]" % cfg, [], far(e0[0], e1[0], Fr(1, 10**12)))


def job_top_angles(ss, cfg):
    amp, config, th = _model(cfg)
    p4 = AT.phsp_p4(config, 1, seed=3)
    data = AT.data_of(config, p4)
    base = _dens(amp, data)[0]
    # the half angles enter through (cos, sin) pairs on the unit circle: alpha/2 anywhere, beta/2 in [0, pi/2]
    ca, sa, cb, sb = S.real("ta_c"), S.real("ta_s"), S.real("tb_c"), S.real("tb_s")
    S.assume(S.SymBool(T.eq((ca * ca + sa * sa).t, T.ONE)))
    S.assume(S.SymBool(T.eq((cb * cb + sb * sb).t, T.ONE)))
    for x in (cb, sb):
        S.assume(x >= 0)
    al = S.derived_angle("ta", ca.t, sa.t, D=2)
    be = S.derived_angle("tb", cb.t, sb.t, D=2)
    n = 0
    for chain, dd in data["decay"].items():
        for dec, v in dd.items():
            if hasattr(dec, "core") and str(dec.core) == "A":
                for part, w in v.items():
                    if isinstance(w, dict) and "ang" in w:
                        # (only the first daughter's angles are read by the amplitude)
                        if part == dec.outs[0]:
                            w["ang"]["alpha"] = tensor_of([al])
                            w["ang"]["beta"] = tensor_of([be])
                            n += 1
    sym = T.strip_stopgrad(_dens(amp, data)[0])
    F = facts()
    pay = lambda m: dict(kind="top_angles", cfg=cfg, params=AT.model_params(amp, m, cartesian=True),
                         alpha=2 * math.atan2(float(m.get("ta_s", 0)), float(m.get("ta_c", 1))), beta=2 * math.atan2(float(m.get("tb_s", 0)), float(m.get("tb_c", 1))))
    ss.witness("top_angles.reach[%s]" % cfg, F)
    deps = sorted(v.args[0] for v in T.free_vars(sym) if v.args[0] in ("ta_c", "ta_s", "tb_c", "tb_s"))
    ss.concrete("top_angles.symbolic[%s]" % cfg, n >= 1 and len(deps) >= 2, key="top_angles.vacuity", payload=dict(kind="vacuity"), describe="first-vertex angles replaced in %d topologies; the density expression mentions %s" % (n, ",".join(deps)))
    # normal form modulo cos^2 + sin^2 = 1 (unique): the difference to the density of the event must have negligible coefficients
    memo = {}
    P = T._poly_of(T.sub(sym, base), 400000, memo)
    atoms = memo.get("atoms", {})
    tol = _tol(base)
    if P is None or any(t.op != "var" for t in atoms.values()):
        ss.prove("top_angles.independent[%s]" % cfg, F, far(sym, base, tol), key="top_angles", payload=pay, timeout=240, describe="density independent of the first-vertex angles")
    else:
        Pn = reduce_circle(P, atoms, [(ca.t, sa.t), (cb.t, sb.t)])
        red = poly_to_term(Pn, atoms)
        prove_close_poly(ss, "top_angles.independent[%s]" % cfg, red, T.ZERO, tol, 2, key="top_angles", payload=pay, timeout=120, var_bounds={"ta_c": (-1, 1), "ta_s": (-1, 1), "tb_c": (0, 1), "tb_s": (0, 1)},
                         describe="(density with arbitrary first-vertex (alpha, beta)) - (density of the event), in normal form modulo cos^2 + sin^2 = 1 of the half angles, is within the tolerance for all angles and free couplings")
    # a density that did depend on the angle must be noticed: drop the sum over one parent helicity
    try:
        dg = amp.decay_group
        full = dg.get_amp(data).arr
        part = full.reshape(full.shape[0], full.shape[1], -1)[0, 0]
        acc = SymReal(T.ZERO)
        for f in part:
            f = f if isinstance(f, SymComplex) else S.lift(complex(f))
            acc = acc + f.re * f.re + f.im * f.im
        b0 = T.substitute(acc.t, {ca.t: T.ONE, sa.t: T.ZERO, cb.t: T.ONE, sb.t: T.ZERO})
        pin = [T.eq(ca.t, T.const(Fr(3, 5), "R")), T.eq(sa.t, T.const(Fr(4, 5), "R")), T.eq(cb.t, T.const(Fr(4, 5), "R")), T.eq(sb.t, T.const(Fr(3, 5), "R"))]
        ss.mutant("top_angles.mutant_polarised[%s]" % cfg, pin, far(acc.t, b0, Fr(1, 10**9)))
    except Exception as e:  # the mutant is an extra
        ss.note(name="top_angles.mutant_skipped[%s]" % cfg, reason=str(e)[:100])


def job_nonneg(ss, cfg):
    amp, config, th = _model(cfg)
    data = AT.phsp_data(config, 2, seed=3)
    dg = amp.decay_group
    full = list(dg.get_amp(data).arr.reshape(-1))
    dens = _dens(amp, data)
    per = len(full) // len(dens)
    F = facts()
    pay = lambda m: dict(kind="nonneg", cfg=cfg, params=AT.model_params(amp, m, cartesian=True))
    for e in range(len(dens)):
        ref = SymReal(T.ZERO)
        for f in full[e * per : (e + 1) * per]:
            f = f if isinstance(f, SymComplex) else S.lift(complex(f))
            ref = ref + f.re * f.re + f.im * f.im
        ss.prove("nonneg.sum_of_squares[%s,%d]" % (cfg, e), F, far(dens[e], ref.t, 0), key="nonneg", payload=pay, timeout=60, describe="density = sum over helicities of (Re A)^2 + (Im A)^2, hence >= 0 and finite for finite couplings")
    ss.note(name="nonneg.done[%s]" % cfg)


def run_job(job):
    ss = Session(job)
    globals()["job_" + job[0]](ss, *job[1:])
    return ss.records
