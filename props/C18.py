"""C18 — structured event data operations are lossless (in-memory algebra)."""
from __future__ import annotations

import itertools

import numpy as np

from symx import fork
from symx import scalar as S
from symx import term as T
from symx.harness import Session
from symx.scalar import SymBool, SymReal

from .common import tensor_of, term_of

PID = "C18"
LEVEL = "model_checking"
CLAIM = (
    "Bounded symbolic verification of tf_pwa.data: the batch index arithmetic of _data_split is executed with a symbolic sample size "
    "n (0..12) and batch size b (1..13) by a path-forking executor and z3 (linear integer arithmetic) decides on every path that the "
    "emitted slices partition [0,n) in order without gaps, overlaps or empty pieces; data_split / data_merge / batch_call / data_mask / "
    "data_index / data_shape run on nested dict/list/tuple structures (incl. empty containers) whose leaves are arrays of distinct "
    "symbolic reals, with symbolic boolean masks explored by forking, and every leaf of the result is compared element by element "
    "with the expected element (identity of symbolic terms: each element is tracked individually, so any loss, duplication or "
    "reordering is seen); the text-file convention load_dat_file(savetxt(p)) is checked on symbolic momenta with the file system "
    "stubbed by an in-memory store."
)
NOTE = (
    "file encodings (text/npy/npz/ROOT), LazyFile and tf.data pipelines are outside the claim (they run in C code / TensorFlow's "
    "runtime); structures of depth <= 3, n <= 4 events for element-level runs, <= 3 particles, 1-2 files"
)
TECHNIQUE = "path-forking symbolic execution of tf_pwa.data with symbolic sizes (z3 LIA) and per-element symbolic tracking of array contents on a symbolic tensorflow substitute"
CLAIM_EXTRA = "Splitting 1001 events into batches of one with an empty dict / list / tuple among the leaves (more batches than the generator's internal repetition count) reproduces the data."
NOTE_EXTRA = ''
EXPLANATION = CLAIM + " " + CLAIM_EXTRA
FUNCTIONS = [
    "tf_pwa/data.py:_data_split", "tf_pwa/data.py:data_generator", "tf_pwa/data.py:data_split", "tf_pwa/data.py:data_merge", "tf_pwa/data.py:data_map", "tf_pwa/data.py:data_mask",
    "tf_pwa/data.py:data_index", "tf_pwa/data.py:data_shape", "tf_pwa/data.py:batch_call", "tf_pwa/data.py:batch_sum", "tf_pwa/data.py:data_replace", "tf_pwa/data.py:data_strip",
    "tf_pwa/data.py:load_dat_file", "tf_pwa/cal_angle.py:CalAngleData.savetxt",
]
ASSUMPTIONS = [
    "array contents are tracked as distinct symbolic reals (one per element): equality of results is identity of these symbols",
    "numpy.loadtxt / savetxt are replaced by an in-memory store that returns the saved array unchanged (text round-off is outside the claim)",
]
TRUSTED = ["numpy slicing / concatenate / reshape / transpose on object arrays"]


def bounds(tier):
    return {"n_symbolic": "0..12", "batch_symbolic": "1..13", "structures": "grammar of depth <= 3 with dict/list/tuple, empty dict/list/tuple", "events_element_level": "<= 4", "particles": 3, "files": [1, 2]}


def jobs(tier, seed):
    out = [("split_index", 0), ("split_index", -1), ("roundtrip",), ("batch_call",), ("mask",), ("index_shape",), ("dat_file", 1), ("dat_file", 2), ("dat_file", 3), ("dat_file", 4)]
    return out


class _Rec:
    """array stand-in with a symbolic length that records the slices taken"""

    def __init__(self, n, log, axis):
        self.shape = (n,) if axis == 0 else (3, n)
        self.log = log

    def __getitem__(self, k):
        if isinstance(k, tuple):
            k = k[-1]
        self.log.append((k.start, k.stop))
        return ("piece", len(self.log) - 1)


def _t(x):
    return x.t if isinstance(x, SymReal) else T.const(int(x), "I")


def job_split_index(ss, axis):
    from symx import pybuiltins as PB
    import tf_pwa.data as D

    saved = {k: D.__dict__.get(k) for k in ("range", "min")}
    D.range, D.min = PB.sym_range, PB.sym_min
    try:
        def run():
            n, b = T.var("n", "I"), T.var("b", "I")
            c = S.ctx()
            c.fact(T.le(T.IZERO, n))
            c.fact(T.le(n, T.const(12, "I")))
            c.fact(T.le(T.IONE, b))
            c.fact(T.le(b, T.const(13, "I")))
            log = []
            pieces = list(D._data_split(_Rec(SymReal(n), log, axis), SymReal(b), axis=axis))
            return n, b, log, pieces

        ex = fork.Explorer(max_paths=200, max_depth=40, timeout_s=10, total_s=900)
        npaths = 0
        for path in ex.run(run):
            npaths += 1
            tag = "axis=%d,path=%d" % (axis, npaths)
            if path.error is not None:
                ss._rec(kind="obligation", name="split.path_error[%s]" % tag, key="split.path", status="error", error="%s: %s" % (type(path.error).__name__, path.error))
                continue
            n, b, log, pieces = path.result
            F = list(path.ctx.facts) + list(path.pc)
            pay = lambda m: dict(kind="split_index", n=int(m.get("n", 0)), b=int(m.get("b", 1)), axis=axis)
            bad = []
            if log:
                bad.append(T.ne(_t(log[0][0]), T.IZERO))
                bad.append(T.ne(_t(log[-1][1]), n))
                for (lo, hi), (lo2, hi2) in zip(log, log[1:]):
                    bad.append(T.ne(_t(hi), _t(lo2)))
                for lo, hi in log:
                    bad.append(T.le(_t(hi), _t(lo)))
                    bad.append(T.gt(T.sub(_t(hi), _t(lo)), b))
            else:
                bad.append(T.ne(n, T.IZERO))
            ss.prove("split.partition[%s,pieces=%d]" % (tag, len(log)), F, T.bor(*bad), key="split.partition", payload=pay, split=False, timeout=30,
                     describe="the slices start at 0, end at n, are contiguous, non-empty and at most b long", want_smt2=(npaths == 2))
            ss.concrete("split.one_piece_per_slice[%s]" % tag, len(pieces) == len(log), key="split.partition", payload=dict(kind="split_count"))
        ss.note(name="split.paths[axis=%d]" % axis, states=npaths, transitions=ex.stats["forks"], stats=ex.stats)
        if ex.stats["truncated"] or ex.stats["unknown_branches"]:
            ss._rec(kind="obligation", name="split.exploration_incomplete[axis=%d]" % axis, key="split.explore", status="unknown", reason=str(ex.stats))
    finally:
        for k, v in saved.items():
            if v is None:
                D.__dict__.pop(k, None)
            else:
                D.__dict__[k] = v


# ------------------------------------------------------------- structures

_counter = itertools.count()


def _leaf(n, tag, extra=()):
    shape = (n,) + tuple(extra)
    a = np.empty(shape, dtype=object)
    for idx in np.ndindex(*shape):
        a[idx] = S.real("%s_%d_%s" % (tag, next(_counter), "_".join(map(str, idx))))
    return tensor_of(a)


def _structures(n):
    L = lambda tag, extra=(): _leaf(n, tag, extra)
    return {
        "flat": {"a": L("a"), "b": L("b", (2,))},
        "nested": {"p": {"x": L("x"), "y": [L("y0"), L("y1", (4,))]}, "w": L("w")},
        "tuple": {"t": (L("t0"), L("t1")), "l": [L("l0")]},
        "empty_dict": {"a": L("a"), "e": {}},
        "empty_list": {"a": L("a"), "e": []},
        "empty_tuple": {"a": L("a"), "e": ()},
        "deep": {"d": {"d2": {"d3": [L("q"), {"z": L("z")}]}}, "s": [(L("s0"), [L("s1")])]},
    }


def _same(a, b):
    """structural equality with identity of symbolic elements; returns list of differences"""
    diffs = []

    def rec(x, y, path):
        if isinstance(x, dict):
            if not isinstance(y, dict) or set(map(str, x)) != set(map(str, y)):
                diffs.append(path + ": dict keys differ")
                return
            for k in x:
                rec(x[k], y[k], path + "/" + str(k))
        elif isinstance(x, (list, tuple)):
            if type(x) != type(y) or len(x) != len(y):
                diffs.append(path + ": sequence type/length differs (%s vs %s)" % (type(x).__name__, type(y).__name__))
                return
            for i, (p, q) in enumerate(zip(x, y)):
                rec(p, q, path + "[%d]" % i)
        else:
            xa = x.arr if hasattr(x, "arr") else np.asarray(x)
            ya = y.arr if hasattr(y, "arr") else np.asarray(y)
            if xa.shape != ya.shape:
                diffs.append(path + ": shape %r vs %r" % (xa.shape, ya.shape))
                return
            for idx in np.ndindex(*xa.shape):
                p, q = xa[idx], ya[idx]
                tp = p.t if isinstance(p, SymReal) else p
                tq = q.t if isinstance(q, SymReal) else q
                if tp is not tq and not (not isinstance(tp, T.Term) and not isinstance(tq, T.Term) and tp == tq):
                    diffs.append(path + "%r: element differs" % (idx,))
                    return

    rec(a, b, "")
    return diffs


def job_roundtrip(ss):
    import tf_pwa.data as D

    # n = 1001 with batches of one event: more batches than the generator's internal repetition count for empty containers
    for n in (1, 3, 4, 1001):
        for name, data in _structures(n).items():
            if n > 4 and not name.startswith("empty"):
                continue
            for b in sorted({1, 2, 3, n, n + 1} if n <= 4 else {1}):
                tag = "%s,n=%d,b=%d" % (name, n, b)
                payload = dict(kind="roundtrip", structure=name, n=n, b=b)

                def run(data=data, b=b):
                    pieces = list(D.data_split(data, b))
                    return pieces, (D.data_merge(*pieces) if pieces else None)

                ok, res = ss.attempt("data.roundtrip.runs[%s]" % tag, run, key="data.roundtrip." + name, payload=payload)
                if not ok:
                    continue
                pieces, merged = res
                expect_pieces = (n + b - 1) // b
                good = merged is not None and not _same(data, merged) and len(pieces) == expect_pieces
                ss.concrete("data.roundtrip[%s]" % tag, good, key="data.roundtrip." + name, payload=payload,
                            describe="merge(split(x, b)) reproduces x leaf by leaf (every element tracked as its own symbol) and yields ceil(n/b) batches")
                sizes_ok = all(D.data_shape(p) <= b for p in pieces) if pieces else True
                ss.concrete("data.batch_sizes[%s]" % tag, sizes_ok, key="data.roundtrip." + name, payload=payload)


def job_batch_call(ss):
    import tf_pwa.data as D
    import tensorflow as tf

    n = 4
    data = {"a": _leaf(n, "a"), "p": {"b": _leaf(n, "b")}}

    def f(d):
        # elementwise uninterpreted function of the two leaves
        a, b = d["a"].arr, d["p"]["b"].arr
        out = np.empty(a.shape, dtype=object)
        for i in range(a.shape[0]):
            out[i] = SymReal(T.uf("f", a[i].t, b[i].t))
        return tf.Tensor(out, tf.float64)

    whole = f(data)
    for b in (1, 2, 3, 4, 5):
        got = D.batch_call(f, data, batch=b)
        ss.concrete("data.batch_call[b=%d]" % b, not _same(whole, got), key="data.batch_call", payload=dict(kind="batch_call", b=b), describe="batch_call(f, x, b) = f(x) for an elementwise f")
        s = D.batch_sum(lambda d: tf.reduce_sum(f(d)), data, batch=b)
        ref = tf.reduce_sum(whole)
        ss.prove("data.batch_sum[b=%d]" % b, [], T.ne(term_of(s.arr.reshape(-1)[0]), term_of(ref.arr.reshape(-1)[0])), key="data.batch_sum", payload=lambda m, b=b: dict(kind="batch_sum", b=b), describe="batch_sum = sum over the whole sample")


def job_mask(ss):
    import tf_pwa.data as D

    n = 3

    def run():
        data = {"a": _leaf(n, "a"), "p": [_leaf(n, "b", (2,))]}
        mask = [S.boolean("k%d" % i) for i in range(n)]
        mt = tensor_of(np.array(mask, dtype=object), "bool")
        return data, mask, D.data_mask(data, mt)

    global _counter
    ex = fork.Explorer(max_paths=100, max_depth=20, timeout_s=10, total_s=600)
    npaths = 0
    for path in ex.run(run):
        npaths += 1
        if path.error is not None:
            ss._rec(kind="obligation", name="data.mask.path_error[%d]" % npaths, key="data.mask", status="error", error="%s: %s" % (type(path.error).__name__, path.error))
            continue
        data, mask, out = path.result
        # on this path every mask bit has a definite value (it is in the path condition)
        val = {}
        for lit in path.pc:
            if lit.op == "not":
                val[lit.args[0]] = False
            else:
                val[lit] = True
        sel = [i for i, k in enumerate(mask) if val.get(k.t) is True]
        undecided = [i for i, k in enumerate(mask) if k.t not in val]
        expect = {"a": data["a"][sel] if sel else data["a"][0:0], "p": [data["p"][0][sel] if sel else data["p"][0][0:0]]}
        # two traversals of the same mask must agree: each leaf is masked with the same bits
        good = not undecided and not _same(expect, out)
        ss.concrete("data.mask[path=%d,selected=%s]" % (npaths, sel), good, key="data.mask", payload=dict(kind="mask", selected=sel), describe="data_mask selects exactly the addressed events in every leaf")
    ss.note(name="data.mask.paths", states=npaths, transitions=ex.stats["forks"], stats=ex.stats)
    ss.concrete("data.mask.all_masks_explored", npaths == 2 ** n, key="data.mask", payload=dict(kind="mask_paths", paths=npaths))


def job_index_shape(ss):
    import tf_pwa.data as D

    n = 3
    data = {"a": _leaf(n, "a"), "p": {"x": _leaf(n, "x"), "y": [_leaf(n, "y0"), _leaf(n, "y1")]}}
    checks = [
        (("a",), data["a"]), ("a", data["a"]), (("p", "x"), data["p"]["x"]), (("p", "y", 1), data["p"]["y"][1]), (["p", "y", 0], data["p"]["y"][0]),
    ]
    bad = [str(k) for k, exp in checks if D.data_index(data, k) is not exp]
    ss.concrete("data.index", not bad, key="data.index", payload=dict(kind="index", bad=bad), describe="data_index returns the addressed leaf")
    ss.concrete("data.shape", D.data_shape(data) == n, key="data.shape", payload=dict(kind="shape"))
    r = D.data_replace(data, "a", data["p"]["x"])
    ss.concrete("data.replace", r["a"] is data["p"]["x"] and r["p"] is data["p"] and data["a"] is not data["p"]["x"], key="data.replace", payload=dict(kind="replace"), describe="data_replace returns a copy with one key replaced and leaves the input untouched")
    st = D.data_strip(data, ["x"])
    ss.concrete("data.strip", "x" not in st["p"] and st["a"] is data["a"] and "x" in data["p"], key="data.strip", payload=dict(kind="strip"))


def job_dat_file(ss, nfiles):
    """momenta -> savetxt layout -> load_dat_file gives back the same arrays with the same particle assignment"""
    import tf_pwa.cal_angle as CA
    import tf_pwa.data as D
    from symx.npproxy import NumpyProxy

    store = {}

    def savetxt(fname, arr, **kw):
        store[fname] = np.array(arr, dtype=object)

    def loadtxt(fname, dtype=None, **kw):
        return store[fname]

    old_d, old_c = D.np, CA.np
    D.np = NumpyProxy(loadtxt=loadtxt, savetxt=savetxt)
    CA.np = NumpyProxy(loadtxt=loadtxt, savetxt=savetxt)
    try:
        parts = ["B", "C", "D"]
        n = 3
        mom = {p: _leaf(n, "p%s" % p, (4,)) for p in parts}

        class Fake(CA.CalAngleData):
            def get_decay(self):
                class G:
                    outs = parts

                return G()

            def get_momentum(self, name):
                return mom[name]

        # several files = the particles distributed over the files (same events in each)
        groups = {1: [parts], 2: [parts[:1], parts[1:]], 3: [parts[:2], parts[2:]], 4: [parts[:1], parts[1:2], parts[2:]]}[nfiles]
        files = []
        truth = {p: [mom[p].arr] for p in parts}
        for fi, grp in enumerate(groups):
            fname = "mem%d.dat" % fi
            Fake().savetxt(fname, order=grp)
            files.append(fname)
        loaded = D.load_dat_file(files if len(files) > 1 else files[0], parts)
        bad = []
        for p in parts:
            exp = np.concatenate(truth[p], axis=0)
            if p not in loaded:
                bad.append(p)
                continue
            got = loaded[p]
            got = got.arr if hasattr(got, "arr") else np.asarray(got)
            if _same(tensor_of(exp), tensor_of(got)):
                bad.append(p)
        if set(map(str, loaded)) != set(parts):
            bad.append("particle set %s" % sorted(map(str, loaded)))
        ss.concrete("data.dat_file_roundtrip[layout=%s]" % "+".join("".join(g_) for g_ in groups), not bad, key="data.dat_file", payload=dict(kind="dat_file", nfiles=nfiles, bad=bad),
                    describe="load_dat_file(savetxt(momenta)) returns the same four-momenta for the same particles (multi-file inputs concatenated per particle)")
    finally:
        D.np, CA.np = old_d, old_c


def run_job(job):
    ss = Session(job)
    globals()["job_" + job[0]](ss, *job[1:])
    return ss.records
