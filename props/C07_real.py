"""C07: replays / conformance on the real code: returned derivatives against
central finite differences of the returned value."""
import math

import numpy as np

from props import toy_real as TR


def _mk_F(seed=0):
    rng = np.random.RandomState(seed)
    F = {}
    for i in list(range(6)) + list(range(100, 103)) + list(range(200, 205)) + list(range(300, 303)) + list(range(400, 403)):
        F[("F", i)] = {"v": 0.5 + rng.rand(), "g": {0: 0.3 * rng.randn(), 1: 0.3 * rng.randn()}, "h": {(0, 0): 0.1 * rng.randn(), (0, 1): 0.1 * rng.randn(), (1, 1): 0.1 * rng.randn()}}
    return F


def conformance(tier):
    import tensorflow as tf
    from tf_pwa.model.model import FCN, CombineFCN, Model
    import tf_pwa.model.cfit as cf
    from tf_pwa.variable import Bound

    if str(tf.__version__).endswith("symtf"):
        tf.STATE.var_leaves = True
    out = {}
    F = _mk_F()
    pdf = TR.make_real_pdf(["a", "b"], {"a": 1.0, "b": 1.0}, F)
    pdf.set_params({"a": 1.1, "b": 0.9})
    data = TR.events([0, 1, 2], [1.0, 0.7, -0.3])
    bg = TR.events([100], [-0.3])
    mc = TR.events([200, 201, 202], [1.0, 2.0, 0.5])
    fl = lambda x: np.asarray(x, dtype=float).tolist() if not hasattr(x, "numpy") else np.asarray(x.numpy(), dtype=float).tolist()
    for ext in (False, True):
        fcn = FCN(Model(pdf, extended=ext), data, mc, bg=bg, batch=2, gauss_constr={"a": (1.0, 0.5)})
        n, g = fcn.nll_grad({})
        out["g_%s" % ext] = [float(n)] + [float(x) for x in g]
        n, g, h = fcn.nll_grad_hessian({})
        out["h_%s" % ext] = [float(n)] + [float(x) for x in g] + np.asarray(h, dtype=float).reshape(-1).tolist()
        g, hp = fcn.grad_hessp({}, np.array([0.3, -0.7]))
        out["hp_%s" % ext] = [float(x) for x in g] + [float(x) for x in np.asarray(hp, dtype=float).reshape(-1)]
    d2 = TR.events([0, 1, 2], [1.0, 0.7, 1.3], bg_value=[0.3, 0.2, 0.5], eff_value=[0.9, 0.8, 1.0])
    m2 = TR.events([200, 201, 202], [1.0, 2.0, 0.5], bg_value=[0.3, 0.4, 0.5], eff_value=[0.9, 1.0, 0.7])
    for cls, nm in ((cf.Model_cfit, "cfit"), (cf.ModelCfitExtended, "cfit_ext")):
        fc = FCN(cls(pdf, w_bkg=0.2), d2, m2, batch=2)
        n, g, h = fc.nll_grad_hessian({})
        out[nm] = [float(n)] + [float(x) for x in g] + np.asarray(h, dtype=float).reshape(-1).tolist()
    b = Bound(-1.5, 2.0)
    out["bound"] = [b.get_x2y(0.3), b.get_dydx(0.3), b.get_d2ydx2(0.3), b.get_y2x(1.0)]
    b = Bound(0.5, None)
    out["bound_l"] = [b.get_x2y(0.3), b.get_dydx(0.3), b.get_d2ydx2(0.3), b.get_y2x(1.0)]
    return out


def _fd(f, x, h=1e-5):
    x = np.array(x, dtype=float)
    g = np.zeros(len(x))
    for k in range(len(x)):
        e = np.zeros(len(x))
        e[k] = h
        g[k] = (f(x + e) - f(x - e)) / (2 * h)
    return g


def _fd2(f, x, h=1e-4):
    n = len(x)
    H = np.zeros((n, n))
    x = np.array(x, dtype=float)
    for k in range(n):
        for l in range(n):
            ek = np.zeros(n)
            el = np.zeros(n)
            ek[k] = h
            el[l] = h
            H[k, l] = (f(x + ek + el) - f(x + ek - el) - f(x - ek + el) + f(x - ek - el)) / (4 * h * h)
    return H


def replay(p):
    import tensorflow as tf
    from tf_pwa.model.model import FCN, CombineFCN, Model

    kind = p["kind"]
    m = p["model"]
    F = TR.parse_model(m)
    g = lambda pre, n, d=1.0: [float(m.get("%s_%d" % (pre, i), d)) for i in range(n)]
    try:
        if kind in ("grad", "hess", "hessp", "fixed", "combine"):
            nd, nb, nm = p["cfg"]
            names = ["a", "b"] + (["c"] if kind == "fixed" else [])
            th0 = {n: float(m.get("th_" + n, 1.0)) for n in names}
            pdf = TR.make_real_pdf(names, th0, F, fixed=("c",) if kind == "fixed" else ())
            data = TR.events(list(range(nd)), g("w", nd))
            bg = TR.events(list(range(100, 100 + nb)), g("wb", nb, -1.0)) if nb else None
            mc = TR.events(list(range(200, 200 + nm)), g("v", nm))
            mk = p.get("model_kind", "default")
            kw = {}
            if mk == "constraint":
                kw["gauss_constr"] = {"a": (float(m.get("mu", 0.0)), float(m.get("sigma", 1.0)))}
            batch = p.get("batch", 2)
            fcn = FCN(Model(pdf, extended=(mk == "extended")), data, mc, bg=bg, batch=batch, **kw)
            if kind == "combine":
                d2 = TR.events([300, 301], g("x", 2))
                m2 = TR.events([400], g("y", 1))
                f2 = FCN(Model(pdf), d2, m2, batch=3)
                fcn = CombineFCN(fcns=[fcn, f2], gauss_constr={"b": (float(m.get("mu", 0.0)), float(m.get("sigma", 1.0)))})
            free = list(pdf.vm.trainable_vars)
            x0 = [th0[n] for n in free]
            f = lambda x: float(fcn(list(x)))
            gnum = _fd(f, x0)
            Hnum = _fd2(f, x0)
            errs = []
            n0, g0 = fcn.nll_grad(list(x0))
            errs.append(abs(float(n0) - f(x0)))
            errs.append(np.max(np.abs(np.array([float(v) for v in g0]) - gnum)))
            if kind in ("hess", "combine"):
                n1, g1, h1 = fcn.nll_grad_hessian(list(x0))
                errs.append(np.max(np.abs(np.asarray(h1, dtype=float) - Hnum)) / 10)
                errs.append(np.max(np.abs(np.array([float(v) for v in g1]) - gnum)))
            if kind in ("hessp", "combine"):
                pv = np.array([float(m.get("p_%d" % i, 1.0)) for i in range(len(x0))])
                g2, hp = fcn.grad_hessp(list(x0), pv, batch=batch) if kind == "hessp" else fcn.grad_hessp(list(x0), pv, 2)
                errs.append(np.max(np.abs(np.asarray(hp, dtype=float).reshape(-1) - Hnum @ pv)) / 10)
            err = max(errs)
            scale = 1 + abs(f(x0)) + np.max(np.abs(Hnum))
        elif kind in ("cfit", "cfit_ext"):
            import tf_pwa.model.cfit as cf

            nd, nb, nm = p["cfg"]
            th0 = {"a": float(m.get("th_a", 1.0)), "b": float(m.get("th_b", 1.0))}
            pdf = TR.make_real_pdf(["a", "b"], th0, F)
            data = TR.events(list(range(nd)), g("w", nd), bg_value=g("bgd", nd), eff_value=g("effd", nd))
            mc = TR.events(list(range(200, 200 + nm)), g("v", nm), bg_value=g("bgm", nm), eff_value=g("effm", nm))
            cls = cf.Model_cfit if kind == "cfit" else cf.ModelCfitExtended
            fcn = FCN(cls(pdf, w_bkg=float(m.get("frac", 0.3))), data, mc, batch=p.get("batch", 2))
            x0 = [th0["a"], th0["b"]]
            f = lambda x: float(fcn(list(x)))
            gnum, Hnum = _fd(f, x0), _fd2(f, x0)
            n0, g0 = fcn.nll_grad(list(x0))
            n1, g1, h1 = fcn.nll_grad_hessian(list(x0))
            err = max(abs(float(n0) - f(x0)), abs(float(n1) - f(x0)), np.max(np.abs(np.array([float(v) for v in g0]) - gnum)),
                      np.max(np.abs(np.array([float(v) for v in g1]) - gnum)), np.max(np.abs(np.asarray(h1, dtype=float) - Hnum)) / 10)
            if p.get("hessp"):
                pv = np.array([float(m.get("p_%d" % i, 1.0)) for i in range(len(x0))])
                g2, hp = fcn.grad_hessp(list(x0), pv, batch=p.get("batch", 3))
                err = max(np.max(np.abs(np.array([float(v) for v in g2]) - gnum)), np.max(np.abs(np.asarray(hp, dtype=float).reshape(-1) - Hnum @ pv)) / 10)
            scale = 1 + abs(f(x0)) + np.max(np.abs(Hnum))
        elif kind == "sumvar":
            import tensorflow as tf
            from tf_pwa.variable import SumVar

            nf = p["nf"]
            a0, b0 = float(m.get("th_a", 0.7)), float(m.get("th_b", -1.3))
            va, vb = tf.Variable(a0, dtype=tf.float64), tf.Variable(b0, dtype=tf.float64)
            funs = [lambda a, b: a * a * b + 0.3 * a, lambda a, b: a + b * b * b, lambda a, b: tf.sin(a) * b * b]
            hess = [lambda a, b: [[2 * b, 2 * a], [2 * a, 0.0]], lambda a, b: [[0.0, 0.0], [0.0, 6 * b]], lambda a, b: [[-np.sin(a) * b * b, 2 * b * np.cos(a)], [2 * b * np.cos(a), 2 * np.sin(a)]]]
            sv = SumVar.from_call_with_hess(lambda: [f(va, vb) for f in funs[:nf]], [va, vb])
            with tf.GradientTape(persistent=True) as t0:
                with tf.GradientTape(persistent=True) as t1:
                    out = sv()
                g = [t1.gradient(o, [va, vb], unconnected_gradients="zero") for o in out]
            errs = []
            for k in range(nf):
                H = np.array([[float(x) for x in t0.gradient(gi, [va, vb], unconnected_gradients="zero")] for gi in g[k]])
                errs.append(np.max(np.abs(H - np.array(hess[k](a0, b0), dtype=float))))
            err = max(errs)
            scale = 1.0
        elif kind == "bound":
            import re

            import tensorflow as tf
            from tf_pwa.variable import Bound, VarsManager

            bk = p["bound"]
            b = {"two": lambda: Bound(-1.5, 2.0), "lower": lambda: Bound(0.5, None), "upper": lambda: Bound(None, 3.0), "custom": lambda: Bound(0.0, 1.0, func="a+(b-a)*x**2/(1+x**2)")}[bk]()
            vm = VarsManager(dtype=tf.float64)
            vm.add_real_var("a", value=1.0)
            vm.add_real_var("b", value=1.0)
            vm.bnd_dic["a"] = b
            xa = float(p.get("xa", 0.3))
            xb = float(m.get("xb", 0.7))
            y0 = np.array([b.get_x2y(xa), xb])
            # an arbitrary smooth G realised as the quadratic with the model's Taylor coefficients at y0
            G = {"v": 0.3, "g": np.array([0.7, -0.4]), "h": np.array([[0.9, 0.35], [0.35, -0.6]])}
            for key, val in m.items():
                mm = re.match(r"uf_G((?:_\d+)*)#\d+$", key)
                if not mm:
                    continue
                ids = [int(t) for t in mm.group(1).split("_") if t != ""]
                if len(ids) == 0:
                    G["v"] = float(val)
                elif len(ids) == 1:
                    G["g"][ids[0]] = float(val)
                elif len(ids) == 2:
                    G["h"][ids[0], ids[1]] = G["h"][ids[1], ids[0]] = float(val)

            def gval(y):
                d = np.asarray(y, dtype=float) - y0
                return G["v"] + G["g"] @ d + 0.5 * d @ G["h"] @ d

            def ggrad(y):
                d = np.asarray(y, dtype=float) - y0
                return G["g"] + G["h"] @ d

            f_grad = lambda y: (gval(y), ggrad(y))
            f_hess = lambda y: (gval(y), ggrad(y), G["h"].copy())
            f_hessp = lambda y, pv: (ggrad(y), G["h"] @ np.asarray(pv, dtype=float))
            x0 = [xa, xb]
            ft = vm.trans_fcn_grad(f_grad)
            f = lambda x: float(ft(list(x))[0])
            gnum, Hnum = _fd(f, x0), _fd2(f, x0)
            v0, g0 = ft(list(x0))
            v1, g1, h1 = vm.trans_f_grad_hess(f_hess)(list(x0))
            pv = np.array([float(m.get("p_0", 1.0)), float(m.get("p_1", 0.5))])
            g2, hp = vm.trans_grad_hessp(f_hessp)(list(x0), pv)
            err = max(np.max(np.abs(np.asarray(g0, dtype=float) - gnum)), np.max(np.abs(np.asarray(g1, dtype=float) - gnum)), np.max(np.abs(np.asarray(g2, dtype=float) - gnum)),
                      np.max(np.abs(np.asarray(h1, dtype=float) - Hnum)) / 10, np.max(np.abs(np.asarray(hp, dtype=float).reshape(-1) - Hnum @ pv)) / 10, abs(float(v1) - float(v0)))
            scale = 1 + abs(f(x0)) + np.max(np.abs(Hnum))
        else:
            return {"reproduced": False, "error": "replay for kind %s not implemented" % kind}
    except Exception as e:
        return {"reproduced": False, "error": "%s: %s" % (type(e).__name__, str(e)[:500])}
    err = float(err)
    tol = 1e-5 * float(scale)
    return {"reproduced": bool(err > tol or err != err), "error_magnitude": err, "tolerance": tol, "kind": kind}
