"""C04: replays / conformance on the real code (numpy closed forms, helicity angles by explicit boosts)."""
import numpy as np

from props import amptools as AT
from props.C04 import BP, LEG, MASSES, multi_cfg, single_cfg


def _np(x):
    return np.asarray(x.numpy() if hasattr(x, "numpy") else x)


def _setp(amp, params=None):
    params = dict(params or {})
    if params.pop("__cartesian__", False):
        amp.vm.rp2xy_all()
    allp = {n: 0.3 + 0.07 * i for i, n in enumerate(sorted(amp.vm.variables)) if not n.endswith(("_mass", "_width"))}
    if params:
        allp.update(params)
    amp.set_params(allp)


def _boost(p, frame):
    """p in the rest frame of 'frame' (both (n,4) arrays E,px,py,pz)"""
    m = np.sqrt(frame[:, 0] ** 2 - np.sum(frame[:, 1:] ** 2, axis=-1))
    b = frame[:, 1:] / frame[:, :1]
    b2 = np.sum(b * b, axis=-1)
    g = frame[:, 0] / m
    bp = np.sum(b * p[:, 1:], axis=-1)
    g2 = np.where(b2 > 0, (g - 1) / np.where(b2 > 0, b2, 1), 0)
    sp = p[:, 1:] + (g2 * bp - g * p[:, 0])[:, None] * b
    E = g * (p[:, 0] - bp)
    return np.concatenate([E[:, None], sp], axis=-1)


def closed_form(cfg, p4, params, ms="a"):
    """|sum_k c_k (-1)^J q^J p^J B_J(q) B_J(p) BW_k P_J(cos theta_k)|^2 ; angles by explicit boosts"""
    M = MASSES[ms]
    P = {k: np.asarray(p4[k], dtype=float) for k in "BCD"}
    mass = {k: M[k] for k in "BCD"}
    mA = M["A"]
    tot = 0
    for dec in cfg["decay"]["A"]:
        R, c = dec
        a, b = cfg["decay"][R]
        J = cfg["particle"][R]["J"]
        m0 = params.get(R + "_mass", cfg["particle"][R]["mass"])
        g0 = params.get(R + "_width", cfg["particle"][R]["width"])
        pab = P[a] + P[b]
        m = np.sqrt(pab[:, 0] ** 2 - np.sum(pab[:, 1:] ** 2, axis=-1))
        pa_star = _boost(P[a], pab)
        q = np.sqrt(np.sum(pab[:, 1:] ** 2, axis=-1))  # the parent is at rest
        p = np.sqrt(np.sum(pa_star[:, 1:] ** 2, axis=-1))
        cth = np.sum(pa_star[:, 1:] * pab[:, 1:], axis=-1) / (p * q)
        lam = lambda x, y, z: (x * x - (y + z) ** 2) * (x * x - (y - z) ** 2)
        q0 = np.sqrt(lam(mA, m0, mass[c])) / (2 * mA)
        p0 = np.sqrt(lam(m0, mass[a], mass[b])) / (2 * m0)
        d = 3.0
        Bq = np.sqrt(BP[J]((q0 * d) ** 2) / BP[J]((q * d) ** 2))
        Bp = np.sqrt(BP[J]((p0 * d) ** 2) / BP[J]((p * d) ** 2))
        gam = g0 * (p / p0) ** (2 * J + 1) * (m0 / m) * Bp * Bp
        bw = 1.0 / (m0 * m0 - m * m - 1j * m0 * gam)
        cpl = 1.0
        for pre in ("A->%s.%s%s->%s.%s_total_0" % (R, c, R, a, b), "A->%s.%s_g_ls_0" % (R, c), "%s->%s.%s_g_ls_0" % (R, a, b)):
            cpl = cpl * complex(params[pre + "r"], params[pre + "i"])
        tot = tot + cpl * ((-1) ** J) * q**J * p**J * Bq * Bp * bw * LEG[J](cth)
    return np.abs(tot) ** 2


def _params_of(amp):
    return {n: float(_np(v)) for n, v in amp.vm.variables.items()}


def conformance(tier):
    out = {}
    for sub, js in ((("BC",), (1,)), (("BC", "BD"), (2, 1)), (("BC", "BD", "CD"), (1, 2, 0))):
        cfg = multi_cfg(sub, js)
        amp, config = AT.build_model(cfg)
        amp.vm.rp2xy_all()
        _setp(amp)
        data = AT.phsp_data(config, 2)
        out["dens_%s" % "+".join(sub)] = _np(amp(data)).tolist()
    return out


def _p4_of(data):
    return {str(p): _np(v["p"]) for p, v in data["particle"].items() if str(p) in ("B", "C", "D")}


def replay(p):
    kind = p["kind"]
    try:
        if kind == "interference":
            cfg = multi_cfg(tuple(p["sub"]), tuple(p["js"]))
            amp, config = AT.build_model(cfg)
            _setp(amp, p.get("params"))
            if p.get("frame") == "moving":
                # closed form from the events in the parent rest frame (explicit boosts), density from the same events
                # given to the library in the moving frame
                from props.C04 import boosted

                p4 = AT.phsp_p4(config, 2)
                dens = _np(amp(AT.data_of(config, boosted(p4))))
                ref = closed_form(cfg, p4, _params_of(amp))
            else:
                data = AT.phsp_data(config, 2)
                dens = _np(amp(data))
                ref = closed_form(cfg, _p4_of(data), _params_of(amp))
            err = float(np.max(np.abs(dens - ref)))
            return {"reproduced": bool(err > 1e-9), "error_magnitude": err}
        if kind == "single":
            # a physical event with the given resonance mass is not constructed: events of the generator are scanned instead,
            # with the nominal mass, width and couplings of the counterexample
            J, ms = p["J"], p["ms"]
            cfg = single_cfg(J, ms)
            amp, config = AT.build_model(cfg)
            amp.vm.rp2xy_all()
            names = AT.coupling_names(amp.vm)
            params = {}
            for i, n in enumerate(names):
                params[n] = float(p.get("model", {}).get("g_%d" % i, 0.7))
            if p.get("m0"):
                params["R_mass"] = p["m0"]
            if p.get("g0"):
                params["R_width"] = p["g0"]
            amp.set_params(params)
            data = AT.phsp_data(config, 200)
            dens = _np(amp(data))
            ref = closed_form(cfg, _p4_of(data), _params_of(amp), ms)
            err = float(np.max(np.abs(dens - ref) / (np.abs(ref) + 1e-300)))
            return {"reproduced": bool(err > 1e-7), "error_magnitude": err}
    except Exception as e:
        return {"reproduced": False, "error": "%s: %s" % (type(e).__name__, str(e)[:300])}
    return {"reproduced": False, "error": "no replay for %s" % kind}
