"""C03: replays / conformance on the real code."""
import itertools

import numpy as np

from props import amptools as AT


def _np(x):
    return np.asarray(x.numpy() if hasattr(x, "numpy") else x)


def _setp(amp, params=None):
    params = dict(params or {})
    if params.pop("__cartesian__", False):
        amp.vm.rp2xy_all()
    allp = {n: 0.3 + 0.07 * i for i, n in enumerate(sorted(amp.vm.variables)) if not n.endswith(("_mass", "_width"))}
    if params:
        allp.update(params)
    amp.set_params(allp)


def _check_superposition(amp, config, tol=1e-9):
    data = AT.phsp_data(config, 2)
    dg = amp.decay_group
    n = len(dg.chains)
    full = _np(dg.get_amp(data))
    acc = 0
    for k in range(n):
        dg.set_used_chains([k])
        acc = acc + _np(dg.get_amp(data))
    dg.set_used_chains(list(range(n)))
    dens = _np(amp(data))
    ref = np.sum(np.abs(full.reshape(full.shape[0], -1)) ** 2, axis=-1)
    return max(float(np.max(np.abs(full - acc))), float(np.max(np.abs(dens - ref))))


def conformance(tier):
    out = {}
    for name in ("CFG3", "CFG_SPIN", "CFG_HALF"):
        amp, config = AT.build_model(getattr(AT, name))
        _setp(amp)
        data = AT.phsp_data(config, 2)
        a = _np(amp.decay_group.get_amp(data))
        out[name + "_re"] = np.real(a).reshape(-1).tolist()
        out[name + "_im"] = np.imag(a).reshape(-1).tolist()
        out[name + "_dens"] = _np(amp(data)).tolist()
    return out


def replay(p):
    import tf_pwa.fitfractions as ff

    kind = p["kind"]
    try:
        cfg = p.get("cfg", "CFG3")
        amp, config = AT.build_model(getattr(AT, cfg))
        _setp(amp, p.get("params"))
        dg = amp.decay_group
        if kind in ("superposition",):
            err = _check_superposition(amp, config)
            return {"reproduced": bool(err > 1e-8), "error_magnitude": err}
        if kind in ("subset", "subset_idx"):
            data = AT.phsp_data(config, 2)
            n = len(dg.chains)
            parts = []
            for k in range(n):
                dg.set_used_chains([k])
                parts.append(_np(dg.get_amp(data)))
            dg.set_used_chains(list(range(n)))
            amp.set_used_res(p["res"])
            got = _np(dg.get_amp(data))
            ks = [k for k in range(n) if any(str(x) in p["res"] for x in dg.chains[k].inner)]
            ref = sum(parts[k] for k in ks)
            err = float(np.max(np.abs(got - ref)))
            return {"reproduced": bool(err > 1e-8 or sorted(dg.chains_idx) != ks), "error_magnitude": err}
        if kind == "homogeneous":
            return {"reproduced": False, "error": "homogeneity replay not implemented"}
        if kind in ("fractions", "fraction_paths"):
            mc = AT.phsp_data(config, p.get("nmc", 2), seed=5)
            res = [str(r) for r in dg.resonances]
            base, g = ff.cal_fitfractions(amp, [mc], res=res, batch=None)
            tot = sum(float(v) for v in base.values())
            # (the sum rule presupposes that every chain belongs to exactly one listed resonance: not the case for CFG4)
            shared = cfg == "CFG4"
            errs = [] if shared else [abs(tot - 1)]
            for b in (1, 2):
                fr, _ = ff.cal_fitfractions(amp, mc, res=res, batch=b)
                errs += [abs(float(fr[k]) - float(base[k])) for k in base]
            obj = ff.FitFractions(amp, res)
            obj.integral(mc, batch=1)
            fr3, _g3 = obj.get_frac_grad(sum_diag=False)
            if not shared:
                errs.append(abs(sum(float(v) for v in fr3.values()) - 1))
            errs += [abs(float(fr3[k]) - float(base[k])) for k in base if k in fr3]
            fr2 = ff.cal_fitfractions_no_grad(amp, mc, res=res, batch=1)
            fr2 = fr2[0] if isinstance(fr2, tuple) else fr2
            for k in base:
                k2 = k if k in fr2 else ("%sx%s" % k if isinstance(k, tuple) else k)
                if k2 in fr2:
                    errs.append(abs(float(fr2[k2]) - float(base[k])))
            # gradient by finite differences for the first three parameters
            names = list(amp.vm.trainable_vars)[:3]
            x0 = {n: float(amp.vm.variables[n].numpy()) for n in names}
            for pi_, n in enumerate(names):
                h = 1e-6
                amp.set_params({n: x0[n] + h})
                up, _ = ff.cal_fitfractions(amp, [mc], res=res, batch=None)
                amp.set_params({n: x0[n] - h})
                dn, _ = ff.cal_fitfractions(amp, [mc], res=res, batch=None)
                amp.set_params({n: x0[n]})
                for k in list(base):
                    num = (float(up[k]) - float(dn[k])) / (2 * h)
                    errs.append(abs(float(np.asarray(g[k]).reshape(-1)[pi_]) - num) / 100)
                    # the gradient returned by the FitFractions class (same fractions, other code path)
                    if k in _g3:
                        errs.append(abs(float(np.asarray(_g3[k]).reshape(-1)[pi_]) - num) / 100)
            err = max(errs)
            return {"reproduced": bool(err > 1e-7), "error_magnitude": err}
    except Exception as e:
        return {"reproduced": False, "error": "%s: %s" % (type(e).__name__, str(e)[:300])}
    return {"reproduced": False, "error": "no replay for %s" % kind}
