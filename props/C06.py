"""C06 — the negative log-likelihood equals its defining formula."""
from __future__ import annotations

import itertools
from fractions import Fraction

import numpy as np

from symx import scalar as S
from symx import term as T
from symx.harness import Session
from symx.scalar import SymReal

from . import toy
from .common import facts, far, simp, tensor_of

PID = "C06"
LEVEL = "model_checking"
CLAIM = (
    "Bounded symbolic verification: the real tf_pwa Model / BaseModel / FCN / CombineFCN / GaussianConstr / Model_cfit / "
    "ModelCfitExtended classes run on a symbolic tensorflow substitute around a density whose per-event values are uninterpreted "
    "positive functions of the parameters; data, background and phase-space weights, constraint means/sigmas and the background "
    "fraction are symbolic reals (weights of either sign). For every sample-size / batch-size combination in the bound z3 decides "
    "that the returned NLL equals the documented formula written out in the harness, that every batch size gives the same value, "
    "that FCN() equals the value returned next to the gradient, that a common rescaling of the density leaves the non-extended NLL "
    "unchanged (log product rule instantiated) and that a simultaneous fit is the sum of its parts. unsat = holds for all weights and densities."
)
NOTE = (
    "log is an uninterpreted function (congruence + explicitly instantiated product rule); densities above the 1e-6 clip of clip_log; "
    "event weights non-zero, sum of weights and of squared weights non-zero; N_data<=3, N_bg<=2, N_mc<=3, 1-2 data sets; cached_int / "
    "cached_amp / cfit_cached need a real decay group (see C05) and inject_mc is excluded by the property"
)
TECHNIQUE = "symbolic execution of the real likelihood classes with uninterpreted per-event densities; z3 (QF_NRA + Ackermannised log) decides value = documented formula per configuration; sat models replayed on real TensorFlow with a polynomial toy density"
EXPLANATION = CLAIM
FUNCTIONS = [
    "tf_pwa/model/model.py:Model.get_weight_data", "tf_pwa/model/model.py:Model.nll", "tf_pwa/model/model.py:BaseModel.nll", "tf_pwa/model/model.py:clip_log",
    "tf_pwa/model/model.py:_batch_sum", "tf_pwa/model/model.py:sum_gradient", "tf_pwa/model/model.py:BaseModel.nll_grad_batch", "tf_pwa/model/model.py:Model.nll_grad_batch",
    "tf_pwa/model/model.py:FCN.__init__", "tf_pwa/model/model.py:FCN.get_nll", "tf_pwa/model/model.py:FCN.__call__", "tf_pwa/model/model.py:FCN.get_nll_grad",
    "tf_pwa/model/model.py:FCN.nll_grad", "tf_pwa/model/model.py:GaussianConstr.get_constrain_term", "tf_pwa/model/model.py:CombineFCN.get_nll",
    "tf_pwa/model/model.py:CombineFCN.__call__", "tf_pwa/model/model.py:CombineFCN.get_nll_grad", "tf_pwa/model/cfit.py:Model_cfit.nll",
    "tf_pwa/model/cfit.py:Model_cfit.nll_grad_batch", "tf_pwa/model/cfit.py:ModelCfitExtended.nll", "tf_pwa/model/cfit.py:ModelCfitExtended.nll_grad_batch",
    "tf_pwa/data.py:data_split", "tf_pwa/data.py:data_merge", "tf_pwa/data.py:data_shape", "tf_pwa/data.py:split_generator", "tf_pwa/amp/amp.py:AbsPDF.__call__",
]
ASSUMPTIONS = [
    "the per-event density is an uninterpreted positive function of the parameter values (the amplitude itself is C01-C05)",
    "log is uninterpreted: equal arguments give equal values; ln(c x) = ln c + ln x is instantiated where the rescaling obligation needs it",
    "densities (and cfit mixtures) exceed the 1e-6 threshold of clip_log, so the logarithm branch is taken (the quadratic extrapolation below it is a guard outside the documented formula)",
    "event weights are non-zero reals of either sign with non-zero sum and non-zero sum of squares; phase-space weights positive",
]
TRUSTED = []

_CFG = {"quick": [(1, 0, 1), (2, 1, 2), (3, 0, 2), (2, 2, 3)], "thorough": [(a, b, c) for a in (1, 2, 3) for b in (0, 1, 2) for c in (1, 2, 3) if a + b <= 4]}  # N_data + N_bg = 5 is undecided by nlsat within the limits (measured)


def bounds(tier):
    return {"(N_data,N_bg,N_mc)": _CFG[tier], "batch": "1..N+1", "datasets": [1, 2], "models": ["default", "extended", "gaussian constraint", "cfit", "cfit_extended"]}


def jobs(tier, seed):
    out = []
    for cfg in _CFG[tier]:
        out.append(("default", cfg, False))
        out.append(("default", cfg, True))
        if cfg[1]:
            out.append(("bgdefault", cfg))
    for cfg in _CFG[tier][: (2 if tier == "quick" else 9)]:
        out.append(("extended", cfg))
        out.append(("cfit", cfg))
        out.append(("cfit_ext", cfg))
    out.append(("combine", (2, 1, 2), (1, 0, 2)))
    out.append(("rescale", (2, 0, 1)))
    out.append(("constraint", (2, 0, 2)))
    return out


def _setup(nd, nb, nm, with_mc_weight=True, tag="", pars=("a", "b")):
    from symx import pybuiltins as PB
    from symx import symtf
    import tf_pwa.model.model as mm

    symtf.STATE.var_leaves = True
    symtf.reset_state()
    mm.float = PB.sym_float
    pdf = toy.make_pdf(list(pars), tag="F" + tag, positive_floor=1e-6)
    th = toy.symbolize(pdf.vm)
    w = [S.real("w%s_%d" % (tag, i)) for i in range(nd)]
    wb = [S.real("wb%s_%d" % (tag, i)) for i in range(nb)]
    v = [S.real("v%s_%d" % (tag, i)) for i in range(nm)]
    for x in w + wb:
        S.assume(x != 0)
    for x in v:
        S.assume(x > 0)
    data = toy.events(list(range(nd)), w)
    bg = toy.events(list(range(100, 100 + nb)), wb) if nb else None
    mc = toy.events(list(range(200, 200 + nm)), v if with_mc_weight else None)
    return pdf, th, w, wb, v, data, bg, mc


def _F(tag, i, th):
    return SymReal(T.uf("F%s%d" % (tag, i), *[th[n].t for n in th]))


def _oracle_default(tag, th, w, wb, v, nd, nb, nm, extended=False, with_mc_weight=True):
    """-alpha [ sum_i w_i ln f_i - (sum_i w_i) ln( sum_j v_j f_j / sum_j v_j ) ], background events with their (negative) weights"""
    ws = list(w) + list(wb)
    fs = [_F(tag, i, th) for i in range(nd)] + [_F(tag, 100 + i, th) for i in range(nb)]
    sw = sum(ws[1:], ws[0])
    sw2 = sum([x * x for x in ws[1:]], ws[0] * ws[0])
    alpha = sw / sw2
    # without phase-space weights the code uses v_j = 1/N_mc (as a double); any equal weights give the same mean
    vs = list(v) if with_mc_weight else [SymReal(T.const(1.0 / nm, "R"))] * nm
    fm = [_F(tag, 200 + j, th) for j in range(nm)]
    num = sum([a * b for a, b in zip(vs[1:], fm[1:])], vs[0] * fm[0])
    if with_mc_weight:
        den = sum(vs[1:], vs[0])
    else:
        den = SymReal(T.const(float(np.sum(np.array([1.0 / nm] * nm))), "R"))  # the float sum the code computes
    integ = num / den
    lnsum = SymReal(T.ZERO)
    for wi, fi in zip(ws, fs):
        lnsum = lnsum + wi * SymReal(toy.ln(fi.t))
    norm = integ if extended else SymReal(toy.ln(integ.t))
    return -(alpha * (lnsum - sw * norm)), alpha, sw, sw2


def _pay(kind, cfg, **kw):
    def f(m):
        return dict(kind=kind, cfg=list(cfg), model={k: float(v) for k, v in m.items() if not k.startswith("sqrt#")}, **kw)

    return f


def _weights_ok(w, wb):
    ws = list(w) + list(wb)
    sw = sum(ws[1:], ws[0])
    sw2 = sum([x * x for x in ws[1:]], ws[0] * ws[0])
    S.assume(sw != 0)
    S.assume(sw2 != 0)


def job_default(ss, cfg, with_mc_weight):
    from tf_pwa.model.model import FCN, Model

    nd, nb, nm = cfg
    pdf, th, w, wb, v, data, bg, mc = _setup(nd, nb, nm, with_mc_weight)
    _weights_ok(w, wb)
    model = Model(pdf)
    if nb:
        # background events enter with weight -w_bkg * (their own weight is replaced): use the explicit bg weights path
        pass
    ref, alpha, sw, sw2 = _oracle_default("", th, w, [-x for x in wb] if False else wb, v, nd, nb, nm, with_mc_weight=with_mc_weight)
    tagn = "N=%d,%d,%d,mcw=%s" % (nd, nb, nm, with_mc_weight)
    vals = {}
    for batch in range(1, nd + nb + 2):
        fcn = FCN(model, data, mc, bg=bg, batch=batch)
        val = toy.scalar_term(fcn({}))
        nll2, g = fcn.nll_grad({})
        val2 = toy.scalar_term(nll2)
        vals[batch] = (val, val2)
    F = facts()
    pay = _pay("default", cfg, mcw=with_mc_weight)
    ss.witness("nll.reach[%s]" % tagn, F)
    base = simp(F, SymReal(vals[1][0])).t
    ss.prove("nll.value[%s]" % tagn, F, far(base, ref.t, 0), key="nll.value", payload=pay, timeout=60,
             describe="FCN() = -alpha[sum w ln f - (sum w) ln(sum v f / sum v)], bg events with their (negative) weights", want_smt2=(cfg == (2, 1, 2)))
    for batch, (val, val2) in vals.items():
        a, b = simp(F, SymReal(val), SymReal(val2))
        if batch > 1:
            ss.prove("nll.batch_independent[%s,b=%d]" % (tagn, batch), F, far(a.t, base, 0), key="nll.batch_independent", payload=_pay("default", cfg, mcw=with_mc_weight, batch=batch), timeout=60,
                     describe="FCN() does not depend on the batch size")
        ss.prove("nll.value_with_grad[%s,b=%d]" % (tagn, batch), F, far(b.t, base, 0), key="nll.value_with_grad", payload=_pay("default", cfg, mcw=with_mc_weight, batch=batch), timeout=60,
                 describe="FCN.nll_grad()[0] (batched accumulation) equals FCN()")
    # mutated oracle: background with the wrong sign
    if nb == 1:
        bad, *_ = _oracle_default("", th, w, [-x for x in wb], v, nd, nb, nm, with_mc_weight=with_mc_weight)
        ss.mutant("nll.mutant_bg_sign[%s]" % tagn, F, far(base, bad.t, 0), timeout=120)


def job_bgdefault(ss, cfg):
    """background without own weights: every bg event gets -w_bkg"""
    from tf_pwa.model.model import FCN, Model

    nd, nb, nm = cfg
    pdf, th, w, wb, v, data, bg, mc = _setup(nd, nb, nm)
    wbkg = S.real("w_bkg")
    S.assume(wbkg > 0)
    bg = toy.events(list(range(100, 100 + nb)))
    model = Model(pdf, w_bkg=wbkg)
    _weights_ok(w, [-wbkg] * nb)
    ref, *_ = _oracle_default("", th, w, [-wbkg] * nb, v, nd, nb, nm)
    fcn = FCN(model, data, mc, bg=bg, batch=2)
    raw = toy.scalar_term(fcn({}))
    F = facts()
    val = simp(F, SymReal(raw))
    ss.prove("nll.bg_weight[%s]" % (cfg,), F, far(val.t, ref.t, 0), key="nll.bg_weight", payload=_pay("bgdefault", cfg), timeout=60, describe="background events enter with weight -w_bkg")


def job_extended(ss, cfg):
    from tf_pwa.model.model import FCN, Model

    nd, nb, nm = cfg
    pdf, th, w, wb, v, data, bg, mc = _setup(nd, nb, nm)
    _weights_ok(w, wb)
    model = Model(pdf, extended=True)
    ref, *_ = _oracle_default("", th, w, wb, v, nd, nb, nm, extended=True)
    tagn = "N=%d,%d,%d" % cfg
    F = None
    base = None
    for batch in (1, nd + nb + 1):
        fcn = FCN(model, data, mc, bg=bg, batch=batch)
        val = toy.scalar_term(fcn({}))
        val2 = toy.scalar_term(fcn.nll_grad({})[0])
        F = facts()
        a, b = simp(F, SymReal(val), SymReal(val2))
        ss.prove("nll.extended.value[%s,b=%d]" % (tagn, batch), F, far(a.t, ref.t, 0), key="nll.extended", payload=_pay("extended", cfg, batch=batch), timeout=60,
                 describe="extended: -alpha[sum w ln f - (sum w) * (sum v f / sum v)]")
        ss.prove("nll.extended.value_with_grad[%s,b=%d]" % (tagn, batch), F, far(b.t, ref.t, 0), key="nll.extended", payload=_pay("extended", cfg, batch=batch), timeout=60)


def job_constraint(ss, cfg):
    from tf_pwa.model.model import FCN, Model

    nd, nb, nm = cfg
    pdf, th, w, wb, v, data, bg, mc = _setup(nd, nb, nm)
    _weights_ok(w, wb)
    mu, sg = S.real("mu"), S.real("sigma")
    S.assume(sg > 0)
    model = Model(pdf)
    ref, *_ = _oracle_default("", th, w, wb, v, nd, nb, nm)
    fcn = FCN(model, data, mc, bg=bg, batch=2, gauss_constr={"a": (mu, sg)})
    val = toy.scalar_term(fcn({}))
    val2 = toy.scalar_term(fcn.nll_grad({})[0])
    F = facts()
    a, b = simp(F, SymReal(val), SymReal(val2))
    refc = ref + (th["a"] - mu) * (th["a"] - mu) / (2 * sg * sg)
    ss.prove("nll.constraint.value", F, far(a.t, refc.t, 0), key="nll.constraint", payload=_pay("constraint", cfg), timeout=60, describe="Gaussian constraint adds (theta-mu)^2/(2 sigma^2)")
    ss.prove("nll.constraint.value_with_grad", F, far(b.t, refc.t, 0), key="nll.constraint", payload=_pay("constraint", cfg), timeout=60)
    ss.mutant("nll.constraint.mutant", F, far(a.t, ref.t, 0))


def job_combine(ss, cfg1, cfg2):
    from tf_pwa.model.model import FCN, CombineFCN, Model

    pdf, th, w, wb, v, data, bg, mc = _setup(*cfg1, tag="")
    _weights_ok(w, wb)
    model = Model(pdf)
    # second data set: same parameters (shared VarsManager), other events / weights
    nd, nb, nm = cfg2
    w2 = [S.real("x_%d" % i) for i in range(nd)]
    v2 = [S.real("y_%d" % i) for i in range(nm)]
    for x in w2:
        S.assume(x != 0)
    for x in v2:
        S.assume(x > 0)
    _weights_ok(w2, [])
    data2 = toy.events(list(range(300, 300 + nd)), w2)
    mc2 = toy.events(list(range(400, 400 + nm)), v2)
    f1 = FCN(model, data, mc, bg=bg, batch=2)
    f2 = FCN(model, data2, mc2, batch=2)
    comb = CombineFCN(fcns=[f1, f2])
    tot = toy.scalar_term(comb({}))
    parts = T.add(toy.scalar_term(f1({})), toy.scalar_term(f2({})))
    tot2 = toy.scalar_term(comb.nll_grad({})[0])
    F = facts()
    a, b, c = simp(F, SymReal(tot), SymReal(parts), SymReal(tot2))
    pay = _pay("combine", cfg1, cfg2=list(cfg2))
    ss.prove("nll.combine.sum_of_parts", F, far(a.t, b.t, 0), key="nll.combine", payload=pay, timeout=60, describe="simultaneous fit NLL = sum of the parts")
    ss.prove("nll.combine.value_with_grad", F, far(c.t, b.t, 0), key="nll.combine", payload=pay, timeout=60)
    # with a Gaussian constraint, built the way MultiConfig.get_fcn does (the same dictionary goes to every part and to the sum):
    # the constraint is counted once, by the value and by the value returned alongside the gradient
    mu, sg = S.real("mu"), S.real("sigma")
    S.assume(sg > 0)
    gc = {"a": (mu, sg)}
    f1c = FCN(model, data, mc, bg=bg, batch=2, gauss_constr=gc)
    f2c = FCN(model, data2, mc2, batch=2, gauss_constr=gc)
    combc = CombineFCN(fcns=[f1c, f2c], gauss_constr=gc)
    vc = toy.scalar_term(combc({}))
    vcg = toy.scalar_term(combc.nll_grad({})[0])
    Fc = facts()
    penalty = (th["a"] - mu) * (th["a"] - mu) / (2 * sg * sg)
    refc = SymReal(b.t) + penalty
    vc_s, vcg_s = simp(Fc, SymReal(vc), SymReal(vcg))
    ss.prove("nll.combine.constraint_once", Fc, far(vc_s.t, refc.t, 0), key="nll.combine.constraint", payload=pay, timeout=60, describe="simultaneous fit with a Gaussian constraint: sum of the parts + the constraint term once")
    ss.prove("nll.combine.constraint_once_with_grad", Fc, far(vcg_s.t, refc.t, 0), key="nll.combine.constraint", payload=pay, timeout=60, describe="the value returned with the gradient agrees")
    ss.mutant("nll.combine.constraint_mutant", Fc + [T.ne(th["a"].t, mu.t)], far(vc_s.t, (SymReal(b.t) + 5 * penalty).t, 0))
    comb2 = CombineFCN(model=[model, model], data=[data, data2], mcdata=[mc, mc2], bg=[bg, None])
    raw3 = toy.scalar_term(comb2({}))
    tot3 = simp(facts(), SymReal(raw3))
    ss.prove("nll.combine.from_lists", facts(), far(tot3.t, b.t, 0), key="nll.combine", payload=pay, timeout=60)


def job_rescale(ss, cfg):
    """f -> c f leaves the non-extended NLL unchanged"""
    from tf_pwa.amp.amp import AbsPDF
    from tf_pwa.model.model import FCN, Model
    import tensorflow as tf

    nd, nb, nm = cfg
    pdf, th, w, wb, v, data, bg, mc = _setup(nd, nb, nm)
    _weights_ok(w, wb)
    c = S.real("c_scale")
    S.assume(c > 0)

    class Scaled(AbsPDF):
        def init_params(self, name=""):
            pass

        def pdf(self, d):
            return tensor_of(c) * pdf.pdf(d)

    spdf = Scaled(vm=pdf.vm)
    for i in list(range(nd)) + [100 + k for k in range(nb)]:
        S.assume(c * _F("", i, th) > 1e-6)  # the rescaled densities stay above the clip of clip_log
    f1 = FCN(Model(pdf), data, mc, bg=bg, batch=2)
    f2 = FCN(Model(spdf), data, mc, bg=bg, batch=2)
    r1, r2 = toy.scalar_term(f1({})), toy.scalar_term(f2({}))
    F = facts()
    a, b = simp(F, SymReal(r1), SymReal(r2))
    # product rule instances: for every log(B) in b with B = c * A :  log(B) = log(c) + log(A)
    ax = []
    lc = toy.ln(c.t)
    for t in T.postorder([b.t]):
        if t.op == "uf" and t.args[0] == "log":
            B = t.args[1]
            A = T.div(B, c.t)
            ax.append(T.eq(t, T.add(lc, toy.ln(A))))
            ax.append(T.gt(A, T.ZERO))
    ss.prove("nll.rescaling_invariant", F + ax, far(a.t, b.t, 0), key="nll.rescaling", payload=_pay("rescale", cfg), timeout=90,
             describe="NLL(c f) = NLL(f) for the non-extended likelihood (ln(c x) = ln c + ln x instantiated for every logarithm)")


def job_cfit(ss, cfg, extended=False):
    import tf_pwa.model.cfit as cf
    from tf_pwa.model.model import FCN

    nd, nb, nm = cfg
    pdf, th, w, wb, v, data, bg, mc = _setup(nd, 0, nm)
    _weights_ok(w, [])
    frac = S.real("frac")
    S.assume(frac > 0)
    S.assume(frac < 1)
    bgv = [S.real("bgd_%d" % i) for i in range(nd)]
    effv = [S.real("effd_%d" % i) for i in range(nd)]
    bgm = [S.real("bgm_%d" % i) for i in range(nm)]
    effm = [S.real("effm_%d" % i) for i in range(nm)]
    for x in bgv + effv + bgm + effm:
        S.assume(x > 0)
    data = toy.events(list(range(nd)), w, bg_value=bgv, eff_value=effv)
    mc = toy.events(list(range(200, 200 + nm)), v, bg_value=bgm, eff_value=effm)
    tagn = "N=%d,%d" % (nd, nm)
    if not extended:
        model = cf.Model_cfit(pdf, w_bkg=frac)
    else:
        model = cf.ModelCfitExtended(pdf, w_bkg=frac)
    sw = sum(w[1:], w[0])
    sw2 = sum([x * x for x in w[1:]], w[0] * w[0])
    alpha = sw / sw2
    sv = sum(v[1:], v[0])
    Isig = sum([(v[j] / sv) * effm[j] * _F("", 200 + j, th) for j in range(1, nm)], (v[0] / sv) * effm[0] * _F("", 200, th))
    Ibg = sum([(v[j] / sv) * bgm[j] for j in range(1, nm)], (v[0] / sv) * bgm[0])
    ref = SymReal(T.ZERO)
    for i in range(nd):
        P = (1 - frac) * effv[i] * _F("", i, th) / Isig + frac * bgv[i] / Ibg
        S.assume(P > 1e-6)
        ref = ref - alpha * w[i] * SymReal(toy.ln(P.t))
    if extended:
        # -ln L - N ln(lambda) + lambda with lambda = I_sig / (1 - f)
        lam = Isig / (1 - frac)
        ref = ref - (alpha * sw) * SymReal(toy.ln(lam.t)) + lam
    kind = "cfit_ext" if extended else "cfit"
    a = None
    for batch in sorted({1, 2, nd + 1}):
        def run(batch=batch):
            fcn = FCN(model, data, mc, batch=batch)
            return toy.scalar_term(fcn({})), toy.scalar_term(fcn.nll_grad({})[0])

        mdl = {x.t.args[0]: 1.0 for x in w + v + bgv + effv + bgm + effm}
        mdl.update({"frac": 0.3, "th_a": 1.0, "th_b": 1.0})
        ok, res = ss.attempt("nll.%s.runs[%s,b=%d]" % (kind, tagn, batch), run, key="nll." + kind, payload=dict(kind=kind, cfg=list(cfg), batch=batch, model=mdl),
                             describe="the likelihood can be evaluated for this batch size")
        if not ok:
            continue
        val, val2 = res
        F = facts()
        a, b = simp(F, SymReal(val), SymReal(val2))
        ss.prove("nll.%s.value[%s,b=%d]" % (kind, tagn, batch), F, far(a.t, ref.t, 0), key="nll." + kind, payload=_pay(kind, cfg, batch=batch), timeout=60,
                 describe="cfit: -sum alpha w ln[(1-f) eff f(x)/I_sig + f bg(x)/I_bg] (extended: - sum(alpha w) ln(lambda) + lambda, lambda = I_sig/(1-f))")
        ss.prove("nll.%s.value_with_grad[%s,b=%d]" % (kind, tagn, batch), F, far(b.t, a.t, 0), key="nll." + kind, payload=_pay(kind, cfg, batch=batch), timeout=60,
                 describe="value returned next to the gradient equals the stand-alone NLL")
    if a is not None:
        ss.mutant("nll.%s.mutant" % kind, facts(), far(a.t, (ref + 1).t, 0))


def job_cfit_ext(ss, cfg):
    job_cfit(ss, cfg, extended=True)


def run_job(job):
    ss = Session(job)
    try:
        globals()["job_" + job[0]](ss, *job[1:])
    finally:
        import tf_pwa.model.model as mm

        if "float" in mm.__dict__:
            del mm.__dict__["float"]
    return ss.records
