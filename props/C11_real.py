"""C11: replays / conformance on the real code."""
import math

import numpy as np


def _l(x):
    a = np.asarray(x.numpy() if hasattr(x, "numpy") else x)
    return a.tolist()


def conformance(tier):
    import tensorflow as tf
    from tf_pwa.angle import LorentzVector as lv
    from tf_pwa.data_trans import dalitz
    from tf_pwa.data_trans import helicity_angle as ha

    out = {}
    p = tf.convert_to_tensor(np.array([[5.0, 1.0, -2.0, 0.5], [2.0, 0.1, 0.2, -0.3]]))
    q = tf.convert_to_tensor(np.array([[3.0, -1.0, 0.4, 0.5], [1.0, 0.3, 0.2, 0.1]]))
    v = tf.convert_to_tensor(np.array([[0.1, 0.2, -0.3], [0.0, 0.0, 0.0]]))
    out["boost"] = _l(lv.boost(p, v))
    out["rest"] = _l(lv.rest_vector(p, q))
    out["bm"] = _l(lv.boost_matrix(p))
    out["m2"] = _l(lv.M2(p))
    out["dot"] = _l(lv.Dot(p, q))
    out["bv"] = _l(lv.boost_vector(p))
    d = dalitz.Dalitz(5.0, 1.0, 0.5, 0.3).generate_p(np.array([4.0, 6.0]), np.array([3.0, 2.5]))
    out["dalitz"] = [_l(x) for x in d]
    g = ha.generate_p([5.0, 2.0, 0.7], [0.5, 0.3], [np.array([0.3, -0.4]), np.array([0.1, 0.9])], [np.array([1.0, -2.0]), np.array([0.5, 2.5])])
    out["genp"] = [_l(x) for x in g]
    return out


def replay(p):
    import tensorflow as tf
    from tf_pwa.angle import LorentzVector as lv

    kind = p["kind"]
    t = lambda names: tf.convert_to_tensor(np.array([[p[n] for n in names]], dtype=np.float64))
    P4, Q4, V3 = ["p0", "p1", "p2", "p3"], ["q0", "q1", "q2", "q3"], ["v0", "v1", "v2"]
    a = lambda x: np.asarray(x.numpy())
    err, scale = 0.0, 1.0
    with np.errstate(all="ignore"):
        if kind == "roundtrip":
            pt, vt = t(P4), t(V3)
            r = a(lv.boost(lv.boost(pt, vt), -vt))
            err = np.max(np.abs(r - a(pt)))
            scale = 1 + np.max(np.abs(a(pt))) / max(1e-300, (1 - np.sum(a(vt) ** 2)))
        elif kind in ("mass_inv", "dot_inv", "m2def"):
            pt = t(P4)
            if kind == "m2def":
                err = abs(a(lv.M2(pt))[0] - (p["p0"] ** 2 - p["p1"] ** 2 - p["p2"] ** 2 - p["p3"] ** 2))
                scale = 1 + np.max(np.abs(a(pt))) ** 2
            else:
                vt = t(V3)
                qt = t(Q4) if kind == "dot_inv" else pt
                err = abs(a(lv.Dot(lv.boost(pt, vt), lv.boost(qt, vt)))[0] - a(lv.Dot(pt, qt))[0])
                scale = 1 + (np.max(np.abs(a(pt))) * np.max(np.abs(a(qt)))) / max(1e-300, (1 - np.sum(a(vt) ** 2)))
        elif kind == "bmatrix":
            pt, qt = t(P4), t(Q4)
            M = a(lv.boost_matrix(pt))[0]
            d = a(lv.boost(qt, lv.boost_vector(pt)))[0]
            err = max(np.max(np.abs(M @ a(qt)[0] - d)), np.max(np.abs(M - M.T)))
            scale = 1 + np.max(np.abs(d))
        elif kind in ("rest", "rest_dot"):
            pt = t(P4)
            r = a(lv.rest_vector(pt, pt))[0]
            m2 = p["p0"] ** 2 - p["p1"] ** 2 - p["p2"] ** 2 - p["p3"] ** 2
            err = max(np.max(np.abs(r[1:])), abs(r[0] - math.sqrt(max(m2, 0))))
            scale = 1 + abs(p["p0"]) ** 2 / max(m2, 1e-300) ** 0.5
            if kind == "rest_dot":
                qt = t(Q4)
                rq = a(lv.rest_vector(pt, qt))[0]
                err = max(err, abs(rq[0] * r[0] - a(lv.Dot(pt, qt))[0]))
        elif kind == "rotation":
            c, s = math.cos(p["phi"]), math.sin(p["phi"])
            i, k = [(2, 3), (3, 1), (1, 2)][p["axis"]]

            def rot(x):
                y = list(x)
                y[i] = c * x[i] - s * x[k]
                y[k] = s * x[i] + c * x[k]
                return tf.convert_to_tensor(np.array([y]))

            pv, qv = [p[n] for n in P4], [p[n] for n in Q4]
            err = max(abs(a(lv.Dot(rot(pv), rot(qv)))[0] - a(lv.Dot(t(P4), t(Q4)))[0]), abs(a(lv.M2(rot(pv)))[0] - a(lv.M2(t(P4)))[0]))
            scale = 1 + max(map(abs, pv)) * max(1.0, max(map(abs, qv)))
        elif kind == "dalitz":
            from tf_pwa.data_trans import dalitz

            ms = [p["m0"], p["m1"], p["m2"], p["m3"]]
            p1, p2, p3 = dalitz.Dalitz(*ms).generate_p(np.array([p["s12"]]), np.array([p["s23"]]))
            tot = a(p1 + p2 + p3)[0]
            errs = [np.max(np.abs(tot - np.array([ms[0], 0, 0, 0])))]
            for pp, mm in ((p1, ms[1]), (p2, ms[2]), (p3, ms[3])):
                errs.append(abs(a(lv.M2(pp))[0] - mm * mm))
            errs.append(abs(a(lv.M2(p1 + p2))[0] - p["s12"]))
            errs.append(abs(a(lv.M2(p2 + p3))[0] - p["s23"]))
            err = max(errs)
            scale = 1 + ms[0] ** 2
        elif kind == "helicity_vertex":
            from tf_pwa.data_trans import helicity_angle as ha

            M, m1, m2, ct, phi = p["M"], p["m1"], p["m2"], p["ct"], p["phi"]
            pb, pa = ha.generate_p([np.array([M]), np.array([m1])], [np.array([m2])], [np.array([ct])], [np.array([phi])])
            pa, pb = a(pa)[0], a(pb)[0]
            pp = math.sqrt(sum(pa[1:] ** 2))
            pT = math.sqrt(pa[1] ** 2 + pa[2] ** 2)
            errs = [abs(pa[0] ** 2 - pp**2 - m1 * m1), abs(pb[0] ** 2 - sum(pb[1:] ** 2) - m2 * m2), np.max(np.abs(pa + pb - np.array([M, 0, 0, 0]))),
                    abs(pa[3] - ct * pp), abs(pa[1] - math.cos(phi) * pT), abs(pa[2] - math.sin(phi) * pT)]
            err = max(errs)
            scale = 1 + M * M
        elif kind == "chain_boost":
            # numeric replay: build momenta from angles for the topology, extract the angles again
            from tf_pwa.amp import DecayChain, get_decay, get_particle
            from tf_pwa.data_trans.helicity_angle import HelicityAngle

            mk = lambda n, mm: get_particle(n + "_rp", mass=mm)
            A, B, C, D, E, F = [mk(n, mm) for n, mm in zip("ABCDEF", [5.0, 0.2, 0.3, 0.4, 0.15, 0.25])]
            Rr, Sr, Tr = mk("R", 3.5), mk("S", 2.5), mk("T", 1.0)
            R2, S2, T3 = mk("R2", 2.0), mk("S2", 1.5), mk("T3", 1.0)
            dec = get_decay
            topo = {
                "3body": lambda: DecayChain([dec(A, [Rr, C]), dec(Rr, [B, D])]),
                "4seq": lambda: DecayChain([dec(A, [Rr, C]), dec(Rr, [Sr, D]), dec(Sr, [B, E])]),
                "4branch": lambda: DecayChain([dec(A, [R2, S2]), dec(R2, [B, C]), dec(S2, [D, E])]),
                "5branch": lambda: DecayChain([dec(A, [mk("R3", 2.5), mk("S3", 1.5)]), ]),
                "5seq": lambda: DecayChain([dec(A, [Rr, C]), dec(Rr, [Sr, D]), dec(Sr, [Tr, E]), dec(Tr, [B, F])]),
            }
            if p["topology"] == "5branch":
                R3, S3 = mk("R3", 2.5), mk("S3", 1.5)
                chain = DecayChain([dec(A, [R3, S3]), dec(R3, [T3, C]), dec(T3, [B, F]), dec(S3, [D, E])])
            else:
                chain = topo[p["topology"]]()
            ha = HelicityAngle(chain)
            rng = np.random.RandomState(3)
            nd = len(list(chain))
            n = 8
            cos = [rng.uniform(-0.9, 0.9, n) for _ in range(nd)]
            phi = [rng.uniform(-3.0, 3.0, n) for _ in range(nd)]
            ms = {k: v + tf.zeros([n], tf.float64) for k, v in ha.get_all_mass({}).items()}
            p4 = ha.build_data(ms, cos, phi)
            dat = ha.cal_angle(dict(p4))
            ms2, cos2, phi2 = ha.find_variable(dat)
            err = max(float(np.max(np.abs(np.asarray(c2) - c1))) for c1, c2 in zip(cos, cos2))
            err = max(err, max(float(np.max(np.abs(np.sin(np.asarray(f2)) - np.sin(f1)))) for f1, f2 in zip(phi, phi2)))
        elif kind in ("euler_top", "euler_gamma"):
            from tf_pwa.angle import EulerAngle

            r, th, ph = p.get("r", 1.0), p.get("theta", 1.0), p.get("phi", 0.5)
            z2 = np.array([[r * math.sin(th) * math.cos(ph), r * math.sin(th) * math.sin(ph), r * math.cos(th)]])
            ang, x2 = EulerAngle.angle_zx_z_getx(np.array([[0.0, 0.0, 1.0]]), np.array([[1.0, 0.0, 0.0]]), z2)
            al, be = float(a(ang["alpha"])[0]), float(a(ang["beta"])[0])
            x2 = a(x2)[0]
            err = max(abs(math.cos(al) - math.cos(ph)), abs(math.sin(al) - math.sin(ph)), abs(math.cos(be) - math.cos(th)), abs(math.sin(be) - math.sin(th)),
                      abs(float(np.dot(x2, z2[0]))) / r, abs(float(np.dot(x2, x2)) - 1), abs(float(np.max(np.abs(a(ang["gamma"]))))))
        else:
            return {"reproduced": False, "error": "unknown kind"}
    err = float(err)
    tol = 1e-7 * float(scale)
    return {"reproduced": bool(err > tol or err != err), "error_magnitude": err, "tolerance": tol, "kind": kind}
