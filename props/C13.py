"""C13 — partial-wave (l,s) selection is sound, complete and non-redundant."""
from __future__ import annotations

import itertools
from fractions import Fraction

import numpy as np

from symx import fork
from symx import scalar as S
from symx import term as T
from symx.harness import Session
from symx.scalar import SymReal

PID = "C13"
LEVEL = "model_checking"
CLAIM = (
    "Bounded symbolic verification of tf_pwa.particle.GetA2BC_LS_list executed on symbolic spins and parities by a path-forking "
    "executor (doubled spins as symbolic integers in [0,8], parities +-1, p_break, optional C-parity): on every feasible path z3 "
    "decides that each offered (l,s) satisfies the triangle/parity/C-parity rules (sound), that every (l*,s*) satisfying them is "
    "in the list (complete, l*,s* free symbolic variables) and that no pair occurs twice. The LS->helicity matrix built by the real "
    "HelicityDecay for every spin-parity assignment with spins <= 5/2 has full column rank (z3 linear real arithmetic: no unit "
    "vector is annihilated), each column obeys the parity relation and the number of couplings equals the number of independent "
    "helicity amplitudes (orbit count). l_list / ls_list restrictions filter exactly."
)
NOTE = (
    "spins bounded by 4 (rank by 5/2); int() and isinstance(x,int) in tf_pwa.particle are rebound to symbolic-aware versions; "
    "CG values are the floats cg_coef returns (exactness of those is C12); rank tolerance 1e-9"
)
TECHNIQUE = "path-forking symbolic execution of GetA2BC_LS_list with z3 (QF_LIRA) deciding soundness/completeness/uniqueness per path; z3 LRA for full column rank of the real CG matrices"
EXPLANATION = CLAIM
FUNCTIONS = [
    "tf_pwa/particle.py:GetA2BC_LS_list", "tf_pwa/particle.py:_spin_range", "tf_pwa/particle.py:_spin_int", "tf_pwa/particle.py:Decay.get_ls_list",
    "tf_pwa/amp/core.py:HelicityDecay.get_ls_list", "tf_pwa/amp/core.py:HelicityDecay._get_cg_matrix", "tf_pwa/amp/core.py:HelicityDecay.get_cg_matrix",
    "tf_pwa/amp/core.py:HelicityDecay.list_helicity_inner", "tf_pwa/particle.py:Decay.get_cg_matrix",
]
ASSUMPTIONS = [
    "spins are half-integers given as the floats/ints the configuration loader produces (k/2 for integer k)",
    "C-parity selection is exercised for integer s only (both daughters of integer spin or both half-integer)",
    "the parity relation used for the orbit count, H_{-lb,-lc} = eta H_{lb,lc} with eta = Pa Pb Pc (-1)^(Ja-Jb-Jc), is the textbook helicity-formalism statement (trusted)",
]
TRUSTED = ["sympy CG values via tf_pwa.cg.cg_coef (validated separately under C12)"]


def bounds(tier):
    m = 3 if tier == "quick" else 8
    return {"doubled_spin_max_selection": m, "doubled_spin_max_rank": 3 if tier == "quick" else 5, "parities": [-1, 1], "p_break": [False, True], "C": [None, -1, 1]}


def jobs(tier, seed):
    m = 3 if tier == "quick" else 8
    out = []
    for tja in range(0, m + 1):
        for tjb in range(0, m + 1):
            # (the C-parity variant is a job of its own in thorough: large spins fork into many paths)
            if tier == "quick":
                out.append(("select", tja, tjb, m))
            else:
                out.append(("select", tja, tjb, m, False))
                out.append(("select", tja, tjb, m, True))
    r = 3 if tier == "quick" else 5
    for tja in range(0, r + 1):
        out.append(("rank", tja, r))
    out.append(("filters",))
    return out


def _half(t2):
    """doubled integer term -> spin value as the code sees it"""
    return SymReal(T.mul(T.const(Fraction(1, 2), "R"), T.to_real(t2)))


def _pred(l, s2, tja, tjb, tjc, pa, pb, pc, pbreak, ca):
    """reference predicate on integer l and doubled integer 2s (all Terms)"""
    two = T.const(2, "I")
    l2 = T.mul(two, l)
    ab = lambda x: T.ite(T.ge(x, T.IZERO), x, T.neg(x))
    c = [
        T.ge(l, T.IZERO),
        T.le(ab(T.sub(tjb, tjc)), s2),
        T.le(s2, T.add(tjb, tjc)),
        T.eq(T.imod(T.sub(T.add(tjb, tjc), s2), two), T.IZERO),  # s steps in integers from |jb-jc|
        T.le(ab(T.sub(tja, s2)), l2),
        T.le(l2, T.add(tja, s2)),
        T.eq(T.imod(T.add(tja, s2), two), T.IZERO),  # l integer needs ja + s integer
    ]
    lpar = T.ite(T.eq(T.imod(l, two), T.IZERO), T.IONE, T.const(-1, "I"))
    c.append(T.bor(pbreak, T.eq(pa, T.mul(pb, pc, lpar))))
    if ca is not None:
        # C = (-1)^(l+s), s integer
        ls = T.add(l, T.idiv(s2, two))
        cpar = T.ite(T.eq(T.imod(ls, two), T.IZERO), T.IONE, T.const(-1, "I"))
        c.append(T.eq(ca, cpar))
    return T.band(*c)


def job_select(ss, tja_c, tjb_c, m, only_c=None):
    from symx import pybuiltins as PB
    import tf_pwa.particle as particle

    particle.int = PB.sym_int
    try:
        for use_c in ((False, True) if only_c is None else (only_c,)):
            def run():
                tja = T.const(tja_c, "I")
                tjb = T.const(tjb_c, "I")
                tjc = T.var("tjc", "I")
                pa, pb, pc = T.var("pa", "I"), T.var("pb", "I"), T.var("pc", "I")
                pbreak = T.bvar("p_break")
                c = S.ctx()
                c.fact(T.le(T.IZERO, tjc))
                c.fact(T.le(tjc, T.const(m, "I")))
                for p in (pa, pb, pc):
                    c.fact(T.bor(T.eq(p, T.IONE), T.eq(p, T.const(-1, "I"))))
                ca = None
                if use_c:
                    ca = T.var("ca", "I")
                    c.fact(T.bor(T.eq(ca, T.IONE), T.eq(ca, T.const(-1, "I"))))
                    # integer s only: jb + jc integer
                    c.fact(T.eq(T.imod(T.add(tjb, tjc), T.const(2, "I")), T.IZERO))
                ja = tja_c / 2 if tja_c % 2 else tja_c // 2
                jb = tjb_c / 2 if tjb_c % 2 else tjb_c // 2
                out = particle.GetA2BC_LS_list(
                    ja, jb, _half(tjc), SymReal(pa), SymReal(pb), SymReal(pc), p_break=S.SymBool(pbreak),
                    ca=None if ca is None else SymReal(ca),
                )
                return out, (tja, tjb, tjc, pa, pb, pc, pbreak, ca)

            ex = fork.Explorer(max_paths=400, max_depth=400, timeout_s=10, total_s=1200)
            npaths = 0
            for path in ex.run(run):
                npaths += 1
                tag = "2ja=%d,2jb=%d,C=%s,path=%d" % (tja_c, tjb_c, use_c, npaths)
                if path.error is not None:
                    ss._rec(kind="obligation", name="ls.path_error[%s]" % tag, key="ls.path_error", status="error", error="%s: %s" % (type(path.error).__name__, path.error))
                    continue
                out, (tja, tjb, tjc, pa, pb, pc, pbreak, ca) = path.result
                F = list(path.ctx.facts) + list(path.pc)
                items = []
                for l, s in out:
                    lt = l.t if isinstance(l, SymReal) else T.const(int(l), "I")
                    st = s.t if isinstance(s, SymReal) else T.const(s)
                    s2 = T.var("s2aux%d" % len(items), "I")
                    # 2s as an integer variable tied to the (real) s the code returned
                    F.append(T.eq(T.to_real(s2), T.mul(T.const(2, "R"), T.to_real(st))))
                    if lt.sort != "I":
                        li = T.var("laux%d" % len(items), "I")
                        F.append(T.eq(T.to_real(li), lt))
                        lt = li
                    items.append((lt, s2))

                def pay(mdl, tag=tag):
                    g = lambda k, d=0: int(mdl.get(k, d))
                    return dict(kind="select", tja=tja_c, tjb=tjb_c, tjc=g("tjc"), pa=g("pa", 1), pb=g("pb", 1), pc=g("pc", 1),
                                p_break=bool(mdl.get("p_break", False)), ca=(g("ca", 1) if use_c else None))

                for i, (lt, s2) in enumerate(items):
                    ss.prove("ls.sound[%s,#%d]" % (tag, i), F, T.bnot(_pred(lt, s2, tja, tjb, tjc, pa, pb, pc, pbreak, ca)), key="ls.sound", payload=pay, split=False,
                             describe="every offered (l,s) satisfies triangle, parity and C-parity rules")
                ls_, ss2 = T.var("l_star", "I"), T.var("s2_star", "I")
                notin = [T.bnot(T.band(T.eq(ls_, lt), T.eq(ss2, s2))) for lt, s2 in items]
                ss.prove("ls.complete[%s]" % tag, F + [T.le(T.IZERO, ss2), T.le(ss2, T.const(2 * m, "I")), T.le(ls_, T.const(2 * m, "I"))],
                         T.band(_pred(ls_, ss2, tja, tjb, tjc, pa, pb, pc, pbreak, ca), *notin), key="ls.complete", split=False,
                         payload=pay, describe="every (l*,s*) allowed by the rules is offered (l*, s* symbolic)", want_smt2=(npaths == 1 and not use_c))
                if items and npaths <= 2:
                    ss.witness("ls.reach[%s]" % tag, F)
                    ss.mutant("ls.mutant_drop_first[%s]" % tag, F + [T.le(T.IZERO, ss2), T.le(ss2, T.const(2 * m, "I")), T.le(ls_, T.const(2 * m, "I"))],
                              T.band(_pred(ls_, ss2, tja, tjb, tjc, pa, pb, pc, pbreak, ca), *notin[1:]))
                for i in range(len(items)):
                    for k in range(i + 1, len(items)):
                        ss.prove("ls.unique[%s,%d,%d]" % (tag, i, k), F, T.band(T.eq(items[i][0], items[k][0]), T.eq(items[i][1], items[k][1])), key="ls.unique", payload=pay, split=False)
            ss.note(name="paths[2ja=%d,2jb=%d,C=%s]" % (tja_c, tjb_c, use_c), states=npaths, transitions=ex.stats["forks"], stats=ex.stats)
            if ex.stats["truncated"] or ex.stats["unknown_branches"]:
                ss._rec(kind="obligation", name="ls.exploration_incomplete[2ja=%d,2jb=%d]" % (tja_c, tjb_c), key="ls.explore", status="unknown", reason=str(ex.stats))
    finally:
        del particle.int


def _helicities(tj):
    return [x / 2 if tj % 2 else x // 2 for x in range(-tj, tj + 1, 2)]


def job_rank(ss, tja, r):
    from symx import lower
    from tf_pwa.amp import HelicityDecay, get_particle

    J = lambda t: t / 2 if t % 2 else t // 2
    uid = itertools.count()
    for tjb in range(0, r + 1):
        for tjc in range(tjb, r + 1):
            if (tja + tjb + tjc) % 2:
                continue
            for pa, pb, pc, pbrk in [(1, 1, 1, False), (-1, 1, 1, False), (1, 1, 1, True)]:
                k = next(uid)
                a = get_particle("A%d_%d" % (tja, k), J=J(tja), P=pa)
                b = get_particle("B%d_%d" % (tja, k), J=J(tjb), P=pb)
                c = get_particle("C%d_%d" % (tja, k), J=J(tjc), P=pc)
                d = HelicityDecay(a, [b, c], p_break=pbrk)
                ls = d.get_ls_list()
                tag = "2ja=%d,2jb=%d,2jc=%d,P=%d,brk=%s" % (tja, tjb, tjc, pa * pb * pc, pbrk)
                hb, hc = _helicities(tjb), _helicities(tjc)
                allowed = [(x, y) for x in hb for y in hc if abs(x - y) <= J(tja)]
                if not pbrk:
                    # eta = Pa Pb Pc (-1)^(ja-jb-jc); orbits of (lb,lc) -> (-lb,-lc)
                    eta = pa * pb * pc * (-1) ** int(round(J(tja) - J(tjb) - J(tjc)))
                    n0 = sum(1 for x, y in allowed if x == 0 and y == 0)
                    expect = (len(allowed) + eta * n0) // 2
                else:
                    eta = None
                    expect = len(allowed)
                payload = dict(kind="rank", tja=tja, tjb=tjb, tjc=tjc, pa=pa, pb=pb, pc=pc, p_break=pbrk)
                ss.concrete("cg.count[%s]" % tag, len(ls) == expect, key="cg.count", payload=payload,
                            describe="number of (l,s) couplings = number of independent helicity amplitudes (%d)" % expect)
                if not ls:
                    continue
                M = np.asarray(d.get_cg_matrix(), dtype=float).reshape(len(ls), -1)  # rows: ls, cols: (lb,lc)
                # full rank: no v with |v|_inf = 1 and |M^T v|_inf <= 1e-9  (QF_LRA)
                vs = [T.var("v%d" % i) for i in range(len(ls))]
                cons = []
                for v in vs:
                    cons += [T.le(T.const(-1, "R"), v), T.le(v, T.ONE)]
                eps = T.const(Fraction(1, 10**9), "R")
                for col in range(M.shape[1]):
                    e = T.add(*[T.mul(T.const(float(M[i, col]), "R"), vs[i]) for i in range(len(ls)) if M[i, col] != 0]) if np.any(M[:, col] != 0) else T.ZERO
                    cons += [T.le(e, eps), T.le(T.neg(eps), e)]
                # by the symmetry v -> -v it suffices to exclude v_i = +1 for each i: one LP per i
                ss.prove("cg.full_rank[%s]" % tag, cons, T.bor(*[T.eq(v, T.ONE) for v in vs]), key="cg.full_rank", payload=lambda m_, payload=payload: payload, split=True,
                         describe="LS->helicity matrix has full column rank: no coefficient vector of max-norm 1 is mapped to ~0 (one linear program per coordinate)", want_smt2=(k == 0))
                if eta is not None:
                    bad = 0.0
                    for i in range(len(ls)):
                        for ib, x in enumerate(hb):
                            for ic, y in enumerate(hc):
                                m1 = M[i].reshape(len(hb), len(hc))
                                bad = max(bad, abs(m1[len(hb) - 1 - ib, len(hc) - 1 - ic] - eta * m1[ib, ic]))
                    ss.concrete("cg.parity_relation[%s]" % tag, bad < 1e-9, key="cg.parity_relation", payload=payload,
                                describe="each column satisfies H_{-lb,-lc} = eta H_{lb,lc}")


def job_filters(ss):
    """l_list / ls_list restrictions select exactly the matching subset"""
    from tf_pwa.amp import HelicityDecay, get_particle

    uid = itertools.count()
    bad = []
    n = 0
    for (ja, pa), (jb, pb), (jc, pc) in [((1, -1), (1, -1), (0, -1)), ((1.5, 1), (1, -1), (0.5, 1)), ((2, 1), (1, -1), (1, -1)), ((0.5, 1), (1.5, -1), (1, -1))]:
        k = next(uid)
        mk = lambda: (get_particle("Fa%d_%d" % (k, next(uid)), J=ja, P=pa), [get_particle("Fb%d_%d" % (k, next(uid)), J=jb, P=pb), get_particle("Fc%d_%d" % (k, next(uid)), J=jc, P=pc)])
        a, o = mk()
        full = HelicityDecay(a, o).get_ls_list()
        ls_all = sorted({l for l, s in full})
        for r in range(0, len(ls_all) + 1):
            for sub in itertools.combinations(ls_all, r):
                a, o = mk()
                got = HelicityDecay(a, o, l_list=list(sub)).get_ls_list()
                n += 1
                if tuple(got) != tuple((l, s) for l, s in full if l in sub):
                    bad.append(("l_list", ja, jb, jc, sub))
        for r in range(1, len(full) + 1):
            for sub in itertools.combinations(full, r):
                a, o = mk()
                got = HelicityDecay(a, o, ls_list=list(sub)).get_ls_list()
                n += 1
                if [tuple(x) for x in got] != [tuple(x) for x in sub]:
                    bad.append(("ls_list", ja, jb, jc, sub))
    ss.concrete("ls.filters", not bad, key="ls.filters", payload=dict(kind="filters", bad=[str(b) for b in bad[:3]]),
                describe="l_list / ls_list restrictions return exactly the matching subset in order (%d configurations; finite enumeration)" % n)


def run_job(job):
    ss = Session(job)
    {"select": job_select, "rank": job_rank, "filters": job_filters}[job[0]](ss, *job[1:])
    return ss.records
