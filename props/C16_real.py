"""C16: replays / conformance on the real code."""
import math

import numpy as np


def _build(m):
    import tensorflow as tf
    from tf_pwa.variable import VarsManager

    g = lambda k, d=1.0: float(m.get(k, d))
    vm = VarsManager(dtype=tf.float64)
    vm.add_real_var("m", value=1.0)
    vm.add_real_var("f", value=1.0)
    vm.add_real_var("t1", value=1.0)
    vm.add_real_var("t2", value=1.0)
    vm.add_complex_var("c", polar=True)
    vm.add_complex_var("d", polar=True)
    vm.set_fix("f")
    vm.set_fix("di")
    vm.set_same(["t1", "t2"])
    vm.variables["dr"].assign(g("v_dr"))
    vm.variables["di"].assign(2 * math.atan(g("u_v_dphi", 0.2)))
    vm.variables["m"].assign(g("v_m"))
    vm.variables["f"].assign(g("v_f"))
    vm.variables["t1"].assign(g("v_t"))
    vm.variables["cr"].assign(g("v_r"))
    u = g("u_v_phi", 0.3)
    vm.variables["ci"].assign(2 * math.atan(u))
    return vm


def _apply(vm, name, k, m):
    g = lambda key, d=0.7: float(m.get(key, d))
    if name == "set_m":
        vm.set("m", g("a%d" % k)); return {"m"}
    if name == "set_f":
        vm.set("f", g("a%d" % k)); return {"f"}
    if name == "set_t1":
        vm.set("t1", g("a%d" % k)); return {"t1", "t2"}
    if name == "set_all_dict":
        vm.set_all({"m": g("a%d" % k), "t2": g("b%d" % k)}); return {"m", "t1", "t2"}
    if name == "set_all_list":
        n = len(vm.trainable_vars)
        vals = []
        for i, nm_ in enumerate(vm.trainable_vars):
            if nm_ == "ci" and vm.complex_vars.get("c") and ("u_l%d_%d" % (k, i)) in m:
                vals.append(2 * math.atan(float(m["u_l%d_%d" % (k, i)])))
            else:
                vals.append(g("l%d_%d" % (k, i)))
        vm.set_all(vals); return set(vm.trainable_vars) | {"t1", "t2"}
    if name == "roundtrip":
        vm.set_all(vm.get_all_dic()); return set()
    if name == "refresh":
        vm.refresh_vars(); return set(vm.trainable_vars) | {"t1", "t2"}
    if name == "rp2xy":
        vm.rp2xy("c"); return set()
    if name == "xy2rp":
        vm.xy2rp("c"); return set()
    if name == "std_polar":
        vm.std_polar("c"); return set()
    if name == "standard_complex":
        vm.standard_complex(); return set()
    if name == "trans_cart":
        vm.trans_params(False); return set()
    if name == "trans_polar":
        vm.trans_params(True); return set()
    if name == "fix_unfix":
        vm.set_fix("m"); vm.set_fix("m", unfix=True); return set()
    if name == "masked_read":
        with vm.mask_params({"m": 0.5}):
            vm.read("m")
        return set()
    if name == "fix_unfix_t2":
        vm.set_fix("t2"); vm.set_fix("t2", unfix=True); vm.user_fixed = set(getattr(vm, "user_fixed", set())) - {"t2"}; return set()
    if name == "fix_t2":
        vm.set_fix("t2"); vm.user_fixed = set(getattr(vm, "user_fixed", set())) | {"t2"}; return set()
    raise ValueError(name)


def _z(vm):
    a, b = float(vm.variables["cr"].numpy()), float(vm.variables["ci"].numpy())
    return a * complex(math.cos(b), math.sin(b)) if vm.complex_vars["c"] else complex(a, b)


def conformance(tier):
    out = {}
    seqs = [["rp2xy", "xy2rp"], ["std_polar"], ["set_all_list", "roundtrip"], ["trans_cart", "trans_polar"], ["fix_unfix", "set_m"]]
    for i, seq in enumerate(seqs):
        vm = _build({"v_r": -0.8, "v_m": 0.3})
        for k, nm in enumerate(seq):
            _apply(vm, nm, k, {})
        out["s%d" % i] = [float(vm.variables[n].numpy()) for n in ("m", "f", "t1", "cr", "ci")] + [len(vm.trainable_vars)]
    return out


def replay(p):
    kind = p["kind"]
    m = p.get("model", {})
    try:
        if kind == "history":
            vm = _build(m)
            bad = []
            for k, nm in enumerate(p["seq"]):
                before = {n: float(vm.variables[n].numpy()) for n in vm.variables}
                zb = _z(vm)
                assigned = _apply(vm, nm, k, m)
                after = {n: float(vm.variables[n].numpy()) for n in vm.variables}
                za = _z(vm)
                if "f" not in assigned and abs(after["f"] - before["f"]) > 1e-9:
                    bad.append("fixed changed at %s" % nm)
                coord = nm in ("rp2xy", "xy2rp", "std_polar", "standard_complex", "trans_cart", "trans_polar")
                for n in ("m", "t1", "di", "dr", "cr", "ci"):
                    if coord and n in ("di", "dr", "cr", "ci"):
                        continue
                    if n not in assigned and abs(after[n] - before[n]) > 1e-9:
                        bad.append("%s changed at %s" % (n, nm))
                if "cr" not in assigned and abs(za - zb) > 1e-7 * (1 + abs(zb)):
                    bad.append("complex value changed at %s" % nm)
                tv = vm.trainable_vars
                if vm.variables["t1"] is not vm.variables["t2"] or len(set(tv)) != len(tv) or sum(1 for n in tv if n in ("t1", "t2")) > 1 or "f" in tv:
                    bad.append("free list broken at %s" % nm)
                for fx in getattr(vm, "user_fixed", set()):
                    if any(vm.variables[n] is vm.variables[fx] for n in tv):
                        bad.append("%s was fixed but is still varied through %s at %s" % (fx, [n for n in tv if vm.variables[n] is vm.variables[fx]], nm))
                if nm in ("std_polar", "standard_complex", "trans_polar") and vm.complex_vars["c"] and after["cr"] < 0:
                    bad.append("negative radius after %s" % nm)
            return {"reproduced": bool(bad), "bad": bad}
        if kind == "ties":
            import tensorflow as tf
            from tf_pwa.variable import VarsManager

            names = ["a", "b", "c", "d", "e"]
            vm = VarsManager(dtype=tf.float64)
            for i, n in enumerate(names):
                vm.add_real_var(n, value=float(i + 1))
            parent = {n: n for n in names}

            def find(x):
                while parent[x] != x:
                    x = parent[x]
                return x

            for x, y in p["seq"]:
                vm.set_same([x, y])
                parent[find(y)] = find(x)
            bad = []
            tv = list(vm.trainable_vars)
            groups = {}
            for n in names:
                groups.setdefault(find(n), []).append(n)
            if len(set(tv)) != len(tv) or any(sum(1 for n in g if n in tv) != 1 for g in groups.values()):
                bad.append("free list %s for groups %s" % (tv, list(groups.values())))
            for g in groups.values():
                vals = [float(vm.variables[n].numpy()) for n in g]
                if max(vals) - min(vals) > 0:
                    bad.append("group %s reads %s" % (g, vals))
            tgt = p["seq"][-1][1]
            vm.set(tgt, 9.5)
            for n in names:
                v = float(vm.variables[n].numpy())
                if find(n) == find(tgt) and v != 9.5:
                    bad.append("%s tied to %s reads %s after set(%s, 9.5)" % (n, tgt, v, tgt))
            return {"reproduced": bool(bad), "bad": bad[:6], "seq": p["seq"]}
        if kind == "shared_r":
            import tensorflow as tf
            from tf_pwa.variable import VarsManager

            ang = lambda k: 2 * math.atan(float(m.get("u_" + k, 0.3)))
            vm = VarsManager(dtype=tf.float64)
            for nme in ("p", "q", "u"):
                vm.add_complex_var(nme, polar=True)
            vm.add_real_var("t1", value=1.0)
            vm.add_real_var("t2", value=1.0)
            vm.set_share_r(["p", "q"])
            vm.set_same(["t1", "t2"])
            vm.set("pr", float(m.get("r", -0.7)))
            vm.set("pi", ang("phi_p"))
            vm.set("qi", ang("phi_q"))
            vm.set("ur", float(m.get("ru", -0.4)))
            vm.set("ui", ang("phi_u"))
            z = lambda k: float(vm.variables[k + "r"].numpy()) * complex(math.cos(float(vm.variables[k + "i"].numpy())), math.sin(float(vm.variables[k + "i"].numpy())))
            zb = {k: z(k) for k in "pqu"}
            vm.standard_complex()
            za = {k: z(k) for k in "pqu"}
            bad = ["%s: %s -> %s" % (k, zb[k], za[k]) for k in "pqu" if abs(zb[k] - za[k]) > 1e-9]
            return {"reproduced": bool(bad), "bad": bad}
        if kind == "std_range":
            import tensorflow as tf
            from tf_pwa.variable import VarsManager

            vm = VarsManager(dtype=tf.float64)
            vm.add_complex_var("c", polar=True)
            vm.variables["cr"].assign(p["r"])
            vm.variables["ci"].assign(p["phi"])
            vm.std_polar("c")
            ph, r = float(vm.variables["ci"].numpy()), float(vm.variables["cr"].numpy())
            return {"reproduced": bool(not (-math.pi <= ph < math.pi) or r < 0), "phi": ph, "r": r}
        if kind in ("bound", "bound_inv"):
            from tf_pwa.variable import Bound

            b = {"two": lambda: Bound(-1.5, 2.0), "lower": lambda: Bound(0.5, None), "upper": lambda: Bound(None, 3.0), "custom": lambda: Bound(0.0, 1.0, func="a+(b-a)*x**2/(1+x**2)")}[p["bound"]]()
            if kind == "bound_inv":
                y = p["y"]
                back = b.get_x2y(b.get_y2x(y))
                return {"reproduced": bool(abs(back - y) > 1e-8), "back": back}
            x = p["x"]
            h = 1e-5
            d1 = (b.get_x2y(x + h) - b.get_x2y(x - h)) / (2 * h)
            d2 = (b.get_x2y(x + h) - 2 * b.get_x2y(x) + b.get_x2y(x - h)) / (h * h)
            y = b.get_x2y(x)
            bad = abs(b.get_dydx(x) - d1) > 1e-6 * (1 + abs(d1)) or abs(b.get_d2ydx2(x) - d2) > 1e-4 * (1 + abs(d2))
            if b.lower is not None and y < b.lower - 1e-12:
                bad = True
            if b.upper is not None and y > b.upper + 1e-12:
                bad = True
            return {"reproduced": bool(bad), "y": y}
    except Exception as e:
        if p.get("expect_raise"):
            return {"reproduced": True, "raised": "%s: %s" % (type(e).__name__, str(e)[:200])}
        return {"reproduced": False, "error": "%s: %s" % (type(e).__name__, str(e)[:300])}
    return {"reproduced": False, "error": "no replay for kind %s" % kind}
