"""C08 — a returned fit result and the model state describe the same point."""
from __future__ import annotations

import sys
import types
from fractions import Fraction as Fr

import numpy as np

from symx import scalar as S
from symx import term as T
from symx.harness import Session
from symx.scalar import SymBool, SymReal

from . import toy
from .common import facts, far, simp, tensor_of, term_of

PID = "C08"
LEVEL = "model_checking"
CLAIM = (
    "Bounded symbolic verification of the fit bookkeeping with the minimiser replaced by a non-deterministic stub. The real fit_scipy "
    "/ fit_newton_cg / fit_minuit_v2 run on the real VarsManager, Bound, Model and FCN classes around a likelihood whose per-event "
    "densities are uninterpreted positive functions of the parameters (two-sided bound, one-sided bound, free, fixed and tied "
    "parameters; arbitrary symbolic starting point). The stub stands for scipy.optimize.minimize / iminuit.Minuit: it evaluates the "
    "objective at an arbitrary point, invokes the callback, evaluates the objective at an arbitrary final point x*, which it returns "
    "with fun = objective(x*) <= objective(x0), and then evaluates the objective once more somewhere else (line-search probes, HESSE "
    "steps: minimisers do not promise that the returned point is the last one evaluated); success is either value. For every minimiser "
    "name accepted by fit (BFGS, CG, Nelder-Mead, L-BFGS-B, Newton-CG, trust-krylov, trust-ncg, trust-exact, the -p variants, iminuit) "
    "z3 decides for all such points that after the call the model holds exactly the values listed in the result, the reported minimum "
    "is the NLL at those values and not above the starting NLL, the fixed parameter is unchanged, tied names are equal, bounded "
    "parameters lie inside their bounds, and a second fit in the same session satisfies the same."
)
NOTE = (
    "the numerical minimisers themselves (scipy, iminuit) are outside the claim: only their contract is assumed; writing the result to a "
    "JSON file and reading it back goes through C-level float formatting and is outside the encoding (the repo's tests exercise it); the "
    "'root' and 'test' minimisers (ROOT, the home-made BFGS) are not modelled; models with complex couplings (standard_complex) are "
    "decided under C16"
)
TECHNIQUE = "symbolic execution of tf_pwa.fit on a symbolic tensorflow substitute with the numerical minimiser replaced by a non-deterministic stub (arbitrary symbolic iterates under the minimiser's contract); post-conditions decided by z3 (QF_NRA with uninterpreted likelihood)"
EXPLANATION = CLAIM
FUNCTIONS = [
    "tf_pwa/fit.py:fit_scipy", "tf_pwa/fit.py:fit_newton_cg", "tf_pwa/fit.py:fit_minuit", "tf_pwa/fit.py:fit_minuit_v2", "tf_pwa/fit.py:FitResult.__init__", "tf_pwa/fit_improve.py:Cached_FG.__call__", "tf_pwa/fit_improve.py:Cached_FG.fun",
    "tf_pwa/fit_improve.py:Cached_FG.grad", "tf_pwa/applications.py:fit", "tf_pwa/variable.py:VarsManager.set_bound", "tf_pwa/variable.py:VarsManager.remove_bound", "tf_pwa/variable.py:VarsManager.set_trans_var", "tf_pwa/variable.py:VarsManager.get_all_val",
    "tf_pwa/variable.py:VarsManager.set_all", "tf_pwa/variable.py:VarsManager.trans_fcn_grad", "tf_pwa/variable.py:VarsManager.trans_error_matrix", "tf_pwa/variable.py:VarsManager.get_all_dic", "tf_pwa/variable.py:Bound.get_x2y", "tf_pwa/variable.py:Bound.get_y2x",
    "tf_pwa/model/model.py:FCN.nll_grad", "tf_pwa/model/model.py:FCN.__call__", "tf_pwa/model/model.py:FCN.get_params",
]
ASSUMPTIONS = [
    "minimiser contract: returns a point x* with objective(x*) <= objective(x0) and fun = objective(x*) (except L-BFGS-B with success False, where scipy may report the value of another evaluated point: reproduced with scipy 1.18.1); result objects carry the fields scipy gives them (no hess_inv for CG / Nelder-Mead / Newton family, no jac for Nelder-Mead, jac None for a Newton-CG run that gives up at once); inside the box for the minimisers that receive bounds (L-BFGS-B, iminuit); it may evaluate the objective anywhere, in any order, before and after x*",
    "per-event densities are uninterpreted functions above the 1e-6 clip; starting point inside the bounds; iterates within |x| <= 100",
    "sympy expressions of Bound are evaluated at symbolic points by substitution into the expressions the real constructor built",
]
TRUSTED = ["scipy.optimize.minimize and iminuit.Minuit (replaced by the stub)"]

SCIPY_PLAIN = ["BFGS", "CG", "Nelder-Mead"]
NEWTON = ["Newton-CG", "trust-krylov", "trust-ncg", "trust-exact", "Newton-CG-p", "trust-krylov-p", "trust-ncg-p"]
ALL = SCIPY_PLAIN + ["L-BFGS-B"] + NEWTON + ["iminuit"]
BOUNDS = {"a": (0.0, 2.0), "b": (0.5, None)}


def bounds(tier):
    return {"minimisers": ALL, "parameters": "a in (0,2), b >= 0.5, c free, d fixed, e tied to c", "N_data": 2, "N_mc": 2, "fits_per_session": [1, 2], "minimiser_success_flag": [True, False], "grad_scale": "1 and any value in (0.01, 100)"}


def jobs(tier, seed):
    out = []
    for m in ALL:
        out.append(("fit", m, True, 1))
        out.append(("fit", m, False, 1))
    for m in SCIPY_PLAIN + ["L-BFGS-B", "Newton-CG", "iminuit"]:
        out.append(("fit_scaled", m, True))
    for m1, m2 in (("BFGS", "BFGS"), ("Newton-CG", "BFGS"), ("BFGS", "Newton-CG"), ("iminuit", "BFGS"), ("L-BFGS-B", "BFGS")) + ((("Newton-CG", "Newton-CG"), ("trust-ncg-p", "L-BFGS-B"), ("BFGS", "iminuit")) if tier == "thorough" else ()):
        out.append(("fit2", m1, m2))
    return out


# ------------------------------------------------------------------ the stub minimisers


class _Result(dict):
    """like scipy.optimize.OptimizeResult: a missing field raises AttributeError"""

    def __getattr__(self, name):
        try:
            return self[name]
        except KeyError as e:
            raise AttributeError(name) from e

    __setattr__ = dict.__setitem__


# fields of the result object per method (scipy 1.18): CG and Nelder-Mead carry no hess_inv, Nelder-Mead no jac;
# Newton-CG returns jac=None when it gives up before the first line search (status 3, success False)
NO_HESS_INV = ("CG", "Nelder-Mead", "Newton-CG", "trust-krylov", "trust-ncg", "trust-exact")


def _fresh_point(n, tag, lo_hi=None):
    xs = []
    for k in range(n):
        x = S.real("%s_%d" % (tag, k))
        S.assume(x >= -100)
        S.assume(x <= 100)
        if lo_hi is not None:
            lo, hi = lo_hi[k]
            if lo is not None:
                S.assume(x >= lo)
            if hi is not None:
                S.assume(x <= hi)
        xs.append(x)
    a = np.empty(n, dtype=object)
    a[:] = xs
    return a


class Stub:
    """non-deterministic minimiser honouring the contract of scipy.optimize.minimize"""

    def __init__(self, success, tag="s"):
        self.success = success
        self.calls = 0
        self.tag = tag
        self.log = []

    def _val(self, r):
        return r[0] if isinstance(r, tuple) else r

    def minimize(self, fun, x0, method=None, jac=None, hess=None, hessp=None, bounds=None, callback=None, options=None, **kw):
        self.calls += 1
        tag = "%s%d" % (self.tag, self.calls)
        n = len(x0)
        box = None
        if bounds is not None:
            box = [tuple(b) for b in bounds]
        f0 = self._val(fun(np.array(x0, dtype=object)))
        xm = _fresh_point(n, tag + "m", box)
        fm = fun(xm)
        if callback is not None:
            callback(xm)
        xf = _fresh_point(n, tag + "f", box)
        r = fun(xf)
        ff = self._val(r)
        gs = S.real(tag + "g")
        g = np.empty(n, dtype=object)
        g[:] = [gs] * n
        ft, f0t = toy.scalar_term(ff), toy.scalar_term(f0)
        S.ctx().fact(T.le(ft, f0t))
        xa = _fresh_point(n, tag + "a", box)
        fun(xa)
        self.log.append(dict(x0=list(x0), xf=xf, fun=ft, f0=f0t, method=method, bounds=box))
        fun_reported = ff
        if method == "L-BFGS-B" and not self.success:
            # scipy's L-BFGS-B after an ABNORMAL termination (line search failure) can report the value of a trial point
            # together with the previous iterate (reproduced with scipy 1.18.1): fun is then not objective(x*)
            fun_reported = self._val(fm)
        res = _Result(x=xf, fun=fun_reported, success=self.success, nit=1, nfev=4, message="stub")
        if method != "Nelder-Mead":
            res["jac"] = g
        if method == "Newton-CG" and not self.success:
            res["jac"] = None
        if method not in NO_HESS_INV:
            res["hess_inv"] = np.eye(n)
        return res


def _minuit_module(stub):
    mod = types.ModuleType("iminuit")
    mod.__version__ = "2.99.0"

    class Minuit:
        def __init__(self, fun, x0, name=None, grad=None):
            self.fun, self.x0, self.name, self.grad = fun, list(np.asarray(x0, dtype=object).reshape(-1)), list(name), grad
            self.limits = {}
            self.strategy = 1
            self.errordef = 1.0
            self.print_level = 0
            self.values = None
            self.errors = [0.1] * len(self.x0)
            self.fval = None
            self.valid = stub.success

        def migrad(self, *a, **k):
            n = len(self.x0)
            box = [tuple(self.limits[nm]) if nm in self.limits else (None, None) for nm in self.name]
            stub.calls += 1
            tag = "%s%d" % (stub.tag, stub.calls)
            f0 = self.fun(np.array(self.x0, dtype=object))
            xm = _fresh_point(n, tag + "m", box)
            self.fun(xm)
            xf = _fresh_point(n, tag + "f", box)
            ff = self.fun(xf)
            if self.grad is not None:
                self.grad(xf)
            S.ctx().fact(T.le(toy.scalar_term(ff), toy.scalar_term(f0)))
            self.values = list(xf)
            self.fval = ff
            stub.log.append(dict(x0=self.x0, xf=xf, fun=toy.scalar_term(ff), f0=toy.scalar_term(f0), method="iminuit", bounds=box))
            return self

        def hesse(self, *a, **k):
            n = len(self.x0)
            box = [tuple(self.limits[nm]) if nm in self.limits else (None, None) for nm in self.name]
            xa = _fresh_point(n, "%s%dh" % (stub.tag, stub.calls), box)
            self.fun(xa)
            return self

        def minos(self, *a, **k):
            return self

    mod.Minuit = Minuit
    return mod


# ------------------------------------------------------------------ test bed


def _bed():
    import tensorflow as tf
    from symx import pybuiltins as PB
    from symx import symtf
    import tf_pwa.model.model as mm
    from tf_pwa.model.model import FCN, Model

    symtf.STATE.var_leaves = True
    symtf.reset_state()
    mm.float = PB.sym_float
    pdf = toy.make_pdf(["a", "b", "c", "d", "e"], tag="F", positive_floor=1e-6)
    vm = pdf.vm
    vm.set_fix("d")
    vm.set_same(["c", "e"])
    th = {}
    for n in ("a", "b", "c", "d"):
        x = S.real("th_" + n)
        th[n] = x
        vm.variables[n].assign(tensor_of(x))
    S.assume(th["a"] > Fr(1, 100))
    S.assume(th["a"] < 2 - Fr(1, 100))
    S.assume(th["b"] > Fr(1, 2) + Fr(1, 100))
    for n in ("a", "b", "c", "d"):
        S.assume(th[n] >= -100)
        S.assume(th[n] <= 100)
    data = toy.events([0, 1])
    mc = toy.events([200, 201])
    model = Model(pdf)
    fcn = FCN(model, data, mc, batch=5)
    return pdf, vm, fcn, th


def _state(vm):
    from symx import symtf

    out = {}
    for n, v in vm.variables.items():
        out[n] = symtf.resolve_bindings(term_of(v.arr.reshape(-1)[0]))
    return out


def _nll_now(fcn):
    from symx import symtf

    return symtf.resolve_bindings(toy.scalar_term(fcn({})))


def _proxy_bounds(vm):
    from .C07 import _SympyProxy

    for b in vm.bnd_dic.values():
        for attr in ("f", "df", "df2", "inv"):
            if not isinstance(getattr(b, attr), _SympyProxy):
                setattr(b, attr, _SympyProxy(getattr(b, attr)))


def _fit_numpy():
    from symx.npproxy import NumpyProxy, SymArray

    def isobj(x):
        return isinstance(x, np.ndarray) and x.dtype == object

    def isnan(x):
        from symx.npproxy import _has_sym

        if _has_sym(x):
            return np.zeros(len(x) if hasattr(x, "__len__") else (), dtype=bool)
        return np.isnan(np.asarray(x, dtype=float))

    def fabs(x):
        a = np.asarray(x, dtype=object) if not isinstance(x, np.ndarray) else x
        if a.dtype != object:
            return np.fabs(a)
        out = np.empty(a.shape, dtype=object)
        for i in np.ndindex(*a.shape):
            out[i] = abs(a[i])
        return out

    def all_(x, *a, **k):
        arr = np.asarray(x, dtype=object)
        if arr.dtype == object and any(isinstance(e, SymBool) for e in arr.reshape(-1)):
            acc = None
            for e in arr.reshape(-1):
                e = e if isinstance(e, SymBool) else SymBool(bool(e))
                acc = e if acc is None else SymBool(T.band(acc.t, e.t))
            return acc
        return np.all(x, *a, **k)

    def array(x, dtype=None, **kw):
        from symx.npproxy import _has_sym, _unwrap

        if _has_sym(x):
            return np.array(_unwrap(x), dtype=object).view(SymArray)
        return np.array(x, dtype=dtype, **kw)

    return NumpyProxy(isnan=isnan, fabs=fabs, abs=fabs, all=all_, array=array)


def _install(stub):
    """rebind the names the fit module uses; returns an undo function"""
    import tf_pwa.fit as fit
    import tf_pwa.fit_improve as fi
    import tf_pwa.variable as var
    from symx import pybuiltins as PB
    from symx.npproxy import NumpyProxy

    saved = []

    def setg(mod, name, val):
        saved.append((mod, name, mod.__dict__.get(name, None), name in mod.__dict__))
        mod.__dict__[name] = val

    setg(fit, "minimize", stub.minimize)
    setg(fit, "float", PB.sym_float)
    setg(fit, "np", _fit_numpy())
    setg(fit, "print", lambda *a, **k: None)
    setg(fi, "np", _fit_numpy())
    setg(var, "float", PB.sym_float)

    class _Cplx:
        def __init__(self, x):
            self.real = x

    setg(var, "complex", lambda x: _Cplx(x) if isinstance(x, SymReal) else complex(x))
    setg(var, "np", NumpyProxy())
    old_set_bound = var.VarsManager.set_bound

    def set_bound(self, *a, **k):
        r = old_set_bound(self, *a, **k)
        _proxy_bounds(self)
        return r

    var.VarsManager.set_bound = set_bound
    old_im = sys.modules.get("iminuit")
    sys.modules["iminuit"] = _minuit_module(stub)

    def undo():
        for mod, name, old, had in reversed(saved):
            if had:
                mod.__dict__[name] = old
            else:
                mod.__dict__.pop(name, None)
        var.VarsManager.set_bound = old_set_bound
        if old_im is not None:
            sys.modules["iminuit"] = old_im
        else:
            sys.modules.pop("iminuit", None)

    return undo


def _fit_once(fcn, method, grad_scale=None):
    from tf_pwa.applications import fit

    kw = {}
    if grad_scale is not None:
        kw["grad_scale"] = grad_scale
    return fit(fcn=fcn, method=method, bounds_dict=dict(BOUNDS), maxiter=3, improve=False, **kw)


def _check(ss, tag, key, F, vm, fcn, res, start_nll, th, pay):
    st = _state(vm)
    names = list(vm.trainable_vars)
    ok_keys = all(n in res.params for n in names)
    ss.concrete("result.lists_free_parameters[%s]" % tag, ok_keys, key=key + ".keys", payload=pay({}), describe="the result lists every free parameter")
    for n, val in res.params.items():
        if n not in st:
            continue
        rv = val if isinstance(val, SymReal) else (val.arr.reshape(-1)[0] if hasattr(val, "arr") else val)
        rt = term_of(rv) if not isinstance(rv, T.Term) else rv
        from symx import symtf

        rt = symtf.resolve_bindings(rt)
        a, b = simp(F, rt, st[n])
        ss.prove("result.params_match_model[%s,%s]" % (tag, n), F, far(a, b, 0), key=key + ".params", payload=pay, timeout=60, describe="the model holds exactly the value listed in the result")
    now = _nll_now(fcn)
    mn = res.min_nll
    mt = mn.t if isinstance(mn, SymReal) else T.const(float(mn), "R")
    from symx import symtf

    mt = symtf.resolve_bindings(mt)
    a, b = simp(F, mt, now)
    ss.prove("result.min_nll_is_nll_of_model[%s]" % tag, F, far(a, b, 0), key=key + ".min_nll", payload=pay, timeout=90, ackermann=False, describe="reported minimum = NLL evaluated at the values the model holds")
    ss.prove("result.min_not_above_start[%s]" % tag, F, T.gt(a, start_nll), key=key + ".descent", payload=pay, timeout=90, describe="reported minimum <= starting NLL (minimiser contract: fun(x*) <= fun(x0))")
    ss.prove("state.fixed_unchanged[%s]" % tag, F, far(st["d"], th["d"].t, 0), key=key + ".fixed", payload=pay, timeout=30, describe="the fixed parameter keeps its value")
    ss.concrete("state.tied_equal[%s]" % tag, vm.variables["c"] is vm.variables["e"] or st["c"] is st["e"], key=key + ".tied", payload=pay({}), describe="tied names share one value")
    lo, hi = BOUNDS["a"]
    ss.prove("state.bounds.a[%s]" % tag, F, T.bor(T.lt(st["a"], T.const(lo, "R")), T.gt(st["a"], T.const(hi, "R"))), key=key + ".bounds", payload=pay, timeout=60, describe="0 <= a <= 2 after the fit")
    ss.prove("state.bounds.b[%s]" % tag, F, T.lt(st["b"], T.const(BOUNDS["b"][0], "R")), key=key + ".bounds", payload=pay, timeout=60, describe="b >= 0.5 after the fit")


def _explore(ss, tag, key, methods, success, payload_extra, scaled=False):
    from symx import fork

    def run():
        stub = Stub(success)
        undo = _install(stub)
        try:
            pdf, vm, fcn, th = _bed()
            gs = None
            if scaled:
                gs = S.real("grad_scale")
                S.assume(gs > Fr(1, 100))
                S.assume(gs < 100)
            start = _nll_now(fcn)
            outs = []
            for m in methods:
                res = _fit_once(fcn, m, gs)
                outs.append((m, res, _state(vm), _nll_now(fcn)))
            return pdf, vm, fcn, th, start, outs, stub
        finally:
            undo()

    ex = fork.Explorer(max_paths=8, max_depth=40, timeout_s=10, total_s=600)
    npaths = 0
    for path in ex.run(run):
        npaths += 1
        ptag = "%s,path%d" % (tag, npaths)
        pay = lambda m, methods=methods: dict(kind="fit", methods=list(methods), success=success, model={k: float(v) for k, v in m.items() if not k.startswith(("sqrt#", "uf_", "V"))}, **payload_extra)
        if path.error is not None:
            ss._rec(kind="obligation", name="fit.raises[%s]" % ptag, key=key + ".raises", status="sat", raised="%s: %s" % (type(path.error).__name__, str(path.error)[:300]), seconds=0.0,
                    payload=dict(kind="fit", methods=list(methods), success=success, expect_raise=True, **payload_extra), describe="the fit returns (does not raise) for a minimiser that honours its contract")
            continue
        pdf, vm, fcn, th, start, outs, stub = path.result
        F = list(path.ctx.facts) + list(path.pc)
        if npaths == 1:
            ss.witness("fit.reach[%s]" % tag, F, timeout=60)
        ss.concrete("fit.minimiser_called[%s]" % ptag, stub.calls >= len(methods), key=key + ".vacuity", payload=pay({}), describe="the stub minimiser was invoked (%d calls)" % stub.calls)
        # the last fit's post-state is the live state; earlier fits are checked from their snapshots through the same predicate
        m, res, st, now = outs[-1]
        _check(ss, ptag, key, F, vm, fcn, res, start if len(outs) == 1 else outs[-2][3], th, pay)
        # box contract was really passed where the minimiser takes bounds
        for lg in stub.log:
            if lg["method"] in ("L-BFGS-B", "iminuit"):
                names = list(vm.trainable_vars)
                ok = lg["bounds"] is not None and all((tuple(lg["bounds"][names.index(n)]) == tuple(BOUNDS[n])) for n in BOUNDS if n in names)
                ss.concrete("fit.bounds_passed_to_minimiser[%s,%s]" % (ptag, lg["method"]), ok, key=key + ".bounds_passed", payload=pay({}), describe="the parameter bounds of the configuration reach the minimiser")
    ss.note(name="fit.paths[%s]" % tag, paths=npaths, stats=dict(ex.stats))


def job_fit(ss, method, success, nfit):
    _explore(ss, "%s,%s" % (method, "ok" if success else "fail"), "fit." + method, [method] * nfit, success, {})


def job_fit_scaled(ss, method, success):
    """grad_scale is an argument of ConfigLoader.fit next to method and maxiter: any positive value"""
    _explore(ss, "%s,%s,grad_scale" % (method, "ok" if success else "fail"), "fit_scaled." + method, [method], success, {"grad_scale": True}, scaled=True)


def job_fit2(ss, m1, m2):
    _explore(ss, "%s>%s" % (m1, m2), "fit2.%s>%s" % (m1, m2), [m1, m2], True, {})


def run_job(job):
    ss = Session(job)
    globals()["job_" + job[0]](ss, *job[1:])
    return ss.records
