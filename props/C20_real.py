"""C20: replays / conformance on the real code."""
import math

import numpy as np


def conformance(tier):
    from tf_pwa.generator.breit_wigner import BWGenerator
    from tf_pwa.generator.linear_interpolation import LinearInterp
    from tf_pwa.histogram import Hist1D

    out = {}
    x = np.array([0.0, 1.0, 2.5, 3.0])
    y = np.array([1.0, 2.0, 0.5, 0.5])
    f = LinearInterp(x, y)
    u = np.array([0.0, 0.1, 0.5, 0.9, 0.999])
    s = f.solve(u)
    out["solve"] = s.tolist()
    out["int"] = f.integral(s).tolist()
    out["call"] = f(s).tolist()
    out["int_all"] = float(f.int_all)
    g = BWGenerator(1.0, 0.2, 0.5, 1.8)
    out["bw"] = g.solve(u).tolist()
    out["bwi"] = g.integral(g.solve(u)).tolist()
    h = Hist1D.histogram(np.array([0.5, 1.5, 1.7, 2.9]), np.array([0.0, 1.0, 2.0, 3.0]), weights=np.array([1.0, -0.5, 2.0, 0.3]), mask_error=0.0)
    out["hist"] = [h.count.tolist(), h.error.tolist()]
    return out


def replay(p):
    kind = p["kind"]
    m = p.get("model", {})
    g = lambda k, d=0.0: float(m.get(k, d))
    try:
        if kind == "linear_interp":
            from tf_pwa.generator.linear_interpolation import LinearInterp

            n = p["n"]
            x = np.array([g("x%d" % i, i) for i in range(n)])
            y = np.array([g("y%d" % i, 1.0) for i in range(n)])
            f = LinearInterp(x, y)
            u = np.array([g("u", 0.5)])
            s = f.solve(u)
            back = f.integral(s)
            ref = sum((y[i] + y[i + 1]) * (x[i + 1] - x[i]) / 2 for i in range(n - 1))
            err = max(abs(back[0] - u[0] * f.int_all), abs(f.int_all - ref), max(0.0, x[0] - s[0]), max(0.0, s[0] - x[-1]))
            return {"reproduced": bool(err > 1e-8 * (1 + abs(ref)) or err != err), "error_magnitude": float(err)}
        if kind == "single_sampling":
            return {"reproduced": False, "error": "the acceptance logic is replayed by construction (w_i, bound symbolic); no numeric replay"}
    except Exception as e:
        return {"reproduced": False, "error": "%s: %s" % (type(e).__name__, str(e)[:300])}
    return {"reproduced": False, "error": "no replay for kind %s" % kind}
