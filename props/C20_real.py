"""C20: replays / conformance on the real code."""
import math

import numpy as np


def conformance(tier):
    from tf_pwa.generator.breit_wigner import BWGenerator
    from tf_pwa.generator.linear_interpolation import LinearInterp
    from tf_pwa.histogram import Hist1D

    out = {}
    x = np.array([0.0, 1.0, 2.5, 3.0])
    y = np.array([1.0, 2.0, 0.5, 0.5])
    f = LinearInterp(x, y)
    u = np.array([0.0, 0.1, 0.5, 0.9, 0.999])
    s = f.solve(u)
    out["solve"] = s.tolist()
    out["int"] = f.integral(s).tolist()
    out["call"] = f(s).tolist()
    out["int_all"] = float(f.int_all)
    g = BWGenerator(1.0, 0.2, 0.5, 1.8)
    out["bw"] = g.solve(u).tolist()
    out["bwi"] = g.integral(g.solve(u)).tolist()
    h = Hist1D.histogram(np.array([0.5, 1.5, 1.7, 2.9]), np.array([0.0, 1.0, 2.0, 3.0]), weights=np.array([1.0, -0.5, 2.0, 0.3]), mask_error=0.0)
    out["hist"] = [h.count.tolist(), h.error.tolist()]
    return out


def replay(p):
    kind = p["kind"]
    m = p.get("model", {})
    g = lambda k, d=0.0: float(m.get(k, d))
    try:
        if kind == "linear_interp":
            from tf_pwa.generator.linear_interpolation import LinearInterp

            n = p["n"]
            x = np.array([g("x%d" % i, i) for i in range(n)])
            y = np.array([g("y%d" % i, 1.0) for i in range(n)])
            f = LinearInterp(x, y)
            u = np.array([g("u", 0.5)])
            s = f.solve(u)
            back = f.integral(s)
            ref = sum((y[i] + y[i + 1]) * (x[i + 1] - x[i]) / 2 for i in range(n - 1))
            err = max(abs(back[0] - u[0] * f.int_all), abs(f.int_all - ref), max(0.0, x[0] - s[0]), max(0.0, s[0] - x[-1]))
            return {"reproduced": bool(err > 1e-8 * (1 + abs(ref)) or err != err), "error_magnitude": float(err)}
        if kind == "single_sampling":
            import tensorflow as tf
            from tf_pwa.generator.generator import single_sampling2

            N = p["N"]
            w = np.array([g("w%d" % i, 1.0) for i in range(N)])
            f = np.array([g("f%d" % i, 1.0) for i in range(N)])
            rnd = np.array([g("rnd_%d" % (i + 1), 0.5) for i in range(N)])
            old = tf.random.uniform
            tf.random.uniform = lambda shape, **kw: tf.convert_to_tensor(rnd)
            try:
                mw = tf.convert_to_tensor(np.float64(g("bound0", 1.0))) if p.get("with_bound") else None
                data, new_mw = single_sampling2(lambda n: {"idx": tf.convert_to_tensor(np.arange(n))}, lambda d: tf.convert_to_tensor(w), N, mw,
                                                (lambda d: tf.convert_to_tensor(f)) if p.get("with_imp") else None)
            finally:
                tf.random.uniform = old
            eff = w / f if p.get("with_imp") else w
            kept = [int(i) for i in np.asarray(data["idx"].numpy())]
            b = float(new_mw)
            bad = any(eff[i] > b * (1 + 1e-12) for i in kept) or any(e > b * (1 + 1e-12) for e in eff)
            return {"reproduced": bool(bad), "bound": b, "weights": eff.tolist(), "kept": kept}
        if kind == "hist":
            from tf_pwa.histogram import Hist1D

            n = 3
            mm = np.array([g("m%d" % i, 0.5 + i) for i in range(n)])
            ww = np.array([g("w%d" % i, 1.0) for i in range(n)])
            edges = np.array([0.0, 1.0, 2.0, 3.0])
            me = float(p.get("mask_error", 0.0))
            h = Hist1D.histogram(mm, edges, weights=ww, mask_error=me)
            # independent per-bin accumulation (np.histogram convention: last bin closed)
            idx = np.minimum(np.searchsorted(edges, mm, side="right") - 1, len(edges) - 2)
            cnt = np.zeros(3)
            c2 = np.zeros(3)
            npop = np.zeros(3)
            np.add.at(cnt, idx, ww)
            np.add.at(c2, idx, ww**2)
            np.add.at(npop, idx, 1)
            exp_err = np.where(npop == 0, me, np.sqrt(c2))
            err = max(float(np.max(np.abs(np.asarray(h.count, dtype=float) - cnt))), float(np.max(np.abs(np.asarray(h.error, dtype=float) - exp_err))))
            return {"reproduced": bool(err > 1e-9 or err != err), "error_magnitude": err, "count": np.asarray(h.count, dtype=float).tolist(), "error": np.asarray(h.error, dtype=float).tolist(),
                    "expected_error": exp_err.tolist(), "m": mm.tolist(), "w": ww.tolist()}
    except Exception as e:
        return {"reproduced": False, "error": "%s: %s" % (type(e).__name__, str(e)[:300])}
    return {"reproduced": False, "error": "no replay for kind %s" % kind}
