"""C17 — temporary overrides and derived computations leave the model unchanged."""
from __future__ import annotations

import itertools

import numpy as np

from symx import scalar as S
from symx import term as T
from symx.harness import Session
from symx.scalar import SymReal

from .amptools import build_model, phsp_data, symbolize_couplings
from .common import far, tensor_of, term_of

PID = "C17"
LEVEL = "fault_enumeration"
CLAIM = (
    "Fault enumeration on a symbolic model state: a real amplitude model (ConfigLoader dictionary configuration, three chains in two "
    "topologies) runs on the symbolic tensorflow substitute with every parameter value a symbolic real; each temporary-override block "
    "(AbsPDF.temp_params / mask_params / temp_used_res / temp_total_gls_one, VarsManager.temp_params / mask_params, config.temp_config), "
    "nested to depth 2, and each derived computation (partial_weight, partial_weight_interference, cal_fitfractions, "
    "FitFractions.append_int, an abandoned factor_iteration) is executed once normally and once for every position at which an "
    "exception can be injected (in the block body, or at the k-th evaluation of the density inside the computation); afterwards every "
    "parameter's value term, the list of active chains, the mask flags, the mask dictionary and the configuration entry are compared "
    "with the pre-state (identity of symbolic terms = equality for every parameter value) and the density of an event is compared."
)
NOTE = (
    "one decay group (3 chains, 2 topologies, spin 0/1), sequences of one or two nested blocks; exceptions are injected as a dedicated "
    "Exception subclass raised from the block body or from DecayGroup.sum_amp; a VarsManager with one two-sided bounded parameter is "
    "included"
)
TECHNIQUE = "fault enumeration over exception injection points on the real classes with symbolic parameter values (symbolic tensorflow substitute); state equality decided as identity/equality of symbolic terms"
EXPLANATION = CLAIM
FUNCTIONS = [
    "tf_pwa/amp/amp.py:AbsPDF.temp_params", "tf_pwa/amp/amp.py:AbsPDF.mask_params", "tf_pwa/amp/amp.py:BaseAmplitudeModel.temp_used_res", "tf_pwa/amp/amp.py:BaseAmplitudeModel.partial_weight",
    "tf_pwa/amp/amp.py:BaseAmplitudeModel.partial_weight_interference", "tf_pwa/amp/amp.py:BaseAmplitudeModel.temp_total_gls_one", "tf_pwa/amp/amp.py:BaseAmplitudeModel.factor_iteration",
    "tf_pwa/amp/core.py:DecayGroup.temp_used_res", "tf_pwa/amp/core.py:DecayGroup.partial_weight", "tf_pwa/amp/core.py:DecayGroup.partial_weight_interference",
    "tf_pwa/amp/core.py:DecayGroup.set_used_res", "tf_pwa/amp/core.py:DecayGroup.set_used_chains", "tf_pwa/amp/core.py:DecayGroup.factor_iteration",
    "tf_pwa/variable.py:VarsManager.temp_params", "tf_pwa/variable.py:VarsManager.mask_params", "tf_pwa/config.py:temp_config",
    "tf_pwa/fitfractions.py:cal_fitfractions", "tf_pwa/fitfractions.py:cal_fitfractions_no_grad", "tf_pwa/fitfractions.py:FitFractions.append_int",
]
ASSUMPTIONS = [
    "the kinematic content of the events is concrete (two phase-space events generated with a fixed seed); parameter values are symbolic",
    "an injected fault is an ordinary Exception raised at a call boundary of the density (not an asynchronous interrupt)",
]
TRUSTED = []


class Injected(Exception):
    pass


def _v(name):
    """value handed to an override (symbolic here; a float in the replay)"""
    return tensor_of(S.real(name))


def _pval(v):
    """parameter value as a comparable object (symbolic term here; a float in the replay)"""
    return term_of(v.arr.reshape(-1)[0])


def _same(a, b):
    return a is b


BLOCKS = ["amp.temp_params", "amp.mask_params", "amp.temp_used_res", "amp.temp_total_gls_one", "vm.temp_params", "vm.mask_params", "config.temp_config"]
COMPS = ["partial_weight", "partial_weight_interference", "cal_fitfractions", "cal_fitfractions_no_grad", "append_int", "factor_iteration_abandoned"]


def bounds(tier):
    return {"blocks": BLOCKS, "computations": COMPS, "computation_start_states": ["full model"] + PRES, "nesting": 2, "fault_positions": "block body; k-th density evaluation for k = 1..K (K = number of evaluations of the fault-free run)"}


def jobs(tier, seed):
    out = [("blocks", b) for b in BLOCKS]
    out += [("nested", a, b) for a in BLOCKS[:4] for b in BLOCKS[:4] if a != b][: (6 if tier == "quick" else 12)]
    out += [("comp", c) for c in COMPS]
    out += [("comp_seq", c, pre) for c in COMPS for pre in PRES]
    out += [("vm_bounded",)]
    return out


def _snapshot(amp):
    vm = amp.vm
    from tf_pwa.config import get_config

    snap = {
        "params": {n: _pval(v) for n, v in vm.variables.items()},
        "chains_idx": list(amp.decay_group.chains_idx),
        "mask_vars": dict(vm.mask_vars),
        "mask_factor": [getattr(i, "mask_factor", False) for i in _mask_parts(amp)],
        "config": get_config("c17_probe", None) if _has_probe() else None,
        "trainable": list(vm.trainable_vars),
    }
    return snap


def _has_probe():
    from tf_pwa.config import get_config

    try:
        get_config("c17_probe")
        return True
    except Exception:
        return False


def _mask_parts(amp):
    out = []
    for i in amp.decay_group:
        out.append(i)
        for j in i:
            out.append(j)
    return out


def _diff(a, b):
    bad = []
    for n in a["params"]:
        if n not in b["params"] or not _same(a["params"][n], b["params"][n]):
            bad.append("param " + n)
    for k in ("chains_idx", "mask_vars", "mask_factor", "config", "trainable"):
        if a[k] != b[k]:
            bad.append(k)
    return bad


def _enter(amp, name):
    """context manager instance for a block"""
    from tf_pwa.config import temp_config

    vm = amp.vm
    pn = [n for n in vm.trainable_vars][:2]
    if name == "amp.temp_params":
        return amp.temp_params({pn[0]: _v("tmp_a"), pn[1]: _v("tmp_b")})
    if name == "amp.mask_params":
        return amp.mask_params({pn[0]: 0.25})
    if name == "amp.temp_used_res":
        return amp.temp_used_res([str(amp.decay_group.resonances[0])])
    if name == "amp.temp_total_gls_one":
        return amp.temp_total_gls_one()
    if name == "vm.temp_params":
        return vm.temp_params({pn[0]: _v("tmp_c")})
    if name == "vm.mask_params":
        return vm.mask_params({pn[1]: 0.5})
    if name == "config.temp_config":
        return temp_config("c17_probe", "inside")
    raise ValueError(name)


def _symbolize(amp):
    symbolize_couplings(amp)


def _setup():
    from tf_pwa.config import regist_config

    amp, config = build_model()
    _symbolize(amp)
    try:
        regist_config("c17_probe", "outside")
    except Exception:
        pass
    data = phsp_data(config, 2)
    return amp, config, data


def _density_terms(amp, data):
    v = amp(data)
    if not hasattr(v, "arr"):
        return [float(x) for x in np.asarray(v.numpy()).reshape(-1)]
    if v.arr.dtype != object:
        return [float(x) for x in v.arr.reshape(-1)]
    return [term_of(e) for e in v.arr.reshape(-1)]


def _record(ss, name, key, before, after, dens_before, dens_after, fault, extra=None):
    bad = _diff(before, after)
    if dens_after is not None and any(not _same(x, y) for x, y in zip(dens_before, dens_after)):
        bad.append("density")
    ss.concrete(name, not bad, key=key, payload=dict(kind="state", what=key, fault=fault, changed=bad, **(extra or {})),
                describe="parameter values, active chains, masks and configuration are exactly as before (fault: %s)" % (fault,))


def scenario_block(block, fault):
    amp, config, data = _setup()
    dens0 = _density_terms(amp, data)
    before = _snapshot(amp)
    inside = None
    try:
        with _enter(amp, block):
            inside = _snapshot(amp)
            if fault:
                raise Injected()
    except Injected:
        pass
    after = _snapshot(amp)
    dens1 = _density_terms(amp, data)
    return before, after, dens0, dens1, inside


def scenario_nested(outer, inner, fault):
    amp, config, data = _setup()
    dens0 = _density_terms(amp, data)
    before = _snapshot(amp)
    try:
        with _enter(amp, outer):
            with _enter(amp, inner):
                if fault == "inner_body":
                    raise Injected()
            if fault == "outer_body_after_inner":
                raise Injected()
    except Injected:
        pass
    after = _snapshot(amp)
    dens1 = _density_terms(amp, data)
    return before, after, dens0, dens1


PRES = ["restricted", "inside_block", "after_failed_block", "after_failed_nested"]


def _pre_state(amp, pre):
    """bring the model into a state that earlier operations of a session leave behind; returns a context to run the computation in"""
    import contextlib

    res = [str(r) for r in amp.decay_group.resonances]
    if pre == "restricted":
        # the user selected a subset permanently
        amp.set_used_res(res[:1])
    elif pre == "after_failed_block":
        try:
            with amp.temp_used_res(res[:1]):
                raise Injected()
        except Injected:
            pass
    elif pre == "after_failed_nested":
        pn = [n for n in amp.vm.trainable_vars][:1]
        try:
            with amp.temp_params({pn[0]: _v("tmp_pre")}):
                with amp.temp_used_res(res[1:2]):
                    raise Injected()
        except Injected:
            pass
    if pre == "inside_block":
        return amp.temp_used_res(res[:2])
    return contextlib.nullcontext()


def scenario_comp(comp, k, pre=None):
    """k = None: fault-free (returns the number of density evaluations), else fail at the k-th evaluation.
    pre: state the computation starts from (None = the full model)"""
    amp, config, data = _setup()
    dg = amp.decay_group
    if pre is not None:
        full0 = _snapshot(amp)
        ctx = _pre_state(amp, pre)
        with ctx:
            before = _snapshot(amp)
            dens0 = _density_terms(amp, data)
            try:
                _run_comp(amp, data, comp)
            except Injected:
                pass
            after = _snapshot(amp)
            dens1 = _density_terms(amp, data)
        return before, after, dens0, dens1, 0
    count = [0]
    real = dg.sum_amp

    def wrapped(*a, **kw):
        count[0] += 1
        if k is not None and count[0] == k:
            raise Injected()
        return real(*a, **kw)

    dens0 = _density_terms(amp, data)
    before = _snapshot(amp)
    dg.sum_amp = wrapped
    try:
        try:
            _run_comp(amp, data, comp)
        except Injected:
            pass
    finally:
        del dg.sum_amp
    after = _snapshot(amp)
    dens1 = _density_terms(amp, data)
    return before, after, dens0, dens1, count[0]


def job_blocks(ss, block):
    for fault in (None, "body"):
        before, after, dens0, dens1, inside = scenario_block(block, fault)
        _record(ss, "restore[%s,fault=%s]" % (block, fault), "restore." + block + (".exception" if fault else ".normal"), before, after, dens0, dens1, fault, dict(block=block))
        # vacuity: the block really changed something while it was active
        if fault is None:
            ss.concrete("block_effective[%s]" % block, bool(_diff(before, inside)), key="block_effective", payload=dict(kind="effective", block=block), describe="the override is effective inside the block")


def job_nested(ss, outer, inner):
    for fault in (None, "inner_body", "outer_body_after_inner"):
        before, after, dens0, dens1 = scenario_nested(outer, inner, fault)
        _record(ss, "restore.nested[%s>%s,fault=%s]" % (outer, inner, fault), "restore.nested." + outer + ">" + inner + (".exception" if fault else ".normal"), before, after, dens0, dens1, fault, dict(block=outer + ">" + inner, outer=outer, inner=inner))


def _run_comp(amp, data, comp):
    from tf_pwa import fitfractions as ff

    res = [str(r) for r in amp.decay_group.resonances]
    if comp == "partial_weight":
        return amp.partial_weight(data)
    if comp == "partial_weight_interference":
        return amp.partial_weight_interference(data)
    if comp == "cal_fitfractions":
        return ff.cal_fitfractions(amp, data, res=res, batch=1)
    if comp == "cal_fitfractions_no_grad":
        return ff.cal_fitfractions_no_grad(amp, data, res=res, batch=1)
    if comp == "append_int":
        f = ff.FitFractions(amp, res)
        f.append_int(data)
        return f
    if comp == "factor_iteration_abandoned":
        for k, _ in enumerate(amp.factor_iteration()):
            if k == 1:
                break
        return None
    raise ValueError(comp)


def job_comp(ss, comp):
    import tf_pwa.fitfractions as ffm
    from symx.npproxy import NumpyProxy

    old = ffm.np
    ffm.np = NumpyProxy()
    try:
        before, after, dens0, dens1, K = scenario_comp(comp, None)
        _record(ss, "unchanged_after[%s,fault=None]" % comp, "unchanged_after." + comp + ".normal", before, after, dens0, dens1, None, dict(comp=comp, k=None))
        for k in range(1, K + 1):
            before, after, dens0, dens1, _ = scenario_comp(comp, k)
            _record(ss, "unchanged_after[%s,fault@%d/%d]" % (comp, k, K), "unchanged_after." + comp + ".exception", before, after, dens0, dens1, "density evaluation %d of %d" % (k, K), dict(comp=comp, k=k))
        ss.note(name="comp." + comp, evaluations=K)
    finally:
        ffm.np = old


def job_comp_seq(ss, comp, pre):
    """the computation starts from a state that earlier operations leave behind (a permanent selection, an enclosing block, a block left by an exception)"""
    import tf_pwa.fitfractions as ffm
    from symx.npproxy import NumpyProxy

    old = ffm.np
    ffm.np = NumpyProxy()
    try:
        before, after, dens0, dens1, _ = scenario_comp(comp, None, pre)
        _record(ss, "unchanged_after[%s,from=%s]" % (comp, pre), "unchanged_after." + comp + ".from_" + pre, before, after, dens0, dens1, None, dict(comp=comp, k=None, pre=pre))
    finally:
        ffm.np = old


def job_vm_bounded(ss):
    """VarsManager.temp_params with a bounded parameter (bounds are present while a fit is running)"""
    import tensorflow as tf
    from tf_pwa.variable import VarsManager

    from symx import pybuiltins as PB
    import tf_pwa.variable as var

    from .C07 import _SympyProxy

    class _Cplx:
        def __init__(self, x):
            self.real = x

    saved = {k: var.__dict__.get(k) for k in ("float", "complex")}
    var.float = PB.sym_float
    var.complex = lambda x: _Cplx(x) if isinstance(x, SymReal) else complex(x)
    try:
        from symx import fork

        for fault in (None, "body"):
            def run(fault=fault):
                vm = VarsManager(dtype=tf.float64)
                vm.add_real_var("a", value=1.0)
                vm.add_real_var("b", value=1.0)
                vm.set_bound({"a": (0.0, 2.0)})
                bnd = vm.bnd_dic["a"]
                for attr in ("f", "df", "df2", "inv"):
                    setattr(bnd, attr, _SympyProxy(getattr(bnd, attr)))
                ya = S.real("y_a")
                S.assume(ya > 0)
                S.assume(ya < 2)
                vm.variables["a"].assign(tensor_of(ya))
                vm.variables["b"].assign(tensor_of(S.real("y_b")))
                before = {n: term_of(v.arr.reshape(-1)[0]) for n, v in vm.variables.items()}
                try:
                    with vm.temp_params({"a": tensor_of(S.real("tmp")), "b": tensor_of(S.real("tmp2"))}):
                        if fault:
                            raise Injected()
                except Injected:
                    pass
                after = {n: term_of(v.arr.reshape(-1)[0]) for n, v in vm.variables.items()}
                return before, after

            ex = fork.Explorer(max_paths=8, max_depth=8, timeout_s=10, total_s=120)
            for path in ex.run(run):
                if path.error is not None:
                    ss._rec(kind="obligation", name="vm_bounded.path_error[fault=%s]" % fault, key="restore.vm.temp_params.bounded", status="error", error=str(path.error))
                    continue
                before, after = path.result
                F = list(path.ctx.facts) + list(path.pc)
                from .common import simp as _simp

                for n in before:
                    a_t = _simp(F, SymReal(after[n])).t
                    ss.prove("vm_bounded.restore[%s,fault=%s]" % (n, fault), F, far(a_t, before[n], 0), key="restore.vm.temp_params.bounded" + (".exception" if fault else ".normal"),
                             payload=lambda m, n=n, fault=fault: dict(kind="vm_bounded", y_a=float(m.get("y_a", 1.3)), y_b=float(m.get("y_b", 0.4)), fault=fault), timeout=30,
                             describe="VarsManager.temp_params restores a bounded parameter to its value")
    finally:
        for k, v in saved.items():
            if v is None:
                var.__dict__.pop(k, None)
            else:
                var.__dict__[k] = v


def run_job(job):
    ss = Session(job)
    globals()["job_" + job[0]](ss, *job[1:])
    return ss.records
