"""C11 — kinematic transformations are mutually inverse."""
from __future__ import annotations

from fractions import Fraction

import numpy as np

from symx import scalar as S
from symx import term as T
from symx.harness import Session
from symx.scalar import SymComplex, SymReal

from .common import EPS, facts, far, far_c, lemma, model_angle, simp, tensor_of, term_of

PID = "C11"
LEVEL = "model_checking"
CLAIM = (
    "Bounded symbolic verification: tf_pwa.angle.LorentzVector (boost, rest_vector, boost_vector, boost_matrix, M2, Dot), "
    "tf_pwa.data_trans.dalitz and the angle->momentum->angle round trip of tf_pwa.data_trans.helicity_angle / tf_pwa.cal_angle "
    "run unmodified on a symbolic tensorflow substitute with symbolic four-vector components, velocities (|v|<1), masses, Dalitz "
    "variables and angles; z3 (QF_NRA) decides: boost(-v) after boost(v) is the identity, boosts and axis rotations preserve M^2 and "
    "Minkowski products, boost_matrix(P) q = boost(q, beta(P)), rest_vector(P,P) = (M,0,0,0), Dalitz momenta are on shell, sum to "
    "the parent at rest and reproduce s12, s23; single-vertex momenta built from (m, cos theta, phi) give back the same mass and "
    "angles. unsat = holds for every real input satisfying the stated preconditions."
)
NOTE = (
    "reals stand in for doubles; velocities with beta^2 > 1e-14 (the code's guard; the sliver below it is outside the claim); "
    "round trips through several vertices / branching topologies are outside the bound (nested radicals undecided by nlsat, see DESIGN)"
)
TECHNIQUE = "symbolic execution of angle.py / dalitz.py / helicity_angle.py / cal_angle.py kernels on a symbolic tensorflow substitute; z3 nlsat per obligation with cross-multiplied rational identities; sat models replayed on real TensorFlow"
EXPLANATION = CLAIM
FUNCTIONS = [
    "tf_pwa/angle.py:LorentzVector.boost", "tf_pwa/angle.py:LorentzVector.rest_vector", "tf_pwa/angle.py:LorentzVector.boost_vector",
    "tf_pwa/angle.py:LorentzVector.boost_matrix", "tf_pwa/angle.py:LorentzVector.M2", "tf_pwa/angle.py:LorentzVector.M", "tf_pwa/angle.py:LorentzVector.Dot",
    "tf_pwa/angle.py:LorentzVector.get_metric", "tf_pwa/angle.py:LorentzVector.neg", "tf_pwa/angle.py:Vector3.norm2", "tf_pwa/angle.py:Vector3.dot",
    "tf_pwa/data_trans/dalitz.py:generate_p", "tf_pwa/data_trans/dalitz.py:_generate_fun0", "tf_pwa/data_trans/dalitz.py:Dalitz.generate_p",
    "tf_pwa/data_trans/helicity_angle.py:generate_p", "tf_pwa/data_trans/helicity_angle.py:create_rotate_p",
    "tf_pwa/cal_angle.py:cal_chain_boost", "tf_pwa/angle.py:EulerAngle.angle_zx_z_getx", "tf_pwa/angle.py:Vector3.cross_unit", "tf_pwa/angle.py:Vector3.unit", "tf_pwa/angle.py:Vector3.angle_from",
]
ASSUMPTIONS = [
    "reals stand in for doubles",
    "velocities satisfy 1e-14 < beta^2 < 1 (at or below 1e-14 the code switches to a first-order formula: a guard, outside the exact identity)",
    "Dalitz variables inside the physical region = both radicands of dalitz._generate_fun0 positive, m0 > 0",
    "Euler-angle extraction kernel: |p| > 1e-3 and 2e-3 < theta < pi - 2e-3 (cross_unit replaces a cross product of norm < 1e-14 by a biased one: a guard for degenerate directions, outside the claim)",
    "rotations about the coordinate axes are applied by the harness (tf-pwa has no standalone rotation routine for four-vectors); they exercise M2 / Dot / the metric",
]
TRUSTED = []


def bounds(tier):
    return {"four_vectors": "all real components", "velocity": "1e-14 < beta^2 < 1", "helicity_round_trip": "one vertex (two-body decay at rest)", "topologies_outside": "two or more vertices, branching chains (solver bound, see DESIGN C11)"}


def jobs(tier, seed):
    out = [("boost_roundtrip",), ("boost_invariants",), ("boost_matrix",), ("rest_vector",), ("rotation",), ("dalitz",), ("helicity_vertex",), ("euler_top",), ("chain_boost",)]
    return out


def _vec4(name):
    return [S.real("%s%d" % (name, i)) for i in range(4)]


def _vel(name="v"):
    v = [S.real("%s%d" % (name, i)) for i in range(3)]
    return v


def _pay(kind, names, **kw):
    def f(m):
        d = dict(kind=kind, **kw)
        for n in names:
            d[n] = float(m.get(n, 0.0))
        return d

    return f


P4 = ["p0", "p1", "p2", "p3"]
Q4 = ["q0", "q1", "q2", "q3"]
V3 = ["v0", "v1", "v2"]


def _assume_velocity(vt):
    from tf_pwa.angle import Vector3

    b2 = Vector3.norm2(vt).arr.reshape(-1)[0]
    S.assume(b2 > 1.0e-14)  # the code's guard, same term
    S.assume(b2 < 1)
    return b2


def job_boost_roundtrip(ss):
    from tf_pwa.angle import LorentzVector as lv

    p = _vec4("p")
    v = _vel()
    pt, vt = tensor_of([p]), tensor_of([v])
    _assume_velocity(vt)
    r = lv.boost(lv.boost(pt, vt), -vt).arr[0]
    F = facts()
    ss.witness("boost.reach", F)
    for i in range(4):
        ss.prove("boost.roundtrip[%d]" % i, F, far(term_of(r[i]), p[i].t, 0), key="boost.roundtrip", payload=_pay("roundtrip", P4 + V3),
                 describe="boost(boost(p, v), -v) = p", want_smt2=(i == 0), timeout=60)
    ss.mutant("boost.mutant_roundtrip", F, far(term_of(lv.boost(lv.boost(pt, vt), vt).arr[0][1]), p[1].t, 0))


def job_boost_invariants(ss):
    from tf_pwa.angle import LorentzVector as lv

    p, q = _vec4("p"), _vec4("q")
    v = _vel()
    pt, qt, vt = tensor_of([p]), tensor_of([q]), tensor_of([v])
    _assume_velocity(vt)
    bp, bq = lv.boost(pt, vt), lv.boost(qt, vt)
    F = facts()
    m2 = lv.M2(pt).arr[0]
    ss.prove("M2.definition", F, far(term_of(m2), (p[0] * p[0] - p[1] * p[1] - p[2] * p[2] - p[3] * p[3]).t, 0), key="M2.definition", payload=_pay("m2def", P4))
    ss.prove("boost.mass_invariant", F, far(term_of(lv.M2(bp).arr[0]), term_of(m2), 0), key="boost.mass_invariant", payload=_pay("mass_inv", P4 + V3), timeout=60,
             describe="M2(boost(p, v)) = M2(p)")
    ss.prove("boost.dot_invariant", F, far(term_of(lv.Dot(bp, bq).arr[0]), term_of(lv.Dot(pt, qt).arr[0]), 0), key="boost.dot_invariant", payload=_pay("dot_inv", P4 + Q4 + V3), timeout=60,
             describe="Dot(boost(p,v), boost(q,v)) = Dot(p,q)")
    ss.mutant("boost.mutant_mass", F, far(term_of(lv.M2(bp).arr[0]), (p[0] * p[0] + p[1] * p[1]).t, 0))


def job_boost_matrix(ss):
    from tf_pwa.angle import LorentzVector as lv
    from tf_pwa.angle import Vector3
    import tensorflow as tf

    P, q = _vec4("p"), _vec4("q")
    Pt, qt = tensor_of([P]), tensor_of([q])
    S.assume(P[0] > 0)
    bv = lv.boost_vector(Pt)
    _assume_velocity(bv)
    M = lv.boost_matrix(Pt).arr[0]
    direct = lv.boost(qt, bv).arr[0]
    F = facts()
    for i in range(4):
        e = T.add(*[T.mul(term_of(M[i, k]), q[k].t) for k in range(4)])
        ss.prove("boost_matrix.agrees[%d]" % i, F, far(e, term_of(direct[i]), 0), key="boost_matrix.agrees", payload=_pay("bmatrix", P4 + Q4), timeout=60,
                 describe="boost_matrix(P) q = boost(q, boost_vector(P))")
    for i in range(4):
        for k in range(i + 1, 4):
            ss.prove("boost_matrix.symmetric[%d,%d]" % (i, k), F, far(term_of(M[i, k]), term_of(M[k, i]), 0), key="boost_matrix.symmetric", payload=_pay("bmatrix", P4 + Q4))


def job_rest_vector(ss):
    from tf_pwa.angle import LorentzVector as lv

    P = _vec4("p")
    Pt = tensor_of([P])
    S.assume(P[0] > 0)
    m2 = P[0] * P[0] - P[1] * P[1] - P[2] * P[2] - P[3] * P[3]
    S.assume(m2 > 0)
    bv = lv.boost_vector(Pt)
    _assume_velocity(-bv)
    r = lv.rest_vector(Pt, Pt).arr[0]
    F = facts()
    pay = _pay("rest", P4)
    for i in range(1, 4):
        ss.prove("rest_vector.spatial_zero[%d]" % i, F, far(term_of(r[i]), T.ZERO, 0), key="rest_vector", payload=pay, timeout=60, describe="rest_vector(P, P) has zero momentum")
    ss.prove("rest_vector.energy_is_mass", F, T.bor(far(T.mul(term_of(r[0]), term_of(r[0])), m2.t, 0), T.lt(term_of(r[0]), T.ZERO)), key="rest_vector", payload=pay, timeout=60,
             describe="rest_vector(P, P)[0] = M >= 0")
    q = _vec4("q")
    qt = tensor_of([q])
    rq = lv.rest_vector(Pt, qt)
    ss.prove("rest_vector.dot", facts(), far(T.mul(term_of(rq.arr[0][0]), term_of(r[0])), term_of(lv.Dot(Pt, qt).arr[0]), 0), key="rest_vector", payload=_pay("rest_dot", P4 + Q4), timeout=60,
             describe="energy of q in the rest frame of P times M = P.q")


def job_rotation(ss):
    from tf_pwa.angle import LorentzVector as lv

    p, q = _vec4("p"), _vec4("q")
    a = S.angle("phi", D=1)
    c, s = a.cos(), a.sin()
    F = facts()
    for axis in range(3):
        i, k = [(2, 3), (3, 1), (1, 2)][axis]

        def rot(x):
            y = list(x)
            y[i] = c * x[i] - s * x[k]
            y[k] = s * x[i] + c * x[k]
            return y

        rp, rq = tensor_of([rot(p)]), tensor_of([rot(q)])
        ss.prove("rotation.dot_invariant[axis=%d]" % axis, F, far(term_of(lv.Dot(rp, rq).arr[0]), term_of(lv.Dot(tensor_of([p]), tensor_of([q])).arr[0]), 0), key="rotation.invariant",
                 payload=lambda m, axis=axis: dict(kind="rotation", axis=axis, phi=model_angle(m, "phi", 1), **{n: float(m.get(n, 0)) for n in P4 + Q4}))
        ss.prove("rotation.mass_invariant[axis=%d]" % axis, F, far(term_of(lv.M2(rp).arr[0]), term_of(lv.M2(tensor_of([p])).arr[0]), 0), key="rotation.invariant",
                 payload=lambda m, axis=axis: dict(kind="rotation", axis=axis, phi=model_angle(m, "phi", 1), **{n: float(m.get(n, 0)) for n in P4 + Q4}))


def job_dalitz(ss):
    from tf_pwa.angle import LorentzVector as lv
    from tf_pwa.data_trans import dalitz

    m0, m1, m2, m3 = [S.real("m%d" % i) for i in range(4)]
    s12, s23 = S.real("s12"), S.real("s23")
    S.assume(m0 > 0)
    for x in (m1, m2, m3):
        S.assume(x >= 0)
    p1, p2, p3 = dalitz.Dalitz(m0, m1, m2, m3).generate_p(tensor_of([s12]), tensor_of([s23]))
    # physical region (away from its boundary): every square root / division the
    # code performed is defined
    for kind, cond, pc in list(S.ctx().definedness):
        S.ctx().fact(cond)
    F = facts()
    names = ["m0", "m1", "m2", "m3", "s12", "s23"]
    pay = _pay("dalitz", names)
    ss.witness("dalitz.reach", F)
    tot = p1 + p2 + p3
    tgt = [m0.t, T.ZERO, T.ZERO, T.ZERO]
    for i in range(4):
        ss.prove("dalitz.momentum_sum[%d]" % i, F, far(term_of(tot.arr[0][i]), tgt[i], 0), key="dalitz", payload=pay, timeout=60, describe="p1+p2+p3 = (m0,0,0,0)")
    for k, (pp, mm) in enumerate(((p1, m1), (p2, m2), (p3, m3))):
        ss.prove("dalitz.on_shell[%d]" % (k + 1), F, far(term_of(lv.M2(pp).arr[0]), (mm * mm).t, 0), key="dalitz", payload=pay, timeout=60, describe="p_i^2 = m_i^2")
    ss.prove("dalitz.s12", F, far(term_of(lv.M2(p1 + p2).arr[0]), s12.t, 0), key="dalitz", payload=pay, timeout=60, describe="(p1+p2)^2 = s12")
    ss.prove("dalitz.s23", F, far(term_of(lv.M2(p2 + p3).arr[0]), s23.t, 0), key="dalitz", payload=pay, timeout=60, describe="(p2+p3)^2 = s23")
    ss.mutant("dalitz.mutant", F, far(term_of(lv.M2(p1 + p3).arr[0]), s23.t, 0))


def job_helicity_vertex(ss):
    """one two-body vertex: momenta from (M, m1, m2, cos theta, phi) -> mass and angles back"""
    from tf_pwa.angle import LorentzVector as lv
    from tf_pwa.data_trans import helicity_angle as ha

    M, m1, m2 = S.real("M"), S.real("m1"), S.real("m2")
    S.assume(m1 >= 0)
    S.assume(m2 >= 0)
    S.assume(M > m1 + m2)
    phi = S.angle("phi", D=1)
    ct = S.real("ct")
    S.assume(ct > -1)
    S.assume(ct < 1)
    pb, pa = ha.generate_p([tensor_of([M]), tensor_of([m1])], [tensor_of([m2])], [tensor_of([ct])], [tensor_of([phi])])  # returned order: spectator first
    F = facts()
    pa, pb = pa.arr[0], pb.arr[0]
    vals = simp(F, *[SymReal(term_of(x)) for x in list(pa) + list(pb)])
    pa, pb = vals[:4], vals[4:]
    pay = lambda m: dict(kind="helicity_vertex", M=float(m.get("M", 1)), m1=float(m.get("m1", 0)), m2=float(m.get("m2", 0)), ct=float(m.get("ct", 0)), phi=model_angle(m, "phi", 1))
    ss.witness("helicity.reach", F)
    # masses
    ss.prove("helicity.mass1", F, far((pa[0] * pa[0] - pa[1] * pa[1] - pa[2] * pa[2] - pa[3] * pa[3]).t, (m1 * m1).t, 0), key="helicity_vertex", payload=pay, timeout=60)
    ss.prove("helicity.mass2", F, far((pb[0] * pb[0] - pb[1] * pb[1] - pb[2] * pb[2] - pb[3] * pb[3]).t, (m2 * m2).t, 0), key="helicity_vertex", payload=pay, timeout=60)
    tot = [pa[i] + pb[i] for i in range(4)]
    tgt = [M.t, T.ZERO, T.ZERO, T.ZERO]
    for i in range(4):
        ss.prove("helicity.sum[%d]" % i, F, far(tot[i].t, tgt[i], 0), key="helicity_vertex", payload=pay, timeout=60, describe="daughters add up to the mother at rest")
    # angles back: cos theta = pz/|p|, (cos phi, sin phi) = (px, py)/pT
    pp = (pa[1] * pa[1] + pa[2] * pa[2] + pa[3] * pa[3]).sqrt()
    pT = (pa[1] * pa[1] + pa[2] * pa[2]).sqrt()
    c, s = phi.cos(), phi.sin()
    ss.prove("helicity.costheta_back", F, far(pa[3].t, (ct * pp).t, 0), key="helicity_vertex", payload=pay, timeout=60, describe="pz/|p| = cos theta")
    ss.prove("helicity.phi_back_cos", F, far(pa[1].t, (c * pT).t, 0), key="helicity_vertex", payload=pay, timeout=60, describe="px/pT = cos phi")
    ss.prove("helicity.phi_back_sin", F, far(pa[2].t, (s * pT).t, 0), key="helicity_vertex", payload=pay, timeout=60, describe="py/pT = sin phi")


def job_euler_top(ss):
    """momenta -> angles kernel for a vertex in a frame with fixed axes:
    EulerAngle.angle_zx_z_getx(z, x, p) returns the polar angles of p"""
    from tf_pwa.angle import EulerAngle

    th = S.angle("theta", D=1, lo=Fraction(1, 1000), hi=1000)  # 0 < theta < pi
    ph = S.angle("phi", D=1)
    r = S.real("r")
    S.assume(r > Fraction(1, 1000))  # |p| > 1e-3: away from the |z1 x z2| < 1e-14 guard of cross_unit
    st, ct = th.sin(), th.cos()
    sp, cp = ph.sin(), ph.cos()
    lemma(ss, "euler.lemma_sin_theta_pos", st > 0)
    z2 = tensor_of([[r * st * cp, r * st * sp, r * ct]])
    z1 = np.array([[0.0, 0.0, 1.0]])
    x1 = np.array([[1.0, 0.0, 0.0]])
    ang, x2 = EulerAngle.angle_zx_z_getx(z1, x1, z2)
    F = facts()
    pay = lambda m: dict(kind="euler_top", r=float(m.get("r", 1)), theta=model_angle(m, "theta", 1), phi=model_angle(m, "phi", 1))
    a = ang["alpha"].arr.reshape(-1)[0]
    b = ang["beta"].arr.reshape(-1)[0]
    ca, sa = a.cos_sin()
    cb, sb = b.cos_sin()
    ca, sa, cb, sb = simp(F, ca, sa, cb, sb)
    ss.witness("euler.reach", F)
    ss.prove("euler.alpha_cos", F, far(ca.t, cp.t, 0), key="euler_top", payload=pay, timeout=60, describe="cos(alpha) = cos(phi) of the momentum direction")
    ss.prove("euler.alpha_sin", F, far(sa.t, sp.t, 0), key="euler_top", payload=pay, timeout=60)
    ss.prove("euler.beta_cos", F, far(cb.t, ct.t, 0), key="euler_top", payload=pay, timeout=60, describe="cos(beta) = cos(theta)")
    ss.prove("euler.beta_sin", F, far(sb.t, st.t, 0), key="euler_top", payload=pay, timeout=60)
    g = ang["gamma"]
    gv = g.arr.reshape(-1)[0] if hasattr(g, "arr") else g
    ss.concrete("euler.gamma_zero", (not isinstance(gv, SymReal)) and float(gv) == 0.0 or (isinstance(gv, SymReal) and gv.t is T.ZERO), key="euler_top", payload=dict(kind="euler_gamma"))
    # the new x axis is the unit vector of (y x z2) x ... : orthogonal to z2 and of unit length
    xv = [SymReal(term_of(e)) for e in x2.arr.reshape(-1)]
    xv = simp(F, *xv)
    dot = xv[0] * (r * st * cp) + xv[1] * (r * st * sp) + xv[2] * (r * ct)
    ss.prove("euler.x_axis_orthogonal", F, far(dot.t, T.ZERO, 0), key="euler_top", payload=pay, timeout=60)
    ss.prove("euler.x_axis_unit", F, far((xv[0] * xv[0] + xv[1] * xv[1] + xv[2] * xv[2]).t, T.ONE, 0), key="euler_top", payload=pay, timeout=60)
    ss.mutant("euler.mutant", F, far(sa.t, (-sp).t, 0))


def job_chain_boost(ss):
    """cal_chain_boost: every momentum used in a decay vertex is the particle's momentum boosted successively
    into each ancestor's rest frame along the chain (boost kernel replaced by an uninterpreted recorder)"""
    import tf_pwa.cal_angle as CA
    from tf_pwa.amp import DecayChain, get_decay, get_particle
    import tensorflow as tf

    def R(a, b):
        at = [term_of(e) for e in a.arr.reshape(-1)]
        bt = [term_of(e) for e in b.arr.reshape(-1)]
        return tensor_of([[SymReal(T.uf("R%d" % i, *at, *bt)) for i in range(4)]])

    uid = [0]

    def P(n):
        uid[0] += 1
        return get_particle("%s_%d" % (n, uid[0]), mass=1.0)

    def topologies():
        A, B, C, D, E, F = [P(n) for n in "ABCDEF"]
        Rr, Sr, Tr = P("R"), P("S"), P("T")
        dec = get_decay
        yield "3body", DecayChain([dec(A, [Rr, C]), dec(Rr, [B, D])])
        A, B, C, D, E, F = [P(n) for n in "ABCDEF"]
        Rr, Sr, Tr = P("R"), P("S"), P("T")
        yield "4seq", DecayChain([dec(A, [Rr, C]), dec(Rr, [Sr, D]), dec(Sr, [B, E])])
        A, B, C, D, E, F = [P(n) for n in "ABCDEF"]
        Rr, Sr, Tr = P("R"), P("S"), P("T")
        yield "4branch", DecayChain([dec(A, [Rr, Sr]), dec(Rr, [B, C]), dec(Sr, [D, E])])
        A, B, C, D, E, F = [P(n) for n in "ABCDEF"]
        Rr, Sr, Tr = P("R"), P("S"), P("T")
        yield "5branch", DecayChain([dec(A, [Rr, Sr]), dec(Rr, [Tr, C]), dec(Tr, [B, F]), dec(Sr, [D, E])])
        A, B, C, D, E, F = [P(n) for n in "ABCDEF"]
        Rr, Sr, Tr = P("R"), P("S"), P("T")
        yield "5seq", DecayChain([dec(A, [Rr, C]), dec(Rr, [Sr, D]), dec(Sr, [Tr, E]), dec(Tr, [B, F])])

    class LVProxy:
        def __getattr__(self, k):
            return getattr(CA_LV, k)

        rest_vector = staticmethod(R)

    CA_LV = CA.LorentzVector
    CA.LorentzVector = LVProxy()
    try:
        for name, chain in topologies():
            parts = [chain.top] + list(chain.inner) + list(chain.outs)
            data = {p: {"p": tensor_of([[S.real("p_%s_%d" % (str(p), i)) for i in range(4)]])} for p in parts}
            got = CA.cal_chain_boost(data, chain)
            producer = {}
            for d in chain:
                for o in d.outs:
                    producer[o] = d

            def spec(d, j, memo={}):
                key = (id(d), id(j), name)
                if key in memo:
                    return memo[key]
                if d.core == chain.top:
                    r = R(data[d.core]["p"], data[j]["p"])
                else:
                    par = producer[d.core]
                    r = R(spec(par, d.core), spec(par, j))
                memo[key] = r
                return r

            bad = []
            n = 0
            for d in chain:
                for j in d.outs:
                    n += 1
                    g = got[d]["rest_p"][j]
                    e = spec(d, j)
                    if any(term_of(x) is not term_of(y) for x, y in zip(g.arr.reshape(-1), e.arr.reshape(-1))):
                        bad.append("%s:%s" % (d, j))
            ss.concrete("chain_boost.structure[%s]" % name, not bad, key="chain_boost.structure", payload=dict(kind="chain_boost", topology=name, bad=bad),
                        describe="each daughter momentum of each vertex is boosted through exactly the chain of ancestor rest frames (%d vertex-daughter pairs; identity of uninterpreted boost applications)" % n)
    finally:
        CA.LorentzVector = CA_LV


def run_job(job):
    ss = Session(job)
    globals()["job_" + job[0]](ss, *job[1:])
    return ss.records
