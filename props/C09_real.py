"""C09: replays / conformance on the real code."""
import math

import numpy as np


def conformance(tier):
    from tf_pwa.err_num import NumberError, cal_err
    from tf_pwa.variable import Bound

    A, B = NumberError(2.0, 0.3), NumberError(-1.5, 0.2)
    out = {}
    for nm, r in (("add", A + B), ("sub", A - B), ("mul", A * B), ("div", A / B), ("pow3", A ** 3), ("log", A.log()), ("exp", A.exp()), ("neg", -A),
                  ("muls", A * 2.5), ("divs", A / 2.5), ("adds", A + 1.0)):
        out[nm] = [float(r.value), float(r.error)]
    r = cal_err(lambda x, y: x * x / y, A, B, grad=lambda x, y: [2 * x / y, -x * x / y / y])
    out["cal_err"] = [float(r.value), float(r.error)]
    return out


def _ops():
    from tf_pwa.err_num import NumberError, cal_err

    return NumberError, cal_err


def replay(p):
    NumberError, cal_err = _ops()
    kind = p["kind"]
    m = p["model"]
    g = lambda k, d=1.0: float(m.get(k, d))
    try:
        if kind == "errnum":
            op = p["op"]
            a, b, c, sa, sb = g("a"), g("b"), g("c"), g("sa", 0.1), g("sb", 0.1)
            cases = []  # (result NumberError, value function of (a, b), sigmas)
            A, B = NumberError(a, sa), NumberError(b, sb)
            if op == "add":
                cases = [(A + B, lambda x, y: x + y, (sa, sb)), (A + c, lambda x, y: x + c, (sa, 0))]
            elif op == "sub":
                cases = [(A - B, lambda x, y: x - y, (sa, sb)), (A - c, lambda x, y: x - c, (sa, 0))]
            elif op == "neg":
                cases = [(-A, lambda x, y: -x, (sa, 0))]
            elif op == "mul":
                cases = [(A * B, lambda x, y: x * y, (sa, sb)), (A * c, lambda x, y: x * c, (sa, 0))]
            elif op == "div":
                cases = [(A / B, lambda x, y: x / y, (sa, sb)), (A / c, lambda x, y: x / c, (sa, 0))]
            elif op == "pow":
                cases = [(A ** 3, lambda x, y: x**3, (sa, 0)), (A ** (-2), lambda x, y: x ** (-2), (sa, 0)), (A ** B, lambda x, y: x**y, (sa, sb))]
            elif op == "rpow":
                cases = [(c ** A, lambda x, y: c**x, (sa, 0))]
            elif op == "log":
                cases = [(A.log(), lambda x, y: math.log(x), (sa, 0))]
            elif op == "exp":
                cases = [(A.exp(), lambda x, y: math.exp(x), (sa, 0))]
            elif op == "apply":
                cases = [(A.apply(lambda x: x**3 + 2 * x, grad=lambda x: 3 * x * x + 2), lambda x, y: x**3 + 2 * x, (sa, 0))]
            elif op == "cal_err":
                cases = [(cal_err(lambda x, y, z: x * x / y + z, A, B, c, grad=lambda x, y, z: [2 * x / y, -x * x / (y * y), 1]), lambda x, y: x * x / y + c, (sa, sb))]
            elif op == "radd_like":
                cc, sc = g("cc"), g("sc", 0.1)
                r = (A * B) / NumberError(cc, sc)
                h = 1e-6
                f = lambda x, y, z: x * y / z
                d = [(f(a + h, b, cc) - f(a - h, b, cc)) / (2 * h), (f(a, b + h, cc) - f(a, b - h, cc)) / (2 * h), (f(a, b, cc + h) - f(a, b, cc - h)) / (2 * h)]
                ref = math.sqrt((d[0] * sa) ** 2 + (d[1] * sb) ** 2 + (d[2] * sc) ** 2)
                err = abs(float(r.error) - ref)
                return {"reproduced": bool(err > 1e-6 * (1 + abs(ref)) or float(r.error) < 0), "error_magnitude": err, "got": float(r.error), "expected": ref}
            worst, detail = 0.0, None
            for r, f, (s1, s2) in cases:
                h = 1e-6 * max(1.0, abs(a))
                d1 = (f(a + h, b) - f(a - h, b)) / (2 * h)
                h2 = 1e-6 * max(1.0, abs(b))
                d2 = (f(a, b + h2) - f(a, b - h2)) / (2 * h2)
                ref = math.sqrt((d1 * s1) ** 2 + (d2 * s2) ** 2)
                got = float(r.error)
                e = abs(got - ref) / (1 + abs(ref))
                if got < 0:
                    e = max(e, abs(got) / (1 + abs(ref)) + 1e-3)
                if e > worst:
                    worst, detail = e, {"got": got, "expected": ref}
            return {"reproduced": bool(worst > 1e-5), "error_magnitude": worst, "detail": detail, "kind": kind, "op": op}
        if kind == "trans_error_matrix":
            import tensorflow as tf
            from tf_pwa.variable import Bound, VarsManager

            bk = p["bound"]
            b = {"two": lambda: Bound(-1.5, 2.0), "lower": lambda: Bound(0.5, None), "upper": lambda: Bound(None, 3.0), "custom": lambda: Bound(0.0, 1.0, func="a+(b-a)*x**2/(1+x**2)")}[bk]()
            vm = VarsManager(dtype=tf.float64)
            for n in ("a", "b", "c"):
                vm.add_real_var(n, value=1.0)
            vm.bnd_dic["b"] = b
            if bk == "two":
                u = g("u_xb", 0.3)
                xb = 2 * math.atan(u)
            else:
                xb = g("xb", 0.3)
            xs = [g("xa"), xb, g("xc")]
            V = np.zeros((3, 3))
            for i in range(3):
                for k in range(i, 3):
                    V[i, k] = V[k, i] = g("V_%d_%d" % (i, k))
            out = vm.trans_error_matrix(V, xs)
            h = 1e-6
            dy = (b.get_x2y(xb + h) - b.get_x2y(xb - h)) / (2 * h)
            d = np.array([1.0, dy, 1.0])
            ref = d[:, None] * V * d[None, :]
            err = float(np.max(np.abs(np.asarray(out, dtype=float) - ref)))
            return {"reproduced": bool(err > 1e-5 * (1 + np.max(np.abs(ref)))), "error_magnitude": err}
        if kind == "params_trans_vector":
            import tensorflow as tf
            from tf_pwa.params_trans import ParamsTrans
            from tf_pwa.variable import VarsManager

            vm = VarsManager(dtype=tf.float64)
            th = {"a": g("th_a", 1.5), "b": g("th_b", 0.7), "c": g("th_c", 2.0), "f": g("th_f", 0.4)}
            for n in ("a", "b", "c", "f"):
                vm.add_real_var(n, value=th[n])
            vm.set_fix("f")
            for n in ("a", "b", "c", "f"):
                vm.variables[n].assign(th[n])
            V = np.zeros((3, 3))
            dflt = [[0.04, 0.01, 0.0], [0.01, 0.09, -0.02], [0.0, -0.02, 0.16]]
            for i in range(3):
                for k in range(i, 3):
                    V[i, k] = V[k, i] = g("V_%d%d" % (i, k), dflt[i][k])
            pt = ParamsTrans(vm, tf.convert_to_tensor(V))
            with pt.trans() as q:
                a, b, c = q["a"], q["b"], q["c"]
                yv = tf.stack([a * b, a + c * c])
            J = np.array([[th["b"], th["a"], 0.0], [1.0, 0.0, 2 * th["c"]]])
            ref = J @ V @ J.T
            try:
                out = np.asarray(pt.get_error_matrix(yv, keep=True), dtype=float)
            except Exception as e:
                return {"reproduced": bool(p.get("expect_raise")), "raised": "%s: %s" % (type(e).__name__, str(e)[:200])}
            if out.shape != ref.shape:
                return {"reproduced": True, "shape": list(out.shape)}
            err = float(np.max(np.abs(out - ref)))
            return {"reproduced": bool(err > 1e-9 * (1 + np.max(np.abs(ref)))), "error_magnitude": err, "returned": out.tolist(), "J_V_JT": ref.tolist()}
    except Exception as e:
        return {"reproduced": False, "error": "%s: %s" % (type(e).__name__, str(e)[:300])}
    return {"reproduced": False, "error": "unknown kind %s" % kind}
