"""C05 — every evaluation strategy returns the same density (algebraic strategies)."""
from __future__ import annotations

import itertools
import random

import numpy as np

from symx import scalar as S
from symx import term as T
from symx.harness import Session
from symx.scalar import SymComplex, SymReal

from . import amptools as AT
from .common import EPS, facts, far, far_c, prove_close_poly, simp, tensor_of, term_of

PID = "C05"
LEVEL = "translation_validation"
CLAIM = (
    "Translation validation of the library's own tensor contraction: tf_pwa.einsum.einsum is executed on tensors whose elements are "
    "distinct symbolic reals, for (1) every index expression and shape the amplitude builder actually emits on a catalogue of decay "
    "structures (collected by intercepting the call while real models are evaluated) and (2) all expressions with <= 3 operands, <= 4 "
    "distinct indices, rank <= 3, extents in {1,2}, with and without an ellipsis (a seeded subset of the 409832 such expressions: 150 in quick, 2400 in thorough), each under several iteration orders of the Python sets the routine iterates (an order that depends on the per-process string hash seed: 4 rankings in quick, all 24 in thorough); "
    "each output element is compared by z3 with the explicit nested-sum contraction written in the harness (a multilinear polynomial "
    "identity); expressions the routine declines by raising are counted, not failed. The cached_amp, cached_shape and base_factor "
    "amplitude models with their preprocessors are compared with the default model on real configurations with symbolic couplings: z3 "
    "decides that the densities agree for every coupling value."
)
NOTE = (
    "graph / XLA compilation, tf.data pipelines, the p4_directly model and the cached-integral likelihood models run inside "
    "TensorFlow's runtime or need whole-event kinematics and are outside the claim; kinematics of the strategy comparison are concrete "
    "seeded events; opt_einsum's contract_path is used as the real code uses it (trusted to return a valid pairwise path)"
)
TECHNIQUE = "symbolic execution of tf_pwa.einsum.einsum on tensors of symbolic scalars against a reference contraction; per-element polynomial identities decided by z3; strategy models compared on symbolic couplings"
CLAIM_EXTRA = 'The cached-integral normalisation (opt_int.build_int_matrix at a concrete parameter point with signed event weights, build_params_matrix at symbolic couplings) is decided to equal sum_k w_k f(y_k) for every coupling value.'
NOTE_EXTRA = 'of the cached-integral likelihood models only the integral matrix algebra is encoded (tf.function wrappers, batching, gradients are not)'
EXPLANATION = CLAIM + " " + CLAIM_EXTRA
FUNCTIONS = [
    "tf_pwa/experimental/opt_int.py:build_int_matrix", "tf_pwa/experimental/opt_int.py:build_params_matrix", "tf_pwa/experimental/opt_int.py:build_sum_amplitude", 
    "tf_pwa/einsum.py:einsum", "tf_pwa/einsum.py:replace_ellipsis", "tf_pwa/einsum.py:remove_size1", "tf_pwa/einsum.py:ordered_indices", "tf_pwa/einsum.py:tensor_einsum_reduce_sum",
    "tf_pwa/amp/amp.py:CachedAmpAmplitudeModel.pdf", "tf_pwa/amp/amp.py:CachedShapeAmplitudeModel.pdf", "tf_pwa/amp/amp.py:FactorAmplitudeModel.pdf",
    "tf_pwa/amp/preprocess.py:CachedAmpPreProcessor.build_cached", "tf_pwa/amp/preprocess.py:CachedShapePreProcessor.build_cached", "tf_pwa/amp/preprocess.py:CachedAnglePreProcessor.build_cached",
    "tf_pwa/experimental/build_amp.py:build_angle_amp_matrix", "tf_pwa/experimental/build_amp.py:build_params_vector", "tf_pwa/experimental/build_amp.py:build_amp_matrix",
    "tf_pwa/amp/core.py:DecayChain.get_amp", "tf_pwa/amp/core.py:DecayGroup.get_factor_angle_amp",
]
ASSUMPTIONS = [
    "opt_einsum.contract_path returns a valid pairwise contraction order (its output is consumed exactly as the real code consumes it)",
    "strategy comparison: kinematics concrete (seeded phase-space events), couplings symbolic with every cartesian component in [-2, 2], absolute tolerance 1e-9 (the strategies associate the same float constants in different orders)",
]
TRUSTED = ["opt_einsum.contract_path"]


def bounds(tier):
    return {"operands": "<= 3", "distinct_indices": "<= 4", "rank": "<= 3", "extents": [1, 2], "ellipsis": [False, True], "enumeration": "seeded subset of 150 of 409832 expressions, 4 set-iteration rankings each" if tier == "quick" else "seeded subset of 2400 of 409832 expressions, all 24 set-iteration rankings each",
            "strategies": ["cached_amp", "cached_shape", "base_factor+cached_angle"], "models": ["CFG3", "CFG_SPIN"] + (["CFG_HALF"] if tier == "thorough" else [])}


def _enumerate_exprs():
    """index expressions over letters abcd: operands of rank 0..3 (no repeated letter inside an operand), output any subset (ordered) of used letters"""
    letters = "abcd"
    ops = [""]
    for r in (1, 2, 3):
        for p in itertools.permutations(letters, r):
            ops.append("".join(p))
    out = []
    for n in (1, 2, 3):
        for combo in itertools.combinations_with_replacement(ops, n):
            used = sorted(set("".join(combo)))
            if not used or len(used) > 4:
                continue
            # canonical: letters used are a prefix of 'abcd'
            if used != list(letters[: len(used)]):
                continue
            for r in range(0, min(3, len(used)) + 1):
                for o in itertools.permutations(used, r):
                    out.append((",".join(combo), "".join(o)))
    return out


def jobs(tier, seed):
    out = [("catalogue",)]
    exprs = _enumerate_exprs()
    rnd = random.Random(seed)
    if tier == "quick":
        sel = rnd.sample(exprs, 150)
        chunks = [sel[i : i + 25] for i in range(0, len(sel), 25)]
    else:
        exprs = rnd.sample(exprs, 2400)
        chunks = [exprs[i : i + 50] for i in range(0, len(exprs), 50)]
    for i, ch in enumerate(chunks):
        out.append(("enum", i, tuple(ch), seed, tier == "thorough"))
    models = ["CFG3", "CFG_SPIN"] + (["CFG_HALF"] if tier == "thorough" else [])
    for m in models:
        for st in ("cached_amp", "cached_shape", "base_factor"):
            out.append(("strategy", m, st))
        out.append(("cached_int", m))
    return out


def _reference(expr, arrs):
    ins, out = expr.split("->")
    ins = ins.split(",")
    dims = {}
    for s, a in zip(ins, arrs):
        for c, n in zip(s, a.shape):
            dims[c] = max(dims.get(c, 1), n)
    sum_idx = [c for c in dims if c not in out]
    res = np.empty(tuple(dims[c] for c in out), dtype=object)
    for oidx in np.ndindex(*res.shape):
        env = dict(zip(out, oidx))
        acc = SymReal(T.ZERO)
        for sidx in np.ndindex(*[dims[c] for c in sum_idx]):
            env.update(zip(sum_idx, sidx))
            term = SymReal(T.ONE)
            for s, a in zip(ins, arrs):
                term = term * a[tuple(env[c] if a.shape[i] != 1 else 0 for i, c in enumerate(s))]
            acc = acc + term
        res[oidx] = acc
    return res


_uid = itertools.count()


def _sym_tensor(shape, tag):
    a = np.empty(shape, dtype=object)
    for idx in np.ndindex(*shape):
        a[idx] = S.real("%s_%d_%s" % (tag, next(_uid), "_".join(map(str, idx))))
    return a


def _rankings(letters, n, rnd, exhaustive=False):
    """iteration orders of the sets inside tf_pwa.einsum (see props/ordset.py): natural, reversed, seeded shuffles or all permutations"""
    letters = sorted(letters)
    if exhaustive and len(letters) <= 4:
        return ["".join(p) for p in itertools.permutations(letters)]
    out = ["".join(letters), "".join(reversed(letters))]
    while len(out) < n:
        l = list(letters)
        rnd.shuffle(l)
        if "".join(l) not in out:
            out.append("".join(l))
        if len(out) >= _fact(len(letters)):
            break
    return out


def _fact(n):
    r = 1
    for i in range(2, n + 1):
        r *= i
    return r


def _check_einsum(ss, name, expr, shapes, key, rankings):
    """the real routine on symbolic tensors, once per set-iteration ranking, against the explicit contraction"""
    import tf_pwa.einsum as E

    from . import ordset

    arrs = [_sym_tensor(s, "t%d" % i) for i, s in enumerate(shapes)]
    tens = [tensor_of(a) for a in arrs]
    # reference with the ellipsis expanded to fresh upper-case letters
    ins, out = expr.split("->")
    ins = ins.split(",")
    if "..." in expr:
        pool = "ABCDEFGH"
        new_ins = []
        nell = 0
        for s, a in zip(ins, arrs):
            if "..." in s:
                nell = max(nell, a.ndim - (len(s) - 3))
        ell = pool[:nell]
        for s, a in zip(ins, arrs):
            if "..." in s:
                k = a.ndim - (len(s) - 3)
                s = s.replace("...", ell[nell - k :] if k else "")
            new_ins.append(s)
        ref_expr = ",".join(new_ins) + "->" + out.replace("...", ell)
    else:
        ref_expr = expr
    ref = _reference(ref_expr, arrs)
    res = "checked"
    ordset.install(E)
    try:
        for rk in rankings:
            ordset.set_ranking(rk)
            payload = dict(kind="einsum", expr=expr, shapes=[list(s) for s in shapes], ranking=rk)
            nm = "%s@%s" % (name, rk)
            try:
                got = E.einsum(expr, *tens)
            except Exception as e:
                ss.note(name=nm, declined="%s: %s" % (type(e).__name__, str(e)[:80]))
                res = "declined"
                continue
            ga = got.arr
            if ga.shape != ref.shape:
                ss.concrete(nm + ".shape", False, key=key, payload=dict(payload, got_shape=list(ga.shape), expected_shape=list(ref.shape)), describe="result shape")
                res = "bad"
                continue
            bad = []
            for idx in np.ndindex(*ref.shape):
                g, r = ga[idx], ref[idx]
                gt = g.t if isinstance(g, SymReal) else T.const(float(g), "R")
                bad.append(T.ne(gt, r.t))
            goal = T.bor(*bad) if bad else T.FALSE
            ss.prove(nm, [], goal, key=key, payload=lambda m, payload=payload: dict(payload, model={k: float(v) for k, v in m.items()}), timeout=30, split=False,
                     describe="tf_pwa.einsum.einsum(%s) equals the explicit contraction, element by element (set iteration ranking %s)" % (expr, rk))
    finally:
        ordset.set_ranking(None)
        ordset.uninstall(E)
    return res


def job_catalogue(ss):
    """every (expression, shapes) the amplitude builder emits on the model catalogue"""
    import tf_pwa.amp.core as core

    seen = {}
    real = core.einsum

    def rec(expr, *args, **kw):
        key = (expr, tuple(tuple(int(x) for x in a.shape) for a in args))
        seen.setdefault(key, 0)
        seen[key] += 1
        return real(expr, *args, **kw)

    core.einsum = rec
    try:
        for name in ("CFG3", "CFG_SPIN", "CFG_HALF", "CFG4"):
            amp, config = AT.build_model(getattr(AT, name))
            data = AT.phsp_data(config, 2)
            amp(data)
    finally:
        core.einsum = real
    n = 0
    rnd = random.Random(7)
    for (expr, shapes), cnt in sorted(seen.items()):
        n += 1
        letters = set(expr) - set(".->,")
        _check_einsum(ss, "einsum.catalogue[%s;%s]" % (expr, "x".join("".join(map(str, s)) for s in shapes)), expr, shapes, "einsum.catalogue", _rankings(letters, 4, rnd))
    ss.note(name="einsum.catalogue", programs=n)
    ss.concrete("einsum.catalogue_nonempty", n > 0, key="einsum.catalogue", payload=dict(kind="catalogue", n=n), describe="%d distinct (expression, shapes) emitted by DecayChain.get_amp" % n)


def job_enum(ss, chunk_id, chunk, seed, exhaustive=False):
    rnd = random.Random(seed * 1000 + chunk_id)
    counts = {"checked": 0, "declined": 0, "bad": 0}
    for ins, out in chunk:
        letters = sorted(set(ins.replace(",", "")))
        ext = {c: rnd.choice([1, 2, 2]) for c in letters}
        ops = ins.split(",")
        shapes = [tuple(ext[c] for c in o) for o in ops]
        use_ell = rnd.random() < 0.4 and all(len(o) >= 1 for o in ops)
        if use_ell:
            # make the first letter of the output (if shared by all operands as their first index) an ellipsis dimension
            lead = ops[0][0]
            if all(o[0] == lead for o in ops) and (out[:1] == lead):
                expr = ",".join("..." + o[1:] for o in ops) + "->..." + out[1:]
            else:
                expr = ins + "->" + out
        else:
            expr = ins + "->" + out
        r = _check_einsum(ss, "einsum.enum[%s;%s]" % (expr, "x".join("".join(map(str, s)) for s in shapes)), expr, shapes, "einsum.enum", _rankings(letters, 4, rnd, exhaustive=exhaustive))
        counts[r] += 1
    ss.note(name="einsum.enum.chunk%d" % chunk_id, programs=counts["checked"], declined=counts["declined"])


def job_strategy(ss, cfg, strategy):
    opts = {"cached_amp": dict(amp_model="cached_amp", preprocessor="cached_amp"), "cached_shape": dict(amp_model="cached_shape", preprocessor="cached_shape"),
            "base_factor": dict(amp_model="base_factor", preprocessor="cached_angle")}[strategy]
    amp0, config0 = AT.build_model(getattr(AT, cfg))
    th = AT.symbolize_couplings(amp0, cartesian=True)
    for x in th.values():
        S.assume(x >= -2)
        S.assume(x <= 2)
    data0 = AT.phsp_data(config0, 2)
    base = [term_of(e) for e in amp0(data0).arr.reshape(-1)]
    amp1, config1 = AT.build_model(getattr(AT, cfg), **opts)
    # same symbolic couplings by name
    amp1.vm.rp2xy_all()
    for n, x in th.items():
        amp1.vm.variables[n].assign(tensor_of(x))
    # parameters that are concrete (masses, widths): equal by construction of the configuration
    data1 = AT.phsp_data(config1, 2)
    got = [term_of(e) for e in amp1(data1).arr.reshape(-1)]
    F = facts()
    pay = lambda m: dict(kind="strategy", cfg=cfg, strategy=strategy, params=AT.model_params(amp0, m, cartesian=True))
    for i, (g, b) in enumerate(zip(got, base)):
        prove_close_poly(ss, "strategy.density[%s,%s,%d]" % (cfg, strategy, i), g, b, EPS, 2, key="strategy." + strategy, payload=pay, timeout=90,
                 describe="density of the %s strategy = density of plain eager evaluation for all couplings (tolerance 1e-9, every real coupling component in [-2, 2])" % strategy)
    ss.concrete("strategy.model_class[%s,%s]" % (cfg, strategy), type(amp1).__name__ != type(amp0).__name__, key="strategy.vacuity", payload=dict(kind="strategy_class"), describe="a different amplitude-model class is really in use (%s)" % type(amp1).__name__)


CACHED_INT_WEIGHTS = [1.5, -0.75, 0.5]


def job_cached_int(ss, cfg):
    """the cached-integral likelihood's normalisation: Re sum_ij P_ij M_ij with M = build_int_matrix(decay group, MC sample,
    event weights) and P = build_params_matrix equals sum_k w_k f(y_k), for all couplings and all (signed) event weights"""
    from tf_pwa.experimental import opt_int

    amp, config = AT.build_model(getattr(AT, cfg))
    n = 2
    data = AT.phsp_data(config, n)
    # the matrix is built once, at the (concrete, non-zero) parameter values the model has at that moment, and re-used
    # for every later parameter point: exactly the caching the strategy performs
    amp.vm.rp2xy_all()
    for i_, nm_ in enumerate(AT.coupling_names(amp.vm)):
        amp.vm.variables[nm_].assign(tensor_of(SymReal(T.const([0.75, -0.5, 1.25, 0.625][i_ % 4], "R"))))
    dec = amp.decay_group
    ws = [SymReal(T.const(v, "R")) for v in CACHED_INT_WEIGHTS[:n]]
    index, mat = opt_int.build_int_matrix(dec, data, weight=tensor_of(ws))
    th = AT.symbolize_couplings(amp, cartesian=True)
    for x in th.values():
        S.assume(x >= -2)
        S.assume(x <= 2)
    # signed, dyadic event weights (background-subtracted / NLO samples carry negative weights)
    dens = [SymReal(term_of(e)) for e in amp(data).arr.reshape(-1)]
    ref = dens[0] * ws[0]
    for k in range(1, n):
        ref = ref + dens[k] * ws[k]
    pm = opt_int.build_params_matrix(dec)
    import tensorflow as tf

    tot = tf.math.real(tf.reduce_sum(pm * tf.stack([tf.stack(r) for r in mat])))
    got = term_of(tot.arr.reshape(-1)[0])
    F = facts()
    got = simp(F, SymReal(got)).t

    def pay(m):
        return dict(kind="cached_int", cfg=cfg, params=AT.model_params(amp, m, cartesian=True), weights=CACHED_INT_WEIGHTS[:n])

    prove_close_poly(ss, "strategy.cached_int.integral[%s]" % cfg, got, ref.t, EPS, 2, key="strategy.cached_int", payload=pay, timeout=120,
                     describe="cached integral Re sum P_ij M_ij = sum_k w_k f(y_k) for all couplings (components in [-2,2]); event weights signed (1.5, -0.75)")


def run_job(job):
    ss = Session(job)
    globals()["job_" + job[0]](ss, *job[1:])
    return ss.records
