"""C02 — the density does not depend on unphysical bookkeeping conventions."""
from __future__ import annotations

import copy
import itertools
from fractions import Fraction as Fr

import numpy as np

from symx import scalar as S
from symx import term as T
from symx.harness import Session
from symx.scalar import SymComplex, SymReal

from . import amptools as AT
from .C01 import boost, rot, rotation_matrix
from .common import EPS, facts, far, poly_sup_bound, prove_close_poly, tensor_of, term_of

PID = "C02"
LEVEL = "model_checking"
CLAIM = (
    "Bounded symbolic verification on real amplitude models built by ConfigLoader with spinning final-state particles (spin-1 parent "
    "with final spins 1, 1, 0 in three topologies; spin-1/2 parent with a spin-1/2 and a spin-1 final particle; a four-body decay with "
    "two spin-1/2 final particles in two topology classes). For each model the reference configuration and a re-declared one are both "
    "loaded (every permutation of the chain list, so that every chain becomes the alignment reference in turn; align_ref = "
    "'center_mass'; random_z = False; center_mass = True; only_left_angle = True; and pairs of these in thorough); all complex couplings "
    "are symbolic and shared by parameter name; both data pipelines run on the same seeded events (parent at rest and boosted) and "
    "z3 decides that the two densities agree for every value of the couplings."
)
NOTE = (
    "events are sampled (seeded), the couplings are quantified (every cartesian component in [-2, 2]; tolerance 1e-7 of the largest value the density "
    "takes on that box, not below 1e-9: alignment angles come from acos and carry ~1e-8 relative accuracy); r_boost = False (the alignment without Wigner rotation) is not part of the property and not compared"
)
TECHNIQUE = "symbolic execution of two differently declared models (cal_angle alignment + DecayGroup amplitude) on a symbolic tensorflow substitute with shared symbolic couplings; equality of the densities decided by z3 (linear real arithmetic on a monomial abstraction)"
EXPLANATION = CLAIM
FUNCTIONS = [
    "tf_pwa/cal_angle.py:cal_angle_from_particle", "tf_pwa/cal_angle.py:aligned_angle_ref_rule1", "tf_pwa/cal_angle.py:aligned_angle_ref_rule2", "tf_pwa/cal_angle.py:cal_helicity_angle", "tf_pwa/cal_angle.py:struct_momentum",
    "tf_pwa/angle.py:SU2M.get_euler_angle", "tf_pwa/angle.py:SU2M.__mul__", "tf_pwa/angle.py:SU2M.inv", "tf_pwa/amp/core.py:DecayChain.get_amp", "tf_pwa/amp/core.py:DecayGroup.get_amp", "tf_pwa/amp/core.py:DecayGroup.get_chains_map",
    "tf_pwa/particle.py:DecayGroup.topology_structure", "tf_pwa/particle.py:DecayGroup.get_chains_map", "tf_pwa/particle.py:DecayChain.standard_topology", "tf_pwa/config_loader/data.py:SimpleData.cal_angle", "tf_pwa/config_loader/decay_config.py:DecayConfig.get_decay_struct",
]
ASSUMPTIONS = [
    "events: seeded phase-space events, evaluated with the parent at rest and after a seeded rotation and boost (beta up to 0.9)",
    "couplings symbolic with every cartesian component in [-2, 2], shared between the two configurations by parameter name (fixed reference couplings included)",
]
TRUSTED = []

LOCAL = {}


def get_cfg(name):
    return LOCAL[name] if name in LOCAL else getattr(AT, name)


OPTIONS = {
    "align_ref": {"align_ref": "center_mass"},
    "random_z": {"random_z": False},
    "center_mass": {"center_mass": True},
    "only_left_angle": {"only_left_angle": True},
}


def bounds(tier):
    return {"models": ["CFG_SPIN", "CFG_HALF", "CFG4S"], "events": "2 at rest + the same 2 rotated and boosted", "chain_orders": "all permutations", "options": sorted(OPTIONS) + (["pairs of options"] if tier == "thorough" else [])}


def jobs(tier, seed):
    out = []
    for cfg in ("CFG_SPIN", "CFG_HALF", "CFG4S"):
        n = len(get_cfg(cfg)["decay"]["A"])
        for perm in itertools.permutations(range(n)):
            if perm != tuple(range(n)):
                out.append(("variant", cfg, perm, (), seed))
        for o in sorted(OPTIONS):
            out.append(("variant", cfg, tuple(range(n)), (o,), seed))
        if tier == "thorough":
            for o1, o2 in itertools.combinations(sorted(OPTIONS), 2):
                out.append(("variant", cfg, tuple(range(n))[::-1], (o1, o2), seed))
    return out


def variant_cfg(cfg, perm, opts):
    c = copy.deepcopy(get_cfg(cfg))
    chains = c["decay"]["A"]
    c["decay"]["A"] = [chains[i] for i in perm]
    for o in opts:
        c["data"].update(OPTIONS[o])
    return c


def events(config, seed):
    p4 = AT.phsp_p4(config, 2, seed=3)
    rng = np.random.RandomState(77 + seed)
    R = rotation_matrix(rng)
    n = rng.normal(size=3)
    n /= np.linalg.norm(n)
    b = rng.uniform(0.3, 0.9) * n
    moved = {k: boost(rot(v, R), b) for k, v in p4.items()}
    return {k: np.concatenate([p4[k], moved[k]], axis=0) for k in p4}


def _tol(base):
    """1e-7 of the supremum bound of the density over the coupling box: the alignment angles are extracted with acos
    (SU2M.get_euler_angle), which carries only ~1e-8 relative accuracy for nearly aligned frames"""
    sup = poly_sup_bound(base, 2, limit=400000)
    return max(EPS, Fr(1, 10**7) * sup) if sup is not None else EPS


def job_variant(ss, cfg, perm, opts, seed):
    amp0, config0 = AT.build_model(get_cfg(cfg))
    th = AT.symbolize_couplings(amp0, cartesian=True)
    for x in th.values():
        S.assume(x >= -2)
        S.assume(x <= 2)
    p4 = events(config0, seed)
    d0 = [term_of(e) for e in amp0(AT.data_of(config0, p4)).arr.reshape(-1)]
    amp1, config1 = AT.build_model(variant_cfg(cfg, perm, opts))
    amp1.vm.rp2xy_all()
    names1 = set(AT.coupling_names(amp1.vm))
    same_names = names1 == set(th)
    ss.concrete("variant.names[%s,%s,%s]" % (cfg, perm, "+".join(opts)), same_names, key="variant.names", payload=dict(kind="names", cfg=cfg, perm=list(perm), opts=list(opts)),
                describe="both configurations have the same coupling parameters by name")
    for n, x in th.items():
        if n in amp1.vm.variables:
            amp1.vm.variables[n].assign(tensor_of(x))
    d1 = [term_of(e) for e in amp1(AT.data_of(config1, p4)).arr.reshape(-1)]
    pay = lambda m: dict(kind="variant", cfg=cfg, perm=list(perm), opts=list(opts), seed=seed, params=AT.model_params(amp0, m, cartesian=True))
    tag = "%s,%s,%s" % (cfg, "".join(map(str, perm)), "+".join(opts) or "order")
    for e, (a, b) in enumerate(zip(d0, d1)):
        prove_close_poly(ss, "variant.density[%s,%d]" % (tag, e), b, a, _tol(a), 2, key="variant." + ("+".join(opts) or "order"), payload=pay, timeout=90, limit=400000,
                         describe="density under the re-declared configuration = density under the reference configuration, for all couplings")
    if perm == tuple(range(len(perm))) and opts == ("align_ref",):
        # a configuration that is not equivalent (alignment without Wigner rotation) must be told apart when spins are aligned between topologies
        c2 = variant_cfg(cfg, perm, ())
        c2["data"]["r_boost"] = False
        amp2, config2 = AT.build_model(c2)
        amp2.vm.rp2xy_all()
        for n, x in th.items():
            if n in amp2.vm.variables:
                amp2.vm.variables[n].assign(tensor_of(x))
        d2 = [term_of(e) for e in amp2(AT.data_of(config2, p4)).arr.reshape(-1)]
        ss.mutant("variant.mutant_r_boost[%s]" % cfg, facts(), far(d2[-1], d0[-1], Fr(1, 10**9)))


def run_job(job):
    ss = Session(job)
    globals()["job_" + job[0]](ss, *job[1:])
    return ss.records
