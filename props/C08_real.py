"""C08: replays / conformance on the real code (real TensorFlow, real fit module; the minimiser is the same
non-deterministic stub, made concrete with the iterates of the counterexample, or the true scipy / iminuit)."""
import sys
import types

import numpy as np

BOUNDS = {"a": (0.0, 2.0), "b": (0.5, None)}


def _np(x):
    return np.asarray(x.numpy() if hasattr(x, "numpy") else x)


def make_bed(theta):
    import tensorflow as tf
    from tf_pwa.amp.amp import AbsPDF
    from tf_pwa.model.model import FCN, Model
    from tf_pwa.variable import Variable, VarsManager

    names = ["a", "b", "c", "d", "e"]

    class ToyPDF(AbsPDF):
        def init_params(self, name=""):
            self.pars = [Variable(n, value=float(theta.get(n, 1.0))) for n in names]

        def pdf(self, data):
            a, b, c, d, e = [p() for p in self.pars]
            x = tf.cast(data["idx"], tf.float64) * 0.01
            # a smooth positive density, minimum of the NLL outside the bounds (a -> 3, b -> 0)
            return 1.0 + 0.05 * x + (a - 3.0) ** 2 * (1 + 0.01 * x) + (b - 0.0) ** 2 + 0.5 * (c - 0.3 * x) ** 2 + 0.1 * d * d + 0.2 * (e + 1.0) ** 2

    vm = VarsManager(dtype=tf.float64)
    pdf = ToyPDF(vm=vm)
    vm.set_fix("d")
    vm.set_same(["c", "e"])
    for n in ("a", "b", "c", "d"):
        vm.variables[n].assign(float(theta.get(n, 1.0)))
    data = {"idx": tf.convert_to_tensor(np.array([0, 1], dtype=np.int64))}
    mc = {"idx": tf.convert_to_tensor(np.array([200, 201], dtype=np.int64))}
    # the toy "density" is used upside down (larger = less likely does not matter for the bookkeeping)
    fcn = FCN(Model(pdf), data, mc, batch=5)
    return pdf, vm, fcn


class _Result(dict):
    def __getattr__(self, name):
        try:
            return self[name]
        except KeyError as e:
            raise AttributeError(name) from e

    __setattr__ = dict.__setitem__


NO_HESS_INV = ("CG", "Nelder-Mead", "Newton-CG", "trust-krylov", "trust-ncg", "trust-exact")


class ConcreteStub:
    def __init__(self, success, model, tag="s"):
        self.success, self.model, self.tag, self.calls = success, model, tag, 0

    def point(self, n, tag, default):
        return np.array([float(self.model.get("%s_%d" % (tag, k), default[k])) for k in range(n)], dtype=np.float64)

    def minimize(self, fun, x0, method=None, jac=None, hess=None, hessp=None, bounds=None, callback=None, options=None, **kw):
        self.calls += 1
        tag = "%s%d" % (self.tag, self.calls)
        n = len(x0)
        x0 = np.array(x0, dtype=np.float64)
        fun(x0)
        xm = self.point(n, tag + "m", x0)
        rm = fun(xm)
        if callback is not None:
            callback(xm)
        xf = self.point(n, tag + "f", x0)
        r = fun(xf)
        ff = r[0] if isinstance(r, tuple) else r
        g = np.asarray(r[1], dtype=np.float64) if isinstance(r, tuple) else np.zeros(n)
        xa = self.point(n, tag + "a", x0 + 0.3)
        fun(xa)
        fun_reported = float(ff)
        if method == "L-BFGS-B" and not self.success:
            fun_reported = float(rm[0] if isinstance(rm, tuple) else rm)
        res = _Result(x=xf, fun=fun_reported, success=self.success, nit=1, nfev=4, message="stub")
        if method != "Nelder-Mead":
            res["jac"] = g
        if method == "Newton-CG" and not self.success:
            res["jac"] = None
        if method not in NO_HESS_INV:
            res["hess_inv"] = np.eye(n)
        return res

    def minuit_module(stub):
        mod = types.ModuleType("iminuit")
        mod.__version__ = "2.99.0"

        class Minuit:
            def __init__(self, fun, x0, name=None, grad=None):
                self.fun, self.x0, self.name, self.grad = fun, np.asarray(x0, dtype=np.float64), list(name), grad
                self.limits, self.strategy, self.errordef, self.print_level = {}, 1, 1.0, 0
                self.values, self.errors, self.fval, self.valid = None, [0.1] * len(self.x0), None, stub.success

            def migrad(self, *a, **k):
                stub.calls += 1
                tag = "%s%d" % (stub.tag, stub.calls)
                n = len(self.x0)
                self.fun(self.x0)
                self.fun(stub.point(n, tag + "m", self.x0))
                xf = stub.point(n, tag + "f", self.x0)
                self.fval = float(self.fun(xf))
                self.values = list(xf)
                return self

            def hesse(self, *a, **k):
                self.fun(stub.point(len(self.x0), "%s%dh" % (stub.tag, stub.calls), self.x0 + 0.3))
                return self

            def minos(self, *a, **k):
                return self

        mod.Minuit = Minuit
        return mod


def postconditions(vm, fcn, res, start_nll, theta):
    """list of violated post-conditions"""
    bad = []
    state = {n: float(_np(v)) for n, v in vm.variables.items()}
    for n in vm.trainable_vars:
        if n not in res.params:
            bad.append("result does not list %s" % n)
    for n, v in res.params.items():
        if n in state and abs(float(v) - state[n]) > 1e-12:
            bad.append("result %s=%r but the model holds %r" % (n, float(v), state[n]))
    now = float(fcn({}))
    if abs(now - res.min_nll) > 1e-9 * max(1.0, abs(now)):
        bad.append("min_nll=%r but NLL(model)=%r" % (res.min_nll, now))
    if res.min_nll > start_nll + 1e-9:
        bad.append("min_nll above the starting NLL")
    if abs(state["d"] - theta["d"]) > 0:
        bad.append("fixed parameter changed")
    if state["c"] != state["e"]:
        bad.append("tied parameters differ")
    if not (BOUNDS["a"][0] - 1e-12 <= state["a"] <= BOUNDS["a"][1] + 1e-12):
        bad.append("a=%r outside [0, 2]" % state["a"])
    if state["b"] < BOUNDS["b"][0] - 1e-12:
        bad.append("b=%r below 0.5" % state["b"])
    return bad


def run_fit(methods, success, model, true_minimiser=False, grad_scale=None):
    import tf_pwa.fit as fit
    from tf_pwa.applications import fit as do_fit

    theta = {n: float(model.get("th_" + n, {"a": 1.0, "b": 1.0, "c": 0.2, "d": 0.7}[n])) for n in ("a", "b", "c", "d")}
    pdf, vm, fcn = make_bed(theta)
    stub = ConcreteStub(success, model)
    old_min = fit.minimize
    old_im = sys.modules.get("iminuit")
    if not true_minimiser:
        fit.minimize = stub.minimize
        sys.modules["iminuit"] = stub.minuit_module()
    bad = []
    try:
        start = float(fcn({}))
        for m in methods:
            try:
                kw = {} if grad_scale is None else {"grad_scale": grad_scale}
                res = do_fit(fcn=fcn, method=m, bounds_dict=dict(BOUNDS), maxiter=3 if not true_minimiser else 200, improve=False, **kw)
            except Exception as e:
                return ["%s raised %s: %s" % (m, type(e).__name__, str(e)[:200])]
            bad += ["%s: %s" % (m, b) for b in postconditions(vm, fcn, res, start + (0 if not true_minimiser else 0), theta)]
            start = float(fcn({})) if not bad else start
    finally:
        fit.minimize = old_min
        if old_im is not None:
            sys.modules["iminuit"] = old_im
        else:
            sys.modules.pop("iminuit", None)
    return bad


def conformance(tier):
    # NLL of the concrete bed (same classes as the symbolic bed) at two points
    out = {}
    pdf, vm, fcn = make_bed({"a": 1.0, "b": 1.0, "c": 0.2, "d": 0.7})
    out["nll0"] = float(fcn({}))
    vm.set_all({"a": 1.5, "b": 0.9, "c": -0.1})
    out["nll1"] = float(fcn({}))
    return out


def replay(p):
    try:
        model = p.get("model", {})
        gs = float(model.get("grad_scale", 0.25)) if p.get("grad_scale") else None
        bad = run_fit(p["methods"], p.get("success", True), model, true_minimiser=False, grad_scale=gs)
        real = run_fit(p["methods"], p.get("success", True), model, true_minimiser=True, grad_scale=gs)
        return {"reproduced": bool(bad) or bool(real), "violated": bad[:6], "with_true_minimiser": real[:6]}
    except Exception as e:
        import traceback

        return {"reproduced": False, "error": "%s: %s" % (type(e).__name__, str(e)[:300]), "trace": traceback.format_exc()[-600:]}
