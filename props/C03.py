"""C03 — amplitudes superpose linearly; fit fractions obey the sum rule."""
from __future__ import annotations

import itertools
from fractions import Fraction

import numpy as np

from symx import scalar as S
from symx import term as T
from symx.harness import Session
from symx.scalar import SymComplex, SymReal

from . import amptools as AT
from .common import EPS, facts, far, far_c, re_im, simp, tensor_of, term_of

PID = "C03"
LEVEL = "model_checking"
CLAIM = (
    "Bounded symbolic verification on real amplitude models built by ConfigLoader from dictionary configurations (3 chains in 2 "
    "topologies, spins 0/1; a spin-1 model with three topologies; a half-integer-spin model in thorough): all couplings are symbolic "
    "(radii symbolic reals, phases symbolic angles), the kinematic content of the events is concrete; z3 decides, for every value of the "
    "couplings, that the full amplitude equals the sum of the single-chain amplitudes (every helicity component), that each chain's "
    "amplitude is homogeneous of degree one in its own complex coupling, that set_used_res(S) yields exactly the partial sum for "
    "every subset S of resonances, that the single and interference fit fractions add up to one, that fit fractions and their "
    "gradients do not depend on the batch size, that the three fit-fraction code paths agree and that the reported gradients are the "
    "derivatives of the fractions."
)
NOTE = (
    "events are sampled (two or three phase-space events generated with a fixed seed), not quantified; D-functions and line shapes are "
    "evaluated on these events by the real code and enter as constants (their correctness is C12/C15/C04); tolerance 1e-9 where float "
    "constants of different association orders meet"
)
TECHNIQUE = "symbolic execution of DecayGroup / AmplitudeModel / fitfractions on a symbolic tensorflow substitute with symbolic couplings; multilinear and rational identities decided by z3 (QF_NRA)"
EXPLANATION = CLAIM
FUNCTIONS = [
    "tf_pwa/amp/core.py:DecayGroup.get_amp", "tf_pwa/amp/core.py:DecayGroup.sum_amp", "tf_pwa/amp/core.py:DecayGroup.set_used_res", "tf_pwa/amp/core.py:DecayGroup.set_used_chains",
    "tf_pwa/amp/core.py:DecayGroup.add_used_chains", "tf_pwa/amp/core.py:DecayGroup.partial_weight", "tf_pwa/amp/core.py:DecayGroup.partial_weight_interference", "tf_pwa/amp/core.py:DecayChain.get_amp",
    "tf_pwa/amp/core.py:HelicityDecay.get_amp", "tf_pwa/amp/core.py:HelicityDecay.get_helicity_amp", "tf_pwa/amp/amp.py:AmplitudeModel.pdf", "tf_pwa/amp/amp.py:BaseAmplitudeModel.set_used_res",
    "tf_pwa/fitfractions.py:cal_fitfractions", "tf_pwa/fitfractions.py:cal_fitfractions_no_grad", "tf_pwa/fitfractions.py:sum_gradient", "tf_pwa/fitfractions.py:FitFractions.integral",
    "tf_pwa/fitfractions.py:FitFractions.append_int", "tf_pwa/fitfractions.py:FitFractions.get_frac_grad",
]
ASSUMPTIONS = [
    "kinematics concrete (seeded phase-space events); couplings symbolic",
    "identities between sums of products of the same float constants are exact in rational arithmetic; 1e-9 tolerance otherwise",
    "the fit-fraction sum rule is claimed for decay groups in which every chain contains exactly one of the listed resonances (for a resonance shared by several chains, e.g. A->R1 R2 and A->R1 R3, the fractions by resonance do not partition the chains and do not add up to one: observation, not a defect); fixed reference couplings are made symbolic as well so that no chain is evaluated in rounded floating point",
]
TRUSTED = []


def bounds(tier):
    return {"models": ["3 chains / 2 topologies spin 0,1", "3 topologies spin 1 (final spins 1,1,0)"] + (["half-integer spins"] if tier == "thorough" else []), "events": 2, "N_mc": [2, 3], "batch": [1, 2, None], "subsets": "all non-empty subsets of resonances"}


def jobs(tier, seed):
    out = [("superposition", "CFG3"), ("superposition", "CFG_SPIN"), ("subsets", "CFG3"), ("subsets", "CFG4"), ("homogeneity", "CFG3"), ("fractions", "CFG3", 2), ("fractions", "CFG3", 3), ("fraction_paths", "CFG3"), ("fraction_paths", "CFG4")]
    if tier == "thorough":
        out += [("superposition", "CFG_HALF"), ("subsets", "CFG_SPIN"), ("homogeneity", "CFG_SPIN"), ("fractions", "CFG_SPIN", 2), ("fractions", "CFG_SPIN", 3)]
    return out


def _model(name, cartesian=False):
    amp, config = AT.build_model(getattr(AT, name))
    th = AT.symbolize_couplings(amp, cartesian=cartesian)
    return amp, config, th


def _flat(t):
    return list(t.arr.reshape(-1))


def _pay(kind, amp, cartesian=False, **kw):
    def f(m):
        return dict(kind=kind, params=AT.model_params(amp, m, cartesian=cartesian), **kw)

    return f


def job_superposition(ss, cfg):
    amp, config, th = _model(cfg, cartesian=(cfg != "CFG3"))
    data = AT.phsp_data(config, 2)
    dg = amp.decay_group
    n = len(dg.chains)
    full = _flat(dg.get_amp(data))
    parts = []
    for k in range(n):
        dg.set_used_chains([k])
        parts.append(_flat(dg.get_amp(data)))
    dg.set_used_chains(list(range(n)))
    F = facts()
    pay = _pay("superposition", amp, cartesian=(cfg != "CFG3"), cfg=cfg)
    ss.witness("amp.reach[%s]" % cfg, F)
    for i, f in enumerate(full):
        acc = parts[0][i]
        for k in range(1, n):
            acc = acc + parts[k][i]
        ss.prove("amp.superposition[%s,%d]" % (cfg, i), F, far_c(f, acc, 0), key="amp.superposition", payload=pay, timeout=60,
                 describe="A_full = sum_k A_k for every event and helicity component", want_smt2=(i == 0))
    # the density is |sum|^2 summed over helicities
    dens = _flat(amp(data))
    nev = len(dens)
    per = len(full) // nev
    for e in range(nev):
        ref = SymReal(T.ZERO)
        for f in full[e * per : (e + 1) * per]:
            f = f if isinstance(f, SymComplex) else S.lift(complex(f))
            ref = ref + f.re * f.re + f.im * f.im
        ss.prove("amp.density_is_sum_abs2[%s,%d]" % (cfg, e), F, far(term_of(dens[e]), ref.t, 0), key="amp.density", payload=pay, timeout=60, describe="density = sum over helicities of |A|^2")
        # (non-negativity follows: the density is decided to be a sum of squares)
    ss.mutant("amp.mutant[%s]" % cfg, F, far_c(full[0], parts[0][0], 0))


def job_subsets(ss, cfg):
    amp, config, th = _model(cfg)
    data = AT.phsp_data(config, 2)
    dg = amp.decay_group
    n = len(dg.chains)
    parts = []
    for k in range(n):
        dg.set_used_chains([k])
        parts.append(_flat(dg.get_amp(data)))
    dg.set_used_chains(list(range(n)))
    res = list(dg.resonances)
    F = facts()
    for r in range(1, len(res) + 1):
        for sub in itertools.combinations(res, r):
            amp.set_used_res([str(x) for x in sub])
            got = _flat(dg.get_amp(data))
            ks = [k for k in range(n) if any(x in dg.chains[k].inner for x in sub)]
            ok_idx = sorted(dg.chains_idx) == ks
            ss.concrete("amp.subset_chains[%s,%s]" % (cfg, "+".join(map(str, sub))), ok_idx, key="amp.subset", payload=dict(kind="subset_idx", cfg=cfg, res=[str(x) for x in sub]),
                        describe="set_used_res selects exactly the chains containing the resonances")
            for i, g in enumerate(got[:6]):
                acc = parts[ks[0]][i]
                for k in ks[1:]:
                    acc = acc + parts[k][i]
                ss.prove("amp.subset_sum[%s,%s,%d]" % (cfg, "+".join(map(str, sub)), i), F, far_c(g, acc, 0), key="amp.subset", payload=_pay("subset", amp, cfg=cfg, res=[str(x) for x in sub]), timeout=60,
                         describe="amplitude after set_used_res(S) = sum of the chains of S")
    amp.set_used_res([str(x) for x in res])


def job_homogeneity(ss, cfg):
    """A_k(lambda * total_k) = lambda * A_k  (Cartesian scaling of the chain's own coupling)"""
    amp, config, th = _model(cfg)
    data = AT.phsp_data(config, 2)
    dg = amp.decay_group
    vm = amp.vm
    n = len(dg.chains)
    lam = S.real("lam")
    for k in range(n):
        dg.set_used_chains([k])
        base = _flat(dg.get_amp(data))
        # scale the radius of the chain's total coupling
        tot = [v for v in vm.variables if "_total_" in v and v.endswith("r") and ("->%s." % dg.chains[k].inner[0]) in v]
        if not tot:
            continue
        name = tot[0]
        old = vm.variables[name].arr.copy()
        oldv = old.reshape(-1)[0]
        if not isinstance(oldv, SymReal):
            continue
        vm.variables[name].assign(tensor_of(lam * (oldv if isinstance(oldv, SymReal) else float(oldv))))
        scaled = _flat(dg.get_amp(data))
        vm.variables[name].assign(tensor_of(oldv))
        F = facts()
        for i in range(min(4, len(base))):
            b = base[i] if isinstance(base[i], SymComplex) else S.lift(complex(base[i]))
            ss.prove("amp.homogeneous[%s,chain=%d,%d]" % (cfg, k, i), F, far_c(scaled[i], SymComplex(lam * b.re, lam * b.im), 0), key="amp.homogeneous", payload=_pay("homogeneous", amp, cfg=cfg, chain=k), timeout=60,
                     describe="the chain amplitude is proportional to its own coupling")
    dg.set_used_chains(list(range(n)))


def _frac_terms(fr):
    out = {}
    for k, v in fr.items():
        if isinstance(v, SymReal):
            out[k] = v.t
        elif hasattr(v, "arr"):
            out[k] = term_of(v.arr.reshape(-1)[0])
        else:
            a = np.asarray(v, dtype=object).reshape(-1)
            out[k] = term_of(a[0]) if a.size == 1 else [term_of(x) for x in a]
    return out


def job_fractions(ss, cfg, nmc):
    import tf_pwa.fitfractions as ff
    from symx.npproxy import NumpyProxy

    old = ff.np
    ff.np = NumpyProxy()
    try:
        amp, config, th = _model(cfg, cartesian=True)
        mc = AT.phsp_data(config, nmc, seed=5)
        res = [str(r) for r in amp.decay_group.resonances]
        F = facts()
        pay = _pay("fractions", amp, cartesian=True, cfg=cfg, nmc=nmc)
        # the model integral is positive (otherwise the fractions are undefined)
        tot_int = SymReal(T.add(*[term_of(e) for e in _flat(amp(mc))]))
        S.assume(tot_int > Fraction(1, 1000))
        F = facts()
        results = {}
        for batch in (None, 1, 2):
            fr, gr = ff.cal_fitfractions(amp, mc if batch is not None else [mc], res=res, batch=batch)
            results[batch] = (_frac_terms(fr), gr)
        base, gbase = results[None]
        tot = T.add(*[v for v in base.values()])
        # the model integral must be positive
        # sum of fractions = N / D: when N - D expands to the zero polynomial the identity is decided by normal form
        # (recorded through the same abstraction query, which is then trivial); otherwise z3 decides N != D
        Nn, Dd = T.numden(tot)
        memo_ = {}
        Pz = T._poly_of(T.sub(Nn, Dd), 400000, memo_)
        if Pz is not None and len(Pz) == 0:
            from .common import prove_close_poly

            prove_close_poly(ss, "ff.sum_rule[%s,nmc=%d]" % (cfg, nmc), Nn, Dd, Fraction(1, 10**12), 2, key="ff.sum_rule", payload=pay, timeout=120, limit=400000,
                             describe="sum_i FF_i + sum_{i<j} FF_ij = 1 for all couplings (numerator - denominator is the zero polynomial)")
        else:
            ss.prove("ff.sum_rule[%s,nmc=%d]" % (cfg, nmc), F, far(tot, T.ONE, 0), key="ff.sum_rule", payload=pay, timeout=120,
                     describe="sum_i FF_i + sum_{i<j} FF_ij = 1 for all couplings", want_smt2=True)
        for batch in (1, 2):
            for k, v in results[batch][0].items():
                ss.prove("ff.batch_independent[%s,nmc=%d,b=%s,%s]" % (cfg, nmc, batch, k), F, far(v, base[k], 0), key="ff.batch_independent", payload=_pay("fractions", amp, cartesian=True, cfg=cfg, nmc=nmc, batch=batch), timeout=60,
                         describe="fit fractions do not depend on the batch size")
        # gradients are the derivatives of the fractions (C09 ii): checked for the first two parameters
        names = list(amp.vm.trainable_vars)
        for k, v in list(base.items()):
            g = gbase[k]
            gts = [term_of(x) for x in (g.arr.reshape(-1) if hasattr(g, "arr") else np.asarray(g, dtype=object).reshape(-1))]
            for pi_, pn in enumerate(names[:3]):
                x = th[pn]
                if x.ang is not None:
                    from .C07 import _d_dx

                    leaf = list(x.ang.lin)[0]
                    d = _d_dx(v, leaf.name, leaf.D)
                else:
                    d = T.diff(v, x.t)
                ss.prove("ff.gradient[%s,nmc=%d,%s,%s]" % (cfg, nmc, k, pn), F, far(gts[pi_], d, 0), key="ff.gradient", payload=pay, timeout=120, presample=10,
                         describe="the gradient returned with a fit fraction is its derivative (quotient rule)")
        ss.witness("ff.reach[%s,%d]" % (cfg, nmc), F)
        ss.mutant("ff.mutant[%s,%d]" % (cfg, nmc), F, far(tot, T.const(2, "R"), 0))
    finally:
        ff.np = old


def job_fraction_paths(ss, cfg):
    import tf_pwa.fitfractions as ff
    from symx.npproxy import NumpyProxy

    old = ff.np
    ff.np = NumpyProxy()
    try:
        amp, config, th = _model(cfg, cartesian=True)
        mc = AT.phsp_data(config, 2, seed=5)
        res = [str(r) for r in amp.decay_group.resonances]
        tot_int = SymReal(T.add(*[term_of(e) for e in _flat(amp(mc))]))
        S.assume(tot_int > Fraction(1, 1000))
        F = facts()
        pay = _pay("fraction_paths", amp, cartesian=True, cfg=cfg)
        fr, gr = ff.cal_fitfractions(amp, mc, res=res, batch=1)
        a = _frac_terms(fr)
        fr2 = ff.cal_fitfractions_no_grad(amp, mc, res=res, batch=1)
        fr2 = fr2[0] if isinstance(fr2, tuple) else fr2
        b = _frac_terms(fr2)
        obj = ff.FitFractions(amp, res)
        obj.integral(mc, batch=1)
        fr3, g3 = obj.get_frac_grad(sum_diag=False)
        c = _frac_terms(fr3)
        if cfg != "CFG4":  # the sum rule presupposes that every chain belongs to exactly one of the listed resonances
            ss.prove("ff.class_sum_rule[%s]" % cfg, F, far(T.add(*[v for v in c.values()]), T.ONE, 0), key="ff.sum_rule", payload=pay, timeout=120, describe="FitFractions class: fractions add up to one")
        for k, v in a.items():
            k2 = k if k in b else ("%sx%s" % k if isinstance(k, tuple) else k)
            if k2 in b:
                ss.prove("ff.paths.no_grad[%s,%s]" % (cfg, k), F, far(b[k2], v, 0), key="ff.paths", payload=pay, timeout=60, describe="cal_fitfractions_no_grad = cal_fitfractions")
            if k in c:
                ss.prove("ff.paths.class[%s,%s]" % (cfg, k), F, far(c[k], v, 0), key="ff.paths", payload=pay, timeout=60, describe="FitFractions class = cal_fitfractions")
        # the gradients the class returns (used for the uncertainties of the fractions, C09) are the derivatives of its fractions,
        # for single and interference fractions alike
        names = list(amp.vm.trainable_vars)
        for k, v in c.items():
            if k not in g3:
                continue
            g = g3[k]
            gts = [term_of(x) for x in (g.arr.reshape(-1) if hasattr(g, "arr") else np.asarray(g, dtype=object).reshape(-1))]
            for pi_, pn in enumerate(names[:3]):
                x = th[pn]
                if x.ang is not None:
                    from .C07 import _d_dx

                    leaf = list(x.ang.lin)[0]
                    d = _d_dx(v, leaf.name, leaf.D)
                else:
                    d = T.diff(v, x.t)
                ss.prove("ff.class_gradient[%s,%s,%s]" % (cfg, k, pn), F, far(gts[pi_], d, 0), key="ff.gradient", payload=pay, timeout=120, presample=10,
                         describe="FitFractions.get_frac_grad: the gradient returned with a fraction is its derivative (single and interference fractions)")
    finally:
        ff.np = old


def run_job(job):
    ss = Session(job)
    globals()["job_" + job[0]](ss, *job[1:])
    return ss.records
