"""C15 — line shapes equal their documented formulas."""
from __future__ import annotations

import math
from fractions import Fraction

import numpy as np

from symx import scalar as S
from symx import term as T
from symx.harness import Session
from symx.scalar import SymComplex, SymReal

from .common import EPS, facts, far, far_c, lemma, re_im, simp, tensor_of, term_of

PID = "C15"
LEVEL = "model_checking"
CLAIM = (
    "Bounded symbolic verification: tf_pwa.breit_wigner, tf_pwa.formula and the registered particle models run unmodified on a "
    "symbolic tensorflow substitute with symbolic reals for m, m0, Gamma0, daughter masses, q, q0, d; for each L in the bound the "
    "returned value is compared by z3 (QF_NRA) with the documented formula written independently in the harness (Blatt-Weisskopf "
    "polynomial from |theta_L(iw)|^2 in exact rationals): value = formula, Im>0, value at m0 = i/(m0 Gamma0), Gamma(m0)=Gamma0, "
    "B_L(q0,q0)=1, q^2-variants = q-variants above threshold, sympy denominators x numeric line shape = 1. unsat = holds for all "
    "real inputs satisfying the stated preconditions."
)
NOTE = (
    "reals stand in for doubles; log is an uninterpreted function (GS compared with congruence only); preconditions: masses above "
    "threshold, Gamma0>0, d>0; the substitute tensorflow is diffed against real TensorFlow on every run"
)
TECHNIQUE = "symbolic execution of breit_wigner.py / formula.py / particle models on a symbolic tensorflow substitute; z3 nlsat per obligation; sympy expressions translated node by node; sat models replayed on real TensorFlow"
CLAIM_EXTRA = "Second layer (props/C15pm.py): the registered particle classes built by ConfigLoader exactly as a user configures them (model: BWR/default, BWR2, BWR_below incl. the effective-mass continuation, BWR_coupling, BWR_normal, BW, LASS, GS_rho, one, x, exp, exp_com, Flatte, FlatteC, FlatteGen and Flatte2 with their options, BWR_LS with 1-3 (thorough: 5) partial waves) evaluated through DecayChain.get_amp_particle with symbolic m, m0, Gamma0 and model parameters against the formula of their own docstring (L = 0..2); the decay's |q|, |q0| against the documented break-up momenta; every class's get_sympy_dom(*get_sympy_var()) at get_num_var() times Particle.__call__ = 1 on the physical sheet. Compositional where nlsat does not decide the composite: momenta as free positive symbols on both sides with cal_monentum / the decay momenta / Bprime_q2 decided separately."
NOTE_EXTRA = 'particle classes: one decay A -> R D, R -> B C with dyadic masses; Flatte family above the pseudo-thresholds |ma - mb|; Kmatrix / KMatrix* / MultiBWR / BWR_LS2 / interpolation particles have no closed documented formula encoded (outside the claim)'
EXPLANATION = CLAIM + " " + CLAIM_EXTRA
FUNCTIONS = [
    "tf_pwa/breit_wigner.py:BW", "tf_pwa/breit_wigner.py:BWR", "tf_pwa/breit_wigner.py:BWR2", "tf_pwa/breit_wigner.py:BWR_normal",
    "tf_pwa/breit_wigner.py:GS", "tf_pwa/breit_wigner.py:Gamma", "tf_pwa/breit_wigner.py:Gamma2", "tf_pwa/breit_wigner.py:Bprime",
    "tf_pwa/breit_wigner.py:Bprime_q2", "tf_pwa/breit_wigner.py:Bprime_num", "tf_pwa/breit_wigner.py:Bprime_polynomial",
    "tf_pwa/breit_wigner.py:get_bprime_coeff", "tf_pwa/breit_wigner.py:reverse_bessel_polynomials", "tf_pwa/breit_wigner.py:barrier_factor",
    "tf_pwa/breit_wigner.py:barrier_factor2", "tf_pwa/breit_wigner.py:twoBodyCMmom", "tf_pwa/breit_wigner.py:hFun", "tf_pwa/breit_wigner.py:dh_dsFun",
    "tf_pwa/breit_wigner.py:dFun", "tf_pwa/breit_wigner.py:fsFun", "tf_pwa/breit_wigner.py:one",
    "tf_pwa/formula.py:BW_dom", "tf_pwa/formula.py:BWR_dom", "tf_pwa/formula.py:BWR_coupling_dom", "tf_pwa/formula.py:Bprime_polynomial",
    "tf_pwa/formula.py:get_relative_p", "tf_pwa/formula.py:get_relative_p2", "tf_pwa/formula.py:BWR_LS_dom",
    "tf_pwa/amp/core.py:Particle.get_amp", "tf_pwa/amp/core.py:Particle.__call__", "tf_pwa/amp/core.py:Particle.get_sympy_dom", "tf_pwa/amp/core.py:DecayChain.get_amp_particle",
    "tf_pwa/amp/core.py:HelicityDecay.get_relative_momentum", "tf_pwa/amp/core.py:HelicityDecay.get_relative_momentum2", "tf_pwa/amp/core.py:_ad_hoc",
    "tf_pwa/amp/base.py:ParticleBWR2.get_amp", "tf_pwa/amp/base.py:ParticleBWRBelowThreshold.get_amp", "tf_pwa/amp/base.py:ParticleBWRCoupling.get_amp", "tf_pwa/amp/base.py:ParticleBWRCoupling.get_sympy_dom",
    "tf_pwa/amp/base.py:ParticleBWR_normal.get_amp", "tf_pwa/amp/base.py:ParticleGS.get_amp", "tf_pwa/amp/base.py:ParticleBW.get_amp", "tf_pwa/amp/base.py:ParticleLass.get_amp",
    "tf_pwa/amp/base.py:ParticleOne.get_amp", "tf_pwa/amp/base.py:ParticleExp.get_amp", "tf_pwa/amp/base.py:ParticleExpCom.get_amp",
    "tf_pwa/amp/flatte.py:cal_monentum", "tf_pwa/amp/flatte.py:cal_monentum_sympy", "tf_pwa/amp/flatte.py:ParticleFlatte.get_amp", "tf_pwa/amp/flatte.py:ParticleFlatte.get_sympy_dom",
    "tf_pwa/amp/flatte.py:ParticleFlateGen.get_amp", "tf_pwa/amp/flatte.py:ParticleFlateGen.get_sympy_dom", "tf_pwa/amp/flatte.py:ParticleFlate2.get_coeff",
    "tf_pwa/amp/split_ls.py:ParticleBWRLS.get_ls_amp", "tf_pwa/amp/split_ls.py:ParticleBWRLS.get_ls_amp_frac", "tf_pwa/amp/split_ls.py:ParticleBWRLS.factor_gamma", "tf_pwa/amp/split_ls.py:ParticleBWRLS.get_sympy_dom", "tf_pwa/amp/split_ls.py:ParticleBWRLS.__call__",
]
ASSUMPTIONS = [
    "reals stand in for doubles (rounding outside the claim)",
    "second layer, compositional steps: (i) LASS / BWR_normal / GS_rho read |q|, |q0| from the decay data: decided with q, q0 free positive symbols, and the decay's own |q|, |q0|, |q|2, |q0|2 decided to be the documented momenta (pmq); (ii) Flatte family: tf_pwa.amp.flatte.cal_monentum (and its sympy twin) replaced by stubs returning Q_i or i Q_i with Q_i > 0 free, one case per realisable open/closed pattern of the channels, cal_monentum decided against the documented q_i separately (calmom); (iii) BWR_LS: q^2 = k^2 q0^2 with k, q0^2 free and Bprime_q2 a stub B_l > 0 with B_l^2 P_l(q^2 d^2) = P_l(q0^2 d^2) (Bprime_q2 decided by the first layer); tanh, exp, cos, sin uninterpreted",
    "log is uninterpreted: the GS line shape is compared with an independently written Gounaris-Sakurai formula using the same uninterpreted log (equality of arguments is decided, the values of log are not)",
    "pi enters GS as the constant the code actually uses: float32(3.14159265359) = 3.1415927410125732 (tf.cast of a Python float goes through float32); the 2.8e-8 relative deviation from pi is an observation, not counted as a violation",
    "GS is decided compositionally: h, dh/ds, D, f individually (symbolic daughter masses), then the assembly with dFun / fsFun replaced by opaque values (stubs)",
    "preconditions: m, m0 > m1 + m2 >= 0 (above threshold) unless stated, Gamma0 > 0, d > 0, q > 0, q0 > 1e-15 (the code replaces (q/q0)^(2L+1) by 1 for q0 <= 1e-15: a guard, outside the documented formula)",
]
TRUSTED = ["sympy (only as the carrier of the expressions formula.py builds; translated node by node)"]


def bounds(tier):
    return {"L": list(range(0, 4 if tier == "quick" else 8)), "tolerance": "exact identities (no float constants other than integers)"}


def jobs(tier, seed):
    Ls = range(0, 4 if tier == "quick" else 8)
    out = [("bw",), ("cmmom",), ("gs",)]
    for L in Ls:
        out += [("poly", L), ("bprime", L), ("gamma", L), ("bwr", L), ("bwr2", L), ("dom", L), ("barrier", L)]
    from . import C15pm

    out += [j + (tier,) for j in C15pm.jobs(tier)]
    return out


# ---------------------------------------------------------------- references


def bw_poly_coeffs(L):
    """|theta_L(i w)|^2 as coefficients of z^L ... z^0, z = w^2, from the reverse
    Bessel polynomial theta_L(x) = sum_k (L+k)!/((L-k)! k! 2^k) x^(L-k) (exact)."""
    f = math.factorial
    a = [Fraction(f(L + k), f(L - k) * f(k) * 2**k) for k in range(L + 1)]  # coefficient of x^(L-k)
    # theta(i w): real part collects even powers of i, imaginary the odd ones
    re = {}
    im = {}
    for k in range(L + 1):
        p = L - k
        c = a[k]
        # i^p
        r = p % 4
        if r == 0:
            re[p] = re.get(p, 0) + c
        elif r == 1:
            im[p] = im.get(p, 0) + c
        elif r == 2:
            re[p] = re.get(p, 0) - c
        else:
            im[p] = im.get(p, 0) - c
    sq = {}
    for part in (re, im):
        for p1, c1 in part.items():
            for p2, c2 in part.items():
                sq[p1 + p2] = sq.get(p1 + p2, 0) + c1 * c2
    coeffs = []
    for i in range(L, -1, -1):
        coeffs.append(sq.get(2 * i, Fraction(0)))
    assert all(v == 0 for p, v in sq.items() if p % 2), "odd powers must cancel"
    # normalise so that the leading coefficient is 1 (as the documented table)
    lead = coeffs[0]
    return [c / lead for c in coeffs]


def P_ref(L, z):
    """reference Blatt-Weisskopf polynomial at a symbolic z (SymReal)"""
    acc = SymReal(T.ZERO)
    for c in bw_poly_coeffs(L):
        acc = acc * z + SymReal(T.const(c, "R"))
    return acc


def _pos(name):
    x = S.real(name)
    S.assume(x > 0)
    return x


def _t1(x):
    return tensor_of([x])


def _e(t):
    x = t.arr.reshape(-1)[0] if hasattr(t, "arr") else t
    if isinstance(x, (SymReal, SymComplex)):
        return x
    if isinstance(x, (complex, np.complexfloating)):
        return S.lift(complex(x))
    return SymReal(T.const(float(x), "R"))


Q0MIN = 1e-15  # the very constant the code compares q0 with (its guard)


def _model_payload(kind, names, **kw):
    def f(m):
        d = dict(kind=kind, **kw)
        for n in names:
            d[n] = float(m.get(n, 1.0))
        return d

    return f


def _definedness(ss, name, key, pay):
    """every partial operation the code executed is defined under the preconditions"""
    F = facts()
    seen = set()
    for kind, cond, pc in S.ctx().definedness:
        if cond in seen:
            continue
        seen.add(cond)
        ss.prove("%s.defined.%s#%d" % (name, kind, len(seen)), F + list(pc), T.bnot(cond), key=key + ".defined", payload=pay,
                 describe="partial operation (%s) is defined under the preconditions" % kind)


# ---------------------------------------------------------------------- jobs


def job_bw(ss):
    from tf_pwa import breit_wigner as bw

    m, m0, g0 = _pos("m"), _pos("m0"), _pos("g0")
    r = _e(bw.BW(_t1(m), m0, g0))
    pay = _model_payload("BW", ["m", "m0", "g0"])
    F = facts()
    den = SymComplex(m0 * m0 - m * m, -(m0 * g0))
    ss.prove("BW.value", F, far_c(r * den, 1.0, 0), key="BW.value", payload=pay, describe="BW(m) (m0^2 - m^2 - i m0 g0) = 1", want_smt2=True)
    ss.prove("BW.im_positive", F, T.le(r.im.t, T.ZERO), key="BW.im_positive", payload=pay)
    at = F + [T.eq(m.t, m0.t)]
    ss.prove("BW.at_m0", at, far_c(r * SymComplex(SymReal(T.ZERO), -(m0 * g0)), 1.0, 0), key="BW.at_m0", payload=pay, describe="BW(m0) = i/(m0 g0)")
    _definedness(ss, "BW", "BW", pay)
    ss.witness("BW.reach", F)
    ss.mutant("BW.mutant_sign", F, far_c(r * SymComplex(m0 * m0 - m * m, (m0 * g0)), 1.0, 0))
    one = bw.one()
    v = one.numpy()
    ss.concrete("one.value", complex(v) == 1.0, key="one.value", payload=dict(kind="one"))


def job_cmmom(ss):
    from tf_pwa import breit_wigner as bw

    m0, m1, m2 = _pos("m0"), S.real("m1"), S.real("m2")
    S.assume(m1 >= 0)
    S.assume(m2 >= 0)
    k = _e(bw.twoBodyCMmom(_t1(m0), _t1(m1), _t1(m2)))
    F = facts()
    pay = _model_payload("cmmom", ["m0", "m1", "m2"])
    lam = (m0 * m0 - (m1 + m2) * (m1 + m2)) * (m0 * m0 - (m1 - m2) * (m1 - m2))
    above = F + [T.gt(m0.t, (m1 + m2).t)]
    ss.prove("cmmom.above", above, T.bor(far(T.mul(T.const(4, "R"), k.t, k.t, m0.t, m0.t), lam.t, 0), T.lt(k.t, T.ZERO)), key="cmmom.value", payload=pay,
             describe="k^2 = lambda(m0^2,m1^2,m2^2)/(4 m0^2), k >= 0 above threshold")
    below = F + [T.le(m0.t, (m1 + m2).t), T.ge(m0.t, abs(m1 - m2).t)]
    ss.prove("cmmom.below_zero", below, T.ne(k.t, T.ZERO), key="cmmom.value", payload=pay, describe="0 between the pseudo-threshold and the threshold")
    # (sqrt of a negative radicand below threshold sits in the unselected branch of tf.where)


def job_poly(ss, L):
    from tf_pwa import breit_wigner as bw
    from tf_pwa import formula

    z = S.real("z")
    got = _e(bw.Bprime_polynomial(L, _t1(z)))
    ref = P_ref(L, z)
    pay = _model_payload("poly", ["z"], L=L)
    ss.prove("poly.table_vs_theta[L=%d]" % L, [], far(got.t, ref.t, 0), key="poly.value", payload=pay,
             describe="Bprime_polynomial(L, z) = |theta_L(i sqrt z)|^2 (normalised) for all z", want_smt2=(L == 2))
    gen = [Fraction(int(c)) for c in bw.get_bprime_coeff(L)]
    ss.concrete("poly.generator_vs_theta[L=%d]" % L, gen == [c * gen[0] / 1 for c in bw_poly_coeffs(L)] or [g / gen[0] for g in gen] == bw_poly_coeffs(L),
                key="poly.generator", payload=dict(kind="poly_gen", L=L), describe="get_bprime_coeff(L) equals the exact |theta_L|^2 coefficients")
    import sympy

    zs = sympy.Symbol("z")
    from symx.sympy_bridge import translate

    f = translate(sympy.sympify(formula.Bprime_polynomial(L, zs)), {zs: z})
    ss.prove("poly.formula_module[L=%d]" % L, [], far(f.t, ref.t, 0), key="poly.formula_module", payload=pay, describe="formula.Bprime_polynomial equals the same polynomial")
    if L > 0:
        ss.mutant("poly.mutant[L=%d]" % L, [], far(got.t, (ref + z).t, 0))


def job_bprime(ss, L):
    from tf_pwa import breit_wigner as bw

    q, q0, d = _pos("q"), _pos("q0"), _pos("d")
    pay = _model_payload("bprime", ["q", "q0", "d"], L=L)
    b = _e(bw.Bprime(L, _t1(q), _t1(q0), d))
    z, z0 = (q * d) * (q * d), (q0 * d) * (q0 * d)
    F = facts()
    ss.prove("Bprime.value[L=%d]" % L, F, T.bor(far((b * b * P_ref(L, z)).t, P_ref(L, z0).t, 0), T.le(b.t, T.ZERO)), key="Bprime.value", payload=pay,
             describe="B_L(q,q0,d)^2 |theta_L(i q d)|^2 = |theta_L(i q0 d)|^2 and B_L > 0", want_smt2=(L == 1))
    ss.prove("Bprime.unit_at_q0[L=%d]" % L, F + [T.eq(q.t, q0.t)], far(b.t, T.ONE, 0), key="Bprime.unit_at_q0", payload=pay, describe="B_L(q0,q0,d) = 1")
    _definedness(ss, "Bprime[L=%d]" % L, "Bprime", pay)
    # q^2 based variant: equal above threshold, defined (finite, real) below
    S.new_context()
    q, q0, d = _pos("q"), _pos("q0"), _pos("d")
    b = _e(bw.Bprime(L, _t1(q), _t1(q0), d))
    b2 = _e(bw.Bprime_q2(L, _t1(q * q), _t1(q0 * q0), d))
    F = facts()
    ss.prove("Bprime_q2.equals_Bprime[L=%d]" % L, F, far(b.t, b2.t, 0), key="Bprime_q2.equals_Bprime", payload=pay, describe="Bprime_q2(L,q^2,q0^2,d) = Bprime(L,q,q0,d) for q,q0 > 0")
    S.new_context()
    q2, q02, d = S.real("q2"), _pos("q02"), _pos("d")
    pay2 = _model_payload("bprime_q2_below", ["q2", "q02", "d"], L=L)
    b2 = _e(bw.Bprime_q2(L, _t1(q2), _t1(q02), d))
    S.assume(q2 < 0)
    _definedness(ss, "Bprime_q2.below[L=%d]" % L, "Bprime_q2.below", pay2)


def _gamma_ref(L, m, m0, g0, q, q0, d):
    z, z0 = (q * d) * (q * d), (q0 * d) * (q0 * d)
    ratio = q / q0
    r = SymReal(T.ONE)
    for _ in range(2 * L + 1):
        r = r * ratio
    return g0 * r * (m0 / m) * (P_ref(L, z0) / P_ref(L, z))


def job_gamma(ss, L):
    from tf_pwa import breit_wigner as bw

    m, m0, g0, q, q0, d = _pos("m"), _pos("m0"), _pos("g0"), _pos("q"), _pos("q0"), _pos("d")
    pay = _model_payload("gamma", ["m", "m0", "g0", "q", "q0", "d"], L=L)
    S.assume(q0 > Q0MIN)
    g = _e(bw.Gamma(_t1(m), g0, _t1(q), _t1(q0), L, m0, d))
    F = facts()
    ss.prove("Gamma.value[L=%d]" % L, F, far(g.t, _gamma_ref(L, m, m0, g0, q, q0, d).t, 0), key="Gamma.value", payload=pay,
             describe="Gamma(m) = Gamma0 (q/q0)^(2L+1) (m0/m) B_L^2", want_smt2=(L == 1))
    ss.prove("Gamma.at_m0[L=%d]" % L, F + [T.eq(m.t, m0.t), T.eq(q.t, q0.t)], far(g.t, g0.t, 0), key="Gamma.at_m0", payload=pay, describe="Gamma(m0) = Gamma0")
    _definedness(ss, "Gamma[L=%d]" % L, "Gamma", pay)


def job_bwr(ss, L):
    from tf_pwa import breit_wigner as bw

    m, m0, g0, q, q0, d = _pos("m"), _pos("m0"), _pos("g0"), _pos("q"), _pos("q0"), _pos("d")
    pay = _model_payload("bwr", ["m", "m0", "g0", "q", "q0", "d"], L=L)
    S.assume(q0 > Q0MIN)
    r = _e(bw.BWR(_t1(m), m0, g0, _t1(q), _t1(q0), L, d))
    F = facts()
    gam = _gamma_ref(L, m, m0, g0, q, q0, d)
    den = SymComplex(m0 * m0 - m * m, -(m0 * gam))
    ss.prove("BWR.value[L=%d]" % L, F, far_c(r * den, 1.0, 0), key="BWR.value", payload=pay, describe="BWR(m) (m0^2 - m^2 - i m0 Gamma(m)) = 1 with Gamma from the independent formula", timeout=60)
    ss.prove("BWR.im_positive[L=%d]" % L, F, T.le(r.im.t, T.ZERO), key="BWR.im_positive", payload=pay)
    at = F + [T.eq(m.t, m0.t), T.eq(q.t, q0.t)]
    ss.prove("BWR.at_m0[L=%d]" % L, at, far_c(r * SymComplex(SymReal(T.ZERO), -(m0 * g0)), 1.0, 0), key="BWR.at_m0", payload=pay, describe="BWR(m0) = i/(m0 Gamma0)")
    _definedness(ss, "BWR[L=%d]" % L, "BWR", pay)
    ss.mutant("BWR.mutant_conj[L=%d]" % L, F, far_c(r * SymComplex(m0 * m0 - m * m, (m0 * gam)), 1.0, 0))


def job_bwr2(ss, L):
    """q^2-based running width above threshold = q-based; BWR_normal = sqrt(m0 Gamma) BWR"""
    from tf_pwa import breit_wigner as bw

    m, m0, g0, q, q0, d = _pos("m"), _pos("m0"), _pos("g0"), _pos("q"), _pos("q0"), _pos("d")
    pay = _model_payload("bwr2", ["m", "m0", "g0", "q", "q0", "d"], L=L)
    lemma(ss, "BWR2.lemma_ratio_nonneg[L=%d]" % L, (q * q) / (q0 * q0) >= 0)
    r2 = _e(bw.BWR2(_t1(m), m0, g0, _t1(q * q), _t1(q0 * q0), L, d))
    F = facts()
    r2 = simp(F, r2)
    gam = _gamma_ref(L, m, m0, g0, q, q0, d)
    den = SymComplex(m0 * m0 - m * m, -(m0 * gam))
    ss.prove("BWR2.value[L=%d]" % L, F, far_c(r2 * den, 1.0, 0), key="BWR2.value", payload=pay, timeout=60,
             describe="BWR2(m; q^2, q0^2) (m0^2 - m^2 - i m0 Gamma(m)) = 1 above threshold")
    ss.prove("BWR2.im_positive[L=%d]" % L, F, T.le(r2.im.t, T.ZERO), key="BWR2.im_positive", payload=pay)
    rn = _e(bw.BWR_normal(_t1(m), m0, g0, _t1(q * q), _t1(q0 * q0), L, d))
    F = facts()
    rn = simp(F, rn)
    # reference: sqrt(m0 Gamma) / (x - i m0 Gamma), compared component by component
    x = m0 * m0 - m * m
    y = m0 * gam
    amp = (m0 * gam).sqrt()
    ref = SymComplex(amp * x / (x * x + y * y), amp * y / (x * x + y * y))
    ss.prove("BWR_normal.value[L=%d]" % L, F, far_c(rn, ref, 0), key="BWR_normal.value", payload=pay, timeout=60,
             describe="BWR_normal(m) = sqrt(m0 Gamma(m)) / (m0^2 - m^2 - i m0 Gamma(m))")
    _definedness(ss, "BWR2[L=%d]" % L, "BWR2", pay)
    # below threshold (q^2 < 0 < q0^2): the documented formula analytically continued,
    # (q/q0)^(2L+1) = (q^2/q0^2)^L * i sqrt(-q^2/q0^2), i.e. an imaginary running width
    S.new_context()
    m, m0, g0, s_, q02, d = _pos("m"), _pos("m0"), _pos("g0"), _pos("s"), _pos("q02"), _pos("d")
    q2 = -s_
    z, z0 = q2 * d * d, q02 * d * d
    S.assume(P_ref(L, z) != 0)
    ratio = q2 / q02
    rL = SymReal(T.ONE)
    for _ in range(L):
        rL = rL * ratio
    gam_im = g0 * (m0 / m) * (P_ref(L, z0) / P_ref(L, z)) * rL * (s_ / q02).sqrt()  # Gamma = i * gam_im
    D = m0 * m0 - m * m + m0 * gam_im  # x - i m0 (i gam_im)
    S.assume(D != 0)
    payb = _model_payload("bwr2_below", ["m", "m0", "g0", "s", "q02", "d"], L=L)
    rb = _e(bw.BWR2(_t1(m), m0, g0, _t1(q2), _t1(q02), L, d))
    F = facts()
    rb = simp(F, rb)
    ss.prove("BWR2.below_threshold[L=%d]" % L, F, far_c(rb * SymComplex(D, SymReal(T.ZERO)), 1.0, 0), key="BWR2.below_threshold", payload=payb, timeout=60,
             describe="below threshold BWR2 = 1/(m0^2 - m^2 - i m0 Gamma) with Gamma = Gamma0 (q^2/q0^2)^L i sqrt(-q^2/q0^2) (m0/m) B_L^2 (analytic continuation)")
    ss.witness("BWR2.below.reach[L=%d]" % L, F)


def job_dom(ss, L):
    """sympy denominators are the reciprocals of the numeric line shapes"""
    import sympy

    from symx.sympy_bridge import translate
    from tf_pwa import breit_wigner as bw
    from tf_pwa import formula

    m, m0, g0, m1, m2 = _pos("m"), _pos("m0"), _pos("g0"), S.real("m1"), S.real("m2")
    S.assume(m1 >= 0)
    S.assume(m2 >= 0)
    S.assume(m > m1 + m2)
    S.assume(m0 > m1 + m2)
    pay = _model_payload("dom", ["m", "m0", "g0", "m1", "m2"], L=L)
    sm, sm0, sg0, sm1, sm2 = sympy.symbols("m m0 g0 m1 m2")
    mp = {sm: m, sm0: m0, sg0: g0, sm1: m1, sm2: m2}
    if L == 0:
        dom = translate(formula.BW_dom(sm, sm0, sg0), mp)
        r = _e(bw.BW(_t1(m), m0, g0))
        ss.prove("dom.BW", facts(), far_c(r * dom, 1.0, 0), key="dom.BW", payload=pay, describe="BW_dom x BW = 1")
    # numeric momenta exactly as Particle.__call__ computes them
    from tf_pwa.amp.core import get_relative_p

    q = _e(get_relative_p(_t1(m), _t1(m1), _t1(m2)))
    q0 = _e(get_relative_p(_t1(m0), _t1(m1), _t1(m2)))
    S.assume(q0 > Q0MIN)
    g = _e(bw.Gamma(_t1(m), g0, _t1(q), _t1(q0), L, m0, 3.0))
    dom = translate(formula.BWR_dom(sm, sm0, sg0, L, sm1, sm2), mp)
    F = facts()
    # BWR = 1/(m0^2 - m^2 - i m0 Gamma(m)) is decided under BWR.value; here the
    # denominator built by formula.py is compared with the numeric pieces
    ss.prove("dom.BWR.re[L=%d]" % L, F, far(dom.re.t, (m0 * m0 - m * m).t, 0), key="dom.BWR", payload=pay, describe="Re BWR_dom = m0^2 - m^2")
    ss.prove("dom.BWR.im[L=%d]" % L, F, far((-dom.im).t, (m0 * g).t, 0), key="dom.BWR", payload=pay, timeout=60,
             describe="-Im BWR_dom(m,m0,g0,L,m1,m2) = m0 Gamma(m) with Gamma from breit_wigner.Gamma and q, q0 from get_relative_p (so BWR_dom x BWR = 1 by BWR.value)")
    ss.witness("dom.reach[L=%d]" % L, F)
    ss.mutant("dom.mutant[L=%d]" % L, F, far((dom.im).t, (m0 * g).t, 0))
    if L <= 1:
        r = _e(bw.BWR(_t1(m), m0, g0, _t1(q), _t1(q0), L, 3.0))
        ss.prove("dom.BWR.product[L=%d]" % L, facts(), far_c(r * dom, 1.0, 0), key="dom.BWR", payload=pay, timeout=60, describe="BWR_dom x BWR(m) = 1 directly")


def job_barrier(ss, L):
    from tf_pwa import breit_wigner as bw

    q, q0, d = _pos("q"), _pos("q0"), _pos("d")
    pay = _model_payload("barrier", ["q", "q0", "d"], L=L)
    ls = list(range(L + 1))
    b1 = bw.barrier_factor(ls, _t1(q), _t1(q0), d).arr
    b2 = bw.barrier_factor2(ls, _t1(q), _t1(q0), d).arr
    F = facts()
    z, z0 = (q * d) * (q * d), (q0 * d) * (q0 * d)
    x = b1[L, 0]
    y = b2[0, L]
    ql = SymReal(T.ONE)
    for _ in range(L):
        ql = ql * q
    # x = q^L B_L  <=>  x >= 0 and x^2 P(z) = q^(2L) P(z0)
    ss.prove("barrier_factor.value[L=%d]" % L, F, T.bor(far((x * x * P_ref(L, z)).t, (ql * ql * P_ref(L, z0)).t, 0), T.lt(x.t, T.ZERO)), key="barrier_factor.value", payload=pay,
             describe="barrier_factor = q^L B_L(q,q0,d)")
    ss.prove("barrier_factor2.same[L=%d]" % L, F, far(x.t, y.t, 0), key="barrier_factor2.same", payload=pay)


def job_gs(ss):
    """Gounaris-Sakurai: h, dh/ds, D, f against the published formulas (log
    uninterpreted, equal arguments decided), then the assembly with D and f
    replaced by opaque values."""
    from tf_pwa import breit_wigner as bw

    # the code writes 3.14159265359 but passes it through tf.cast, i.e. through a
    # float32 tensor: the constant it actually uses is float32(pi) (relative
    # deviation 2.8e-8 from pi; reported as an observation, not a violation)
    PI = float(np.float32(3.14159265359))
    m, a, b = _pos("m"), _pos("a"), _pos("b")
    S.assume(m > a + b)
    S.assume(a >= b)
    pay = _model_payload("gs_parts", ["m", "a", "b", "m0", "g0"])
    s = m * m

    def kref(x):
        lam = (x * x - (a + b) * (a + b)) * (x * x - (a - b) * (a - b))
        return lam.sqrt() / (2 * x)

    def href(x):
        return (2.0 / PI) * (kref(x) / x) * ((x + 2.0 * kref(x)) / (a + b)).log()

    def dhref(x):
        return href(x) * (1.0 / (8.0 * kref(x) * kref(x)) - 1.0 / (2.0 * x * x)) + 1.0 / (2.0 * PI * x * x)

    k = _e(bw.twoBodyCMmom(_t1(m), _t1(a), _t1(b)))
    h = _e(bw.hFun(_t1(s), _t1(a), _t1(b)))
    dh = _e(bw.dh_dsFun(_t1(s), _t1(a), _t1(b)))
    dd = _e(bw.dFun(_t1(s), _t1(a), _t1(b)))
    F = facts()
    k, h, dh, dd = simp(F, k, h, dh, dd)
    sm24 = (a + b) * (a + b) / 4.0
    dref = 3.0 / PI * sm24 / (kref(m) * kref(m)) * ((m + 2 * kref(m)) / (a + b)).log() + m / (2 * PI * kref(m)) - sm24 * m / (PI * kref(m) * kref(m) * kref(m))
    ss.prove("GS.k", F, far(k.t, kref(m).t, 0), key="GS.parts", payload=pay, describe="twoBodyCMmom above threshold")
    ss.prove("GS.h", F, far(h.t, href(m).t, 0), key="GS.parts", payload=pay, timeout=60, describe="h(s) = (2/pi)(k/sqrt s) ln((sqrt s + 2k)/(m1+m2))")
    ss.prove("GS.dh_ds", F, far(dh.t, dhref(m).t, 0), key="GS.parts", payload=pay, timeout=60, describe="dh/ds = h (1/(8k^2) - 1/(2s)) + 1/(2 pi s)")
    ss.prove("GS.D", F, far(dd.t, dref.t, 0), key="GS.parts", payload=pay, timeout=60, describe="D(m0) of the GS model")
    # f(s)
    m0, g0 = _pos("m0"), _pos("g0")
    S.assume(m0 > a + b)
    f = _e(bw.fsFun(_t1(s), _t1(m0 * m0), _t1(g0), _t1(a), _t1(b)))
    F = facts()
    f = simp(F, f)
    k0 = kref(m0)
    fref = g0 * (m0 * m0) / (k0 * k0 * k0) * (kref(m) * kref(m) * (href(m) - href(m0)) + (m0 * m0 - s) * k0 * k0 * dhref(m0))
    ss.prove("GS.f", F, far(f.t, fref.t, 0), key="GS.parts", payload=pay, timeout=120, describe="f(s) = G0 m0^2/k0^3 [k^2 (h(s)-h(m0^2)) + (m0^2 - s) k0^2 h'(m0^2)]")
    ss.witness("GS.reach", F)
    ss.mutant("GS.mutant_dh", facts(), far(dh.t, (href(m) * (1.0 / (4.0 * kref(m) * kref(m)) - 1.0 / (2.0 * s)) + 1.0 / (2.0 * PI * s)).t, 0))
    # assembly with opaque D and f
    S.new_context()
    m, m0, g0, q, q0, d = _pos("m"), _pos("m0"), _pos("g0"), _pos("q"), _pos("q0"), _pos("d")
    Dv, fv = S.real("Dval"), S.real("fval")
    pay2 = _model_payload("gs_assembly", ["m", "m0", "g0", "q", "q0", "d", "Dval", "fval"])
    S.assume(q0 > Q0MIN)
    old_d, old_f = bw.dFun, bw.fsFun
    bw.dFun = lambda *a_, **k_: _t1(Dv)
    bw.fsFun = lambda *a_, **k_: _t1(fv)
    try:
        r = _e(bw.GS(_t1(m), _t1(m0), _t1(g0), _t1(q), _t1(q0), 1, d))
    finally:
        bw.dFun, bw.fsFun = old_d, old_f
    gam = _gamma_ref(1, m, m0, g0, q, q0, d)
    E = m0 * m0 - m * m + fv
    Fm = m0 * gam
    num = 1.0 + Dv * g0 / m0
    ref = SymComplex(num * E / (E * E + Fm * Fm), num * Fm / (E * E + Fm * Fm))
    F = facts() + [T.gt((E * E + Fm * Fm).t, T.ZERO)]
    ss.prove("GS.assembly", F, far_c(r, ref, 0), key="GS.assembly", payload=pay2, timeout=60,
             describe="GS = (1 + D G0/m0) / (m0^2 - m^2 + f - i m0 Gamma(m)) with D, f opaque (stubs for dFun, fsFun) and the real Gamma")


def run_job(job):
    ss = Session(job)
    if job[0] in ("pm", "pmdom", "calmom", "pmq", "pmls"):
        from . import C15pm

        if job[0] in ("calmom", "pmq"):
            {"calmom": C15pm.job_calmom, "pmq": C15pm.job_pmq}[job[0]](ss, job[2])
        else:
            {"pm": C15pm.job_pm, "pmdom": C15pm.job_pmdom, "pmls": C15pm.job_pmls}[job[0]](ss, job[2], job[1])
        return ss.records
    {
        "bw": job_bw, "cmmom": job_cmmom, "poly": job_poly, "bprime": job_bprime, "gamma": job_gamma, "bwr": job_bwr,
        "bwr2": job_bwr2, "dom": job_dom, "barrier": job_barrier, "gs": job_gs,
    }[job[0]](ss, *job[1:])
    return ss.records
