"""Realisation of a solver model of the toy likelihood on the REAL tf_pwa classes
under the real TensorFlow: the per-event density is a quadratic polynomial in the
parameters with exactly the value / first / second partials of the model."""
import re

import numpy as np


def parse_model(model):
    """-> dict: F[(tag, event)] = {'v': value, 'g': {k: .}, 'h': {(k,l): .}}"""
    F = {}
    for key, val in model.items():
        m = re.match(r"uf_([A-Za-z]+)(\d+)((?:_\d+)*)#\d+$", key)
        if not m:
            continue
        tag, ev, idx = m.group(1), int(m.group(2)), m.group(3)
        ent = F.setdefault((tag, ev), {"v": None, "g": {}, "h": {}})
        ids = [int(x) for x in idx.split("_") if x != ""]
        if not ids:
            ent["v"] = float(val)
        elif len(ids) == 1:
            ent["g"][ids[0]] = float(val)
        elif len(ids) == 2:
            ent["h"][tuple(sorted(ids))] = float(val)
    return F


def make_real_pdf(par_names, theta0, F, tag="F", default=1.0, vm=None, fixed=()):
    import tensorflow as tf
    from tf_pwa.amp.amp import AbsPDF
    from tf_pwa.variable import Variable, VarsManager

    class ToyPDF(AbsPDF):
        def init_params(self, name=""):
            self.pars = []
            for n in par_names:
                v = Variable(n, value=float(theta0.get(n, 1.0)))
                if n in fixed:
                    v.fixed(float(theta0.get(n, 1.0)))
                self.pars.append(v)

        def pdf(self, data):
            vals = [p() for p in self.pars]
            idx = np.asarray(data["idx"]).astype(int)
            c = np.array([(F.get((tag, int(i)), {}).get("v") if F.get((tag, int(i)), {}).get("v") is not None else default) for i in idx], dtype=np.float64)
            out = tf.convert_to_tensor(c)
            for k, n in enumerate(par_names):
                d = vals[k] - float(theta0.get(n, 1.0))
                g = np.array([F.get((tag, int(i)), {}).get("g", {}).get(k, 0.0) for i in idx], dtype=np.float64)
                out = out + tf.convert_to_tensor(g) * d
                for l, n2 in enumerate(par_names):
                    if l < k:
                        continue
                    d2 = vals[l] - float(theta0.get(n2, 1.0))
                    h = np.array([F.get((tag, int(i)), {}).get("h", {}).get((k, l), 0.0) for i in idx], dtype=np.float64)
                    fac = 0.5 if k == l else 1.0
                    out = out + fac * tf.convert_to_tensor(h) * d * d2
            return out

    if vm is None:
        vm = VarsManager(dtype=tf.float64)
    return ToyPDF(vm=vm)


def events(idx, weights=None, **extra):
    import tensorflow as tf

    d = {"idx": tf.convert_to_tensor(np.asarray(idx, dtype=np.int64))}
    if weights is not None:
        d["weight"] = tf.convert_to_tensor(np.asarray(weights, dtype=np.float64))
    for k, v in extra.items():
        d[k] = tf.convert_to_tensor(np.asarray(v, dtype=np.float64))
    return d


def fval(F, tag, i, default=1.0):
    v = F.get((tag, int(i)), {}).get("v")
    return default if v is None else v
