"""Helpers shared by the property harnesses (run under symtf in a worker)."""
from __future__ import annotations

import math
from fractions import Fraction

import numpy as np

from symx import scalar as S
from symx import term as T
from symx.scalar import SymComplex, SymReal

EPS = Fraction(1, 10**9)


def tensor_of(x, dtype="float64"):
    """numpy object array / scalar of symbolic values -> symtf tensor"""
    import tensorflow as tf

    a = np.empty(np.shape(x), dtype=object)
    if a.ndim == 0:
        a[()] = x
    else:
        a[...] = np.asarray(x, dtype=object)
    return tf.Tensor(a, tf.as_dtype(dtype))


def term_of(x):
    """real-valued element -> Term"""
    if isinstance(x, SymReal):
        return x.t
    if isinstance(x, SymComplex):
        raise TypeError("complex element where a real one was expected")
    return T.const(float(x), "R")


def re_im(x):
    """element -> (Term, Term)"""
    if isinstance(x, SymComplex):
        return x.re.t, x.im.t
    if isinstance(x, SymReal):
        return x.t, T.ZERO
    z = complex(x)
    return T.const(z.real, "R"), T.const(z.imag, "R")


def far(a, b, eps=EPS):
    """bool Term: |a - b| > eps   (eps = 0: a != b)"""
    if eps == 0:
        # cross-multiplied: N_a D_b != N_b D_a (equivalent where the
        # denominators are non-zero, which definedness obligations establish);
        # z3 normalises the polynomial instead of reasoning about quotients
        return T.cross_ne(a, b)
    d = T.sub(a, b)
    e = T.const(eps, "R")
    return T.bor(T.gt(d, e), T.lt(d, T.neg(e)))


def far_c(x, y, eps=EPS):
    xr, xi = re_im(x)
    yr, yi = re_im(y)
    return T.bor(far(xr, yr, eps), far(xi, yi, eps))


def model_angle(model, name, D=2):
    """angle value of a Weierstrass leaf from a solver model"""
    u = float(model.get("u_" + name, 0))
    return 2 * D * math.atan(u)


def mfloat(model, name, default=0.0):
    v = model.get(name, default)
    return float(v)


def facts():
    return list(S.ctx().facts)


def simp(F, *values):
    """resolve guards (ite / abs) that the preconditions decide, on SymReal /
    SymComplex / Term values; returns values of the same kinds"""
    from symx import lower

    terms = []
    for v in values:
        if isinstance(v, SymComplex):
            terms += [v.re.t, v.im.t]
        elif isinstance(v, SymReal):
            terms.append(v.t)
        else:
            terms.append(v)
    new = lower.resolve_guards(terms, F)
    out = []
    i = 0
    for v in values:
        if isinstance(v, SymComplex):
            out.append(SymComplex(SymReal(new[i]), SymReal(new[i + 1])))
            i += 2
        elif isinstance(v, SymReal):
            out.append(SymReal(new[i]))
            i += 1
        else:
            out.append(new[i])
            i += 1
    return out[0] if len(out) == 1 else out


def lemma(ss, name, cond, timeout=20.0):
    """prove a condition from the current facts, then add it to the facts so
    that the code's guards on exactly this condition are resolved"""
    t = cond.t if hasattr(cond, "t") else cond
    if t is True or t is T.TRUE:
        return
    rec = ss.prove(name, facts(), T.bnot(t), timeout=timeout, key="lemma", describe="derived fact used to resolve a guard in the code")
    if rec["status"] == "unsat":
        S.ctx().fact(t)


def prove_close_poly(ss, name, a, b, eps, bound, key=None, payload=None, describe=None, timeout=60.0, limit=40000, var_bounds=None):
    """Obligation |a - b| <= eps for every assignment of the variables in their boxes
    ([-bound, bound], or var_bounds[name] = (lo, hi) for the variables listed there).

    a - b is expanded into a polynomial; every non-constant monomial c_k m_k is replaced by a fresh
    real variable t_k ranging over the interval of c_k m_k on the box (one-sided for even monomials).
    The abstraction over-approximates the reachable values, so 'unsat' of the linear queries proves
    the bound.  The monomials are handled in chunks of 250: chunk g gets the tolerance e_g with
    sum_g e_g = eps (allocated in proportion to the chunks' interval widths), and z3 decides
    |sum of chunk g| <= e_g in linear real arithmetic.  A 'sat' answer of the abstraction is only
    kept when a concrete assignment of the original variables (searched by evaluation at corners and
    seeded random points, then replayed on the real code by the harness) violates the bound,
    otherwise the full non-linear query decides."""
    import random

    d = T.sub(a, b)
    memo = {}
    p = T._poly_of(d, limit, memo)
    atoms = memo.get("atoms", {})
    if p is None or any(t.op != "var" for t in atoms.values()):
        return ss.prove(name, facts(), far(a, b, eps), key=key, payload=payload, describe=describe, timeout=timeout)
    B = Fraction(bound)
    var_bounds = var_bounds or {}

    def box(aid):
        nm = atoms[aid].args[0]
        lo, hi = var_bounds.get(nm, (-B, B))
        return Fraction(lo), Fraction(hi)

    def mono_range(k):
        lo, hi = Fraction(1), Fraction(1)
        for aid, e in k:
            l, h = box(aid)
            if e % 2 == 0:
                cands = [l**e, h**e]
                pl, ph = (Fraction(0) if l <= 0 <= h else min(cands)), max(cands)
            else:
                pl, ph = l**e, h**e
            prods = [lo * pl, lo * ph, hi * pl, hi * ph]
            lo, hi = min(prods), max(prods)
        return lo, hi

    items = []
    for k, c in sorted(p.items()):
        if k == ():
            continue
        lo, hi = mono_range(k)
        lo, hi = (c * lo, c * hi) if c > 0 else (c * hi, c * lo)
        items.append((lo, hi))
    c0 = p.get((), Fraction(0))
    chunk = 250
    groups = [items[i : i + chunk] for i in range(0, len(items), chunk)] or [[]]
    # tolerance allocation: proportional to the interval half-widths (plus the constant term in chunk 0)
    need = [max(abs(sum(lo for lo, _ in g) + (c0 if gi == 0 else 0)), abs(sum(hi for _, hi in g) + (c0 if gi == 0 else 0))) for gi, g in enumerate(groups)]
    tot_need = sum(need)
    E = Fraction(eps)
    if tot_need > 0:
        e_gs = [E * n / tot_need if tot_need > E else n + (E - tot_need) / len(groups) for n in need]
    else:
        e_gs = [E / len(groups)] * len(groups)
    status, secs, reason = "unsat", 0.0, None
    r = None
    for gi, grp in enumerate(groups):
        F = []
        ts = [T.const(c0, "R")] if gi == 0 else []
        for j, (lo, hi) in enumerate(grp):
            t = T.fresh("mono%d_%d_" % (gi, j))
            F += [T.ge(t, T.const(lo, "R")), T.le(t, T.const(hi, "R"))]
            ts.append(t)
        ssum = T.add(*ts) if ts else T.ZERO
        e = T.const(e_gs[gi], "R")
        r = ss.prove("%s.chunk%d" % (name, gi) if len(groups) > 1 else name, F, T.bor(T.gt(ssum, e), T.lt(ssum, T.neg(e))), key=key, describe=describe, timeout=timeout)
        r["how"] = "monomial abstraction (%d of %d monomials, linear real arithmetic)" % (len(grp), len(items))
        secs += r.get("seconds", 0.0)
        if r["status"] != "unsat":
            status, reason = r["status"], r.get("reason")
            r.pop("model", None)
            break
    if len(groups) > 1:
        rec = ss._rec(kind="obligation", name=name, key=key or name, status=status, seconds=round(secs, 4), describe=describe)
        rec["how"] = "monomial abstraction: %d monomials in %d chunks, |chunk sum| <= e_g with sum e_g = eps, by linear real arithmetic" % (len(items), len(groups))
        if reason:
            rec["reason"] = reason
        if status == "sat":
            # the chunk record must not be replayed on its own: the combined record carries the verdict
            r["status"] = "unknown-chunk"
            r["kind"] = "note"
    else:
        rec = r
    rec["abstraction_bound"] = float(tot_need)
    if rec["status"] != "sat":
        return rec
    # concrete witness in the original variables
    vs = list(atoms.values())
    ids = {t: aid for aid, t in atoms.items()}
    rnd = random.Random(11)
    found = None
    for trial in range(400):
        env = {}
        for v in vs:
            l, h = box(ids[v])
            if trial < 200:
                env[v] = h if rnd.random() < 0.5 else l
            else:
                env[v] = Fraction(rnd.uniform(float(l), float(h))).limit_denominator(1000)
        try:
            val = T.evaluate([d], env, exact=True)[0]
        except Exception:
            continue
        if abs(val) > eps:
            found = env
            break
    rec.pop("model", None)
    if found is None:
        box_f = []
        for v in vs:
            l, h = box(ids[v])
            box_f += [T.ge(v, T.const(l, "R")), T.le(v, T.const(h, "R"))]
        r2 = ss.prove(name + ".nonlinear", box_f, far(a, b, eps), key=key, payload=payload, describe=describe, timeout=timeout)
        rec["status"] = "unsat" if r2["status"] == "unsat" else ("sat" if r2["status"] == "sat" else "unknown")
        if r2["status"] == "sat":
            r2["kind"] = "note"
            rec["model"] = r2.get("model")
            if "payload" in r2:
                rec["payload"] = r2["payload"]
        rec["reason"] = "abstraction satisfiable; decided by the non-linear query" if r2["status"] != "unknown" else "abstraction satisfiable, no concrete witness found, non-linear query undecided"
        return rec
    model = {v.args[0]: float(x) for v, x in found.items()}
    rec["model"] = model
    if payload is not None:
        rec["payload"] = payload(model)
    return rec


def poly_sup_bound(t, bound, limit=40000):
    """upper bound of |t| on the box [-bound, bound]^n from its monomial expansion (None when t is not a polynomial in variables)"""
    memo = {}
    p = T._poly_of(t, limit, memo)
    if p is None or any(x.op != "var" for x in memo.get("atoms", {}).values()):
        return None
    B = Fraction(bound)
    return sum(abs(c) * B ** sum(e for _a, e in k) for k, c in p.items())


def poly_to_term(p, atoms):
    """monomial dictionary of T._poly_of -> Term"""
    monos = []
    for k in sorted(p):
        fs = [T.const(p[k], "R")]
        for a, e in k:
            fs.append(atoms[a] if e == 1 else T.ipow(atoms[a], e))
        monos.append(T.mul(*fs))
    return T.add(*monos) if monos else T.ZERO


def reduce_circle(p, atoms, pairs):
    """normal form of a polynomial modulo c^2 + s^2 = 1 for each (c, s) pair of variables: powers of s above 1 are
    rewritten with s^2 = 1 - c^2 (the normal form is unique, so a polynomial that vanishes on the circles has zero coefficients)"""
    ids = {t: a for a, t in atoms.items()}
    for c, s in pairs:
        if s not in ids:
            continue
        sid = ids[s]
        if c not in ids:
            atoms[c.id] = c
            ids[c] = c.id
        cid = ids[c]
        out = {}
        for k, v in p.items():
            d = dict(k)
            e = d.pop(sid, 0)
            h, r = divmod(e, 2)
            base_c = d.pop(cid, 0)
            # (1 - c^2)^h = sum_j binom(h, j) (-1)^j c^(2j)
            for j in range(h + 1):
                coef = v * math.comb(h, j) * (-1) ** j
                d2 = dict(d)
                ce = base_c + 2 * j
                if ce:
                    d2[cid] = ce
                if r:
                    d2[sid] = r
                kk = tuple(sorted(d2.items()))
                nv = out.get(kk, 0) + coef
                if nv == 0:
                    out.pop(kk, None)
                else:
                    out[kk] = nv
        p = out
    return p
