"""Helpers shared by the property harnesses (run under symtf in a worker)."""
from __future__ import annotations

import math
from fractions import Fraction

import numpy as np

from symx import scalar as S
from symx import term as T
from symx.scalar import SymComplex, SymReal

EPS = Fraction(1, 10**9)


def tensor_of(x, dtype="float64"):
    """numpy object array / scalar of symbolic values -> symtf tensor"""
    import tensorflow as tf

    a = np.empty(np.shape(x), dtype=object)
    if a.ndim == 0:
        a[()] = x
    else:
        a[...] = np.asarray(x, dtype=object)
    return tf.Tensor(a, tf.as_dtype(dtype))


def term_of(x):
    """real-valued element -> Term"""
    if isinstance(x, SymReal):
        return x.t
    if isinstance(x, SymComplex):
        raise TypeError("complex element where a real one was expected")
    return T.const(float(x), "R")


def re_im(x):
    """element -> (Term, Term)"""
    if isinstance(x, SymComplex):
        return x.re.t, x.im.t
    if isinstance(x, SymReal):
        return x.t, T.ZERO
    z = complex(x)
    return T.const(z.real, "R"), T.const(z.imag, "R")


def far(a, b, eps=EPS):
    """bool Term: |a - b| > eps   (eps = 0: a != b)"""
    if eps == 0:
        # cross-multiplied: N_a D_b != N_b D_a (equivalent where the
        # denominators are non-zero, which definedness obligations establish);
        # z3 normalises the polynomial instead of reasoning about quotients
        return T.cross_ne(a, b)
    d = T.sub(a, b)
    e = T.const(eps, "R")
    return T.bor(T.gt(d, e), T.lt(d, T.neg(e)))


def far_c(x, y, eps=EPS):
    xr, xi = re_im(x)
    yr, yi = re_im(y)
    return T.bor(far(xr, yr, eps), far(xi, yi, eps))


def model_angle(model, name, D=2):
    """angle value of a Weierstrass leaf from a solver model"""
    u = float(model.get("u_" + name, 0))
    return 2 * D * math.atan(u)


def mfloat(model, name, default=0.0):
    v = model.get(name, default)
    return float(v)


def facts():
    return list(S.ctx().facts)


def simp(F, *values):
    """resolve guards (ite / abs) that the preconditions decide, on SymReal /
    SymComplex / Term values; returns values of the same kinds"""
    from symx import lower

    terms = []
    for v in values:
        if isinstance(v, SymComplex):
            terms += [v.re.t, v.im.t]
        elif isinstance(v, SymReal):
            terms.append(v.t)
        else:
            terms.append(v)
    new = lower.resolve_guards(terms, F)
    out = []
    i = 0
    for v in values:
        if isinstance(v, SymComplex):
            out.append(SymComplex(SymReal(new[i]), SymReal(new[i + 1])))
            i += 2
        elif isinstance(v, SymReal):
            out.append(SymReal(new[i]))
            i += 1
        else:
            out.append(new[i])
            i += 1
    return out[0] if len(out) == 1 else out


def lemma(ss, name, cond, timeout=20.0):
    """prove a condition from the current facts, then add it to the facts so
    that the code's guards on exactly this condition are resolved"""
    t = cond.t if hasattr(cond, "t") else cond
    if t is True or t is T.TRUE:
        return
    rec = ss.prove(name, facts(), T.bnot(t), timeout=timeout, key="lemma", describe="derived fact used to resolve a guard in the code")
    if rec["status"] == "unsat":
        S.ctx().fact(t)
