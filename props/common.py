"""Helpers shared by the property harnesses (run under symtf in a worker)."""
from __future__ import annotations

import math
from fractions import Fraction

import numpy as np

from symx import scalar as S
from symx import term as T
from symx.scalar import SymComplex, SymReal

EPS = Fraction(1, 10**9)


def tensor_of(x, dtype="float64"):
    """numpy object array / scalar of symbolic values -> symtf tensor"""
    import tensorflow as tf

    a = np.empty(np.shape(x), dtype=object)
    if a.ndim == 0:
        a[()] = x
    else:
        a[...] = np.asarray(x, dtype=object)
    return tf.Tensor(a, tf.as_dtype(dtype))


def term_of(x):
    """real-valued element -> Term"""
    if isinstance(x, SymReal):
        return x.t
    if isinstance(x, SymComplex):
        raise TypeError("complex element where a real one was expected")
    return T.const(float(x), "R")


def re_im(x):
    """element -> (Term, Term)"""
    if isinstance(x, SymComplex):
        return x.re.t, x.im.t
    if isinstance(x, SymReal):
        return x.t, T.ZERO
    z = complex(x)
    return T.const(z.real, "R"), T.const(z.imag, "R")


def far(a, b, eps=EPS):
    """bool Term: |a - b| > eps   (eps = 0: a != b)"""
    if eps == 0:
        # cross-multiplied: N_a D_b != N_b D_a (equivalent where the
        # denominators are non-zero, which definedness obligations establish);
        # z3 normalises the polynomial instead of reasoning about quotients
        return T.cross_ne(a, b)
    d = T.sub(a, b)
    e = T.const(eps, "R")
    return T.bor(T.gt(d, e), T.lt(d, T.neg(e)))


def far_c(x, y, eps=EPS):
    xr, xi = re_im(x)
    yr, yi = re_im(y)
    return T.bor(far(xr, yr, eps), far(xi, yi, eps))


def model_angle(model, name, D=2):
    """angle value of a Weierstrass leaf from a solver model"""
    u = float(model.get("u_" + name, 0))
    return 2 * D * math.atan(u)


def mfloat(model, name, default=0.0):
    v = model.get(name, default)
    return float(v)


def facts():
    return list(S.ctx().facts)


def simp(F, *values):
    """resolve guards (ite / abs) that the preconditions decide, on SymReal /
    SymComplex / Term values; returns values of the same kinds"""
    from symx import lower

    terms = []
    for v in values:
        if isinstance(v, SymComplex):
            terms += [v.re.t, v.im.t]
        elif isinstance(v, SymReal):
            terms.append(v.t)
        else:
            terms.append(v)
    new = lower.resolve_guards(terms, F)
    out = []
    i = 0
    for v in values:
        if isinstance(v, SymComplex):
            out.append(SymComplex(SymReal(new[i]), SymReal(new[i + 1])))
            i += 2
        elif isinstance(v, SymReal):
            out.append(SymReal(new[i]))
            i += 1
        else:
            out.append(new[i])
            i += 1
    return out[0] if len(out) == 1 else out


def lemma(ss, name, cond, timeout=20.0):
    """prove a condition from the current facts, then add it to the facts so
    that the code's guards on exactly this condition are resolved"""
    t = cond.t if hasattr(cond, "t") else cond
    if t is True or t is T.TRUE:
        return
    rec = ss.prove(name, facts(), T.bnot(t), timeout=timeout, key="lemma", describe="derived fact used to resolve a guard in the code")
    if rec["status"] == "unsat":
        S.ctx().fact(t)


def prove_close_poly(ss, name, a, b, eps, bound, key=None, payload=None, describe=None, timeout=60.0, limit=40000):
    """Obligation |a - b| <= eps for every assignment of the variables in [-bound, bound].

    a - b is expanded into a polynomial; every non-constant monomial is replaced by a fresh
    real variable ranging over [-bound^deg, bound^deg] ([0, bound^deg] for monomials that are
    squares).  The abstraction over-approximates the reachable values, so 'unsat' of the linear
    query proves the bound; a 'sat' answer of the abstraction is only kept when a concrete
    assignment of the original variables (searched by evaluation at corners and seeded random
    points, then replayed on the real code by the harness) violates the bound, otherwise the
    full non-linear query decides."""
    import random

    d = T.sub(a, b)
    memo = {}
    p = T._poly_of(d, limit, memo)
    atoms = memo.get("atoms", {})
    if p is None or any(t.op != "var" for t in atoms.values()):
        return ss.prove(name, facts(), far(a, b, eps), key=key, payload=payload, describe=describe, timeout=timeout)
    B = Fraction(bound)
    # scaled monomials t_k = c_k * m_k range over [-|c_k| B^deg, |c_k| B^deg] ([0, .] or [., 0] for squares);
    # the sum is decided chunk by chunk (|sum over chunk| <= eps / #chunks), each a small linear query
    items = []
    for k, c in sorted(p.items()):
        if k == ():
            continue
        deg = sum(e for _a, e in k)
        h = abs(c) * B**deg
        if all(e % 2 == 0 for _a, e in k):
            lo, hi = (Fraction(0), h) if c > 0 else (-h, Fraction(0))
        else:
            lo, hi = -h, h
        items.append((lo, hi))
    c0 = p.get((), Fraction(0))
    chunk = 250
    groups = [items[i : i + chunk] for i in range(0, len(items), chunk)] or [[]]
    e_g = Fraction(eps) / len(groups)
    status, secs, reason = "unsat", 0.0, None
    for gi, grp in enumerate(groups):
        F = []
        ts = [T.const(c0, "R")] if gi == 0 else []
        for j, (lo, hi) in enumerate(grp):
            t = T.fresh("mono%d_%d_" % (gi, j))
            F += [T.ge(t, T.const(lo, "R")), T.le(t, T.const(hi, "R"))]
            ts.append(t)
        ssum = T.add(*ts) if ts else T.ZERO
        e = T.const(e_g, "R")
        r = ss.prove("%s.chunk%d" % (name, gi) if len(groups) > 1 else name, F, T.bor(T.gt(ssum, e), T.lt(ssum, T.neg(e))), key=key, describe=describe, timeout=timeout)
        r["how"] = "monomial abstraction (%d of %d monomials, linear real arithmetic)" % (len(grp), len(items))
        secs += r.get("seconds", 0.0)
        if r["status"] != "unsat":
            status, reason = r["status"], r.get("reason")
            r.pop("model", None)
            break
    if len(groups) > 1:
        rec = ss._rec(kind="obligation", name=name, key=key or name, status=status, seconds=round(secs, 4), describe=describe)
        rec["how"] = "monomial abstraction: %d monomials in %d chunks, each |chunk sum| <= eps/%d by linear real arithmetic" % (len(items), len(groups), len(groups))
        if reason:
            rec["reason"] = reason
        if status == "sat":
            # the chunk record must not be replayed on its own: the combined record carries the verdict
            r["status"] = "unknown-chunk"
            r["kind"] = "note"
    else:
        rec = r
    if rec["status"] != "sat":
        return rec
    # concrete witness in the original variables
    vs = list(atoms.values())
    rnd = random.Random(11)
    found = None
    for trial in range(400):
        if trial < 200:
            env = {v: (B if rnd.random() < 0.5 else -B) for v in vs}
        else:
            env = {v: Fraction(rnd.uniform(-float(B), float(B))).limit_denominator(1000) for v in vs}
        try:
            val = T.evaluate([d], env, exact=True)[0]
        except Exception:
            continue
        if abs(val) > eps:
            found = env
            break
    rec.pop("model", None)
    if found is None:
        r2 = ss.prove(name + ".nonlinear", [T.ge(v, T.const(-B, "R")) for v in vs] + [T.le(v, T.const(B, "R")) for v in vs], far(a, b, eps), key=key, payload=payload, describe=describe, timeout=timeout)
        rec["status"] = "unsat" if r2["status"] == "unsat" else "unknown"
        rec["reason"] = "abstraction satisfiable; decided by the non-linear query" if r2["status"] != "unknown" else "abstraction satisfiable, no concrete witness found, non-linear query undecided"
        return rec
    model = {v.args[0]: float(x) for v, x in found.items()}
    rec["model"] = model
    if payload is not None:
        rec["payload"] = payload(model)
    return rec
