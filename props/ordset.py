"""A set whose iteration order is an explicit, harness-controlled schedule.

CPython iterates a set of strings in an order that depends on the per-process
string hash seed (PYTHONHASHSEED).  Code that iterates a set therefore has one
more input, the iteration order; the harnesses make it explicit by rebinding the
module-global name ``set`` of the module under analysis (a module global shadows
the builtin; /repo is not modified) to this class and running the code once per
ranking of the alphabet.  The same rebinding is used by the replay on the real
code, so a counterexample reproduces deterministically."""
import string

ALPHABET = string.ascii_letters
_RANK = {c: i for i, c in enumerate(ALPHABET)}


def set_ranking(order=None):
    """order: string of symbols, most-prior first; unnamed symbols follow in natural order"""
    global _RANK
    order = order or ""
    rest = [c for c in ALPHABET if c not in order]
    _RANK = {c: i for i, c in enumerate(list(order) + rest)}


def _key(x):
    return (_RANK.get(x, 10**6), repr(x))


class OrdSet(set):
    def __iter__(self):
        return iter(sorted(set.__iter__(self), key=_key))

    def __sub__(self, o):
        return OrdSet(set.__sub__(self, o))

    def __and__(self, o):
        return OrdSet(set.__and__(self, o))

    def __or__(self, o):
        return OrdSet(set.__or__(self, o))

    def __rsub__(self, o):
        return OrdSet(set.__rsub__(self, o))

    __rand__ = __and__
    __ror__ = __or__


def install(module):
    module.set = OrdSet


def uninstall(module):
    if "set" in module.__dict__:
        del module.__dict__["set"]
