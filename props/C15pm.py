"""C15, second layer — the *registered particle models* (classes behind ``model: <name>`` in a
configuration) against the formulas of their own docstrings.

The model is built by ConfigLoader exactly as a user would (A -> R D, R -> B C, dyadic masses), the
resonance's parameters and the invariant mass m are symbolic, and the value is taken from
``DecayChain.get_amp_particle`` — i.e. through the decay's own computation of |q|, |q0| — or from
``Particle.__call__`` for the pole-search denominators (``get_sympy_dom``)."""
from __future__ import annotations

import copy
from fractions import Fraction

import numpy as np

from symx import scalar as S
from symx import term as T
from symx.scalar import SymComplex, SymReal

from .common import facts, far, far_c, simp, tensor_of

MA, MB, MC, MD = 4.5, 1.5, 0.5, 0.25  # dyadic: the code's own float sums of these masses are exact
THR = MB + MC  # 2.0
Q0MIN = 1e-15
D = 3.0

# J^P of the resonance -> lowest orbital angular momentum of R -> B C (two 0^- daughters)
JP = {0: (0, 1), 1: (1, -1), 2: (2, 1), 3: (3, -1)}

FLATTE_ML = [[0.5, 0.5], [1.0, 1.5]]  # thresholds 1.0 and 2.5


def cfg(model, L=1, **extra):
    J, P = JP[L]
    r = {"J": J, "P": P, "mass": 3.0, "width": 0.125, "model": model}
    r.update(extra)
    return {
        "data": {"dat_order": ["B", "C", "D"]},
        "decay": {"A": [["R_BC", "D"]], "R_BC": ["B", "C"]},
        "particle": {
            "$top": {"A": {"J": 0, "P": -1, "mass": MA}},
            "$finals": {"B": {"J": 0, "P": -1, "mass": MB}, "C": {"J": 0, "P": -1, "mass": MC}, "D": {"J": 0, "P": -1, "mass": MD}},
            "R_BC": r,
        },
    }


# tag -> (model name, L, extra configuration of the resonance, parameter names beyond mass)
def variants(tier):
    v = []
    Ls = (0, 1, 2)  # L = 3 at class level (momenta as radicals of m, m0): pm.value and its mutants are not decided within 120 s -> outside the bound; L <= 7 holds at function level
    for L in Ls:
        for mdl in ("BWR", "BWR2", "BWR_below", "BWR_coupling", "BWR_normal"):
            v.append(("%s.L%d" % (mdl, L), mdl, L, {}))
    v.append(("default.L1", "default", 1, {}))
    v.append(("BW.L1", "BW", 1, {}))
    v.append(("BWR.norw.L1", "BWR", 1, {"running_width": False}))
    v.append(("BWR2.norw.L1", "BWR2", 1, {"running_width": False}))
    v.append(("BWR.wnorm.L1", "BWR", 1, {"width_norm": True}))
    v.append(("BWR_below.below.L0", "BWR_below", 0, {"__below__": True}))
    v.append(("BWR_below.below.L1", "BWR_below", 1, {"__below__": True}))
    v.append(("LASS.L0", "LASS", 0, {}))
    v.append(("one.L1", "one", 1, {}))
    v.append(("x.L1", "x", 1, {}))
    v.append(("exp.L1", "exp", 1, {}))
    v.append(("exp_com.L1", "exp_com", 1, {}))
    v.append(("GS_rho.L1", "GS_rho", 1, {}))
    for mdl in ("Flatte", "FlatteC"):
        v.append(("%s.L0" % mdl, mdl, 0, {"mass_list": FLATTE_ML}))
    gens = [{}, {"l_list": [0, 1]}, {"l_list": [1, 2], "has_bprime": False}, {"l_list": [0, 1], "cut_phsp": True}, {"l_list": [0, 1], "no_m0": True}, {"l_list": [1, 0], "no_q0": True}]
    if tier != "quick":
        gens += [{"l_list": [2, 1]}, {"l_list": [1, 1], "no_q0": True, "no_m0": True}, {"l_list": [1, 2], "cut_phsp": True, "has_bprime": False}]
    for mdl in ("FlatteGen", "Flatte2"):
        for k, g in enumerate(gens):
            e = dict(mass_list=FLATTE_ML)
            e.update(g)
            v.append(("%s.v%d" % (mdl, k), mdl, 0, e))
    return v


def jobs(tier):
    return [("pm", tag) for tag, _m, _L, _e in variants(tier)] + [("pmdom", tag) for tag in dom_tags(tier)] + [("calmom", ""), ("pmq", "")] + ls_jobs(tier)


def dom_tags(tier):
    t = ["BWR.L0", "BWR.L1", "BWR.L2", "BW.L1", "BWR.norw.L1", "BWR_coupling.L0", "BWR_coupling.L1", "BWR_coupling.L2", "Flatte.L0", "FlatteC.L0"]
    t += [tag for tag, m, _L, _e in variants(tier) if m in ("FlatteGen", "Flatte2")]
    return t


def _find(tier_variants, tag):
    for v in tier_variants:
        if v[0] == tag:
            return v
    raise KeyError(tag)


def _pos(name, lo=None):
    x = S.real(name)
    S.assume(x > (0 if lo is None else lo))
    return x


def _c(x):
    return SymReal(T.const(x, "R")) if not isinstance(x, (SymReal, SymComplex)) else x


def _e(t):
    x = t.arr.reshape(-1)[0] if hasattr(t, "arr") else t
    if isinstance(x, (SymReal, SymComplex)):
        return x
    if isinstance(x, (complex, np.complexfloating)):
        return S.lift(complex(x))
    return SymReal(T.const(float(x), "R"))


def build(model, L, extra):
    from tf_pwa.config_loader import ConfigLoader

    extra = {k: v for k, v in extra.items() if not k.startswith("__")}
    config = ConfigLoader(copy.deepcopy(cfg(model, L, **extra)))
    amp = config.get_amplitude()
    chain = list(amp.decay_group)[0]
    R = list(chain.inner)[0]
    return amp, chain, R


def q2_of(m, m1, m2):
    """documented breakup momentum squared: (m^2-(m1+m2)^2)(m^2-(m1-m2)^2)/(4 m^2)"""
    return (m * m - (m1 + m2) * (m1 + m2)) * (m * m - (m1 - m2) * (m1 - m2)) / (4 * m * m)


def _pw(x, n):
    r = SymReal(T.ONE)
    for _ in range(n):
        r = r * x
    return r


def _payload(tag, names, **kw):
    def f(model):
        d = dict(kind="pm", tag=tag, **kw)
        d["values"] = {n: float(model.get(n, 1.0)) for n in names}
        return d

    return f


def _assign(amp, name, value):
    amp.vm.variables[name].assign(tensor_of(value))


def _eval_chain(chain, R, m, preset=None):
    data_p = {}
    for p in chain.outs:
        data_p[p] = {"m": tensor_of([_c(float(p.get_mass()))])}
    data_p[chain.top] = {"m": tensor_of([_c(MA)])}
    data_p[R] = {"m": tensor_of([m])}
    data_c = {d: {} for d in chain}
    if preset:
        for d in chain:
            if d.core is R:
                data_c[d].update({k: tensor_of([v]) for k, v in preset.items()})
    LAST["data_c"] = data_c
    r = chain.get_amp_particle(data_p, data_c, all_data={"particle": data_p, "decay": data_c})
    return _e(r)


LAST = {}
SYMQ = ("LASS", "BWR_normal", "GS_rho")  # models that read |q|, |q0| from the decay data only: decided with q, q0 as free symbols


def _inv(den_re, den_im):
    """1/(den_re + i den_im) component-wise"""
    n = den_re * den_re + den_im * den_im
    return SymComplex(den_re / n, -(den_im / n))


def job_pm(ss, tier, tag):
    from .C15 import P_ref, _definedness, _gamma_ref

    _t, model, L, extra = _find(variants(tier), tag)
    amp, chain, R = build(model, L, extra)
    names = ["m", "m0"]
    below = bool(extra.get("__below__"))
    m = _pos("m")
    if model in ("Flatte", "FlatteC", "FlatteGen", "Flatte2"):
        # thresholds at 1.0 and 2.5: every region of m (and of m0 for the generalised forms) above the
        # pseudo-thresholds |ma - mb| <= 1/2 (below them q_i^2 changes sign once more: outside the bound)
        S.assume(m > Fraction(1, 2))
        m0 = _pos("m0", Fraction(1, 2))
    elif below:
        S.assume(m > THR)
        m0 = _pos("m0", Fraction(1, 2))
        S.assume(m0 < THR)
    else:
        S.assume(m > THR)
        m0 = _pos("m0", THR)
    has_mass = "R_BC_mass" in amp.vm.variables
    if has_mass:
        _assign(amp, "R_BC_mass", m0)
    g0 = None
    if "R_BC_width" in amp.vm.variables:
        g0 = _pos("g0")
        names.append("g0")
        _assign(amp, "R_BC_width", g0)
    par = {}
    for n in list(amp.vm.variables):
        if n.startswith("R_BC_") and n not in ("R_BC_mass", "R_BC_width"):
            short = n[len("R_BC_"):]
            par[short] = S.real("p_" + short)
            names.append("p_" + short)
            _assign(amp, n, par[short])
    preset = None
    symq = model in SYMQ and extra.get("running_width", True)
    if symq:
        # compositional: the class reads |q|, |q0| from the decay data; they are free positive symbols here and
        # decided to be the documented break-up momenta by the pmq job
        qs, q0s = _pos("q"), _pos("q0")
        names += ["q", "q0"]
        preset = {"|q|": qs, "|q0|": q0s, "|q|2": qs * qs, "|q0|2": q0s * q0s}
    flat = model.startswith("Flatte")
    if flat:
        import tf_pwa.amp.flatte as fl

        stub = _MomStub(m, extra["mass_list"])
        old_cal = fl.cal_monentum
        fl.cal_monentum = stub
        names += stub.names()
    pay = _payload(tag, names, model=model, L=L, extra=extra, symq=bool(symq))
    try:
        ok, r = ss.attempt("pm.runs[%s]" % tag, lambda: _eval_chain(chain, R, m, preset), key="pm.runs", payload=pay({}), describe="the model evaluates")
    finally:
        if flat:
            fl.cal_monentum = old_cal
    if not ok:
        return
    ndef = len(S.ctx().definedness)
    if symq:
        q, q02, q2 = qs, q0s * q0s, qs * qs
    else:
        q2 = q2_of(m, _c(MB), _c(MC))
        q = q2.sqrt() if not flat else None
        q02 = q2_of(m0, _c(MB), _c(MC))
    key = "pm.%s" % model
    name = "pm.value[%s]" % tag
    F = facts()

    def prove_inverse(den_re, den_im, extraF=(), describe=None, im_positive=True, timeout=60):
        FF = facts() + list(extraF)
        rr = simp(FF, r)
        ss.prove(name, FF, far_c(rr * SymComplex(den_re, den_im), 1.0, 0), key=key, payload=pay, describe=describe, timeout=timeout)
        if im_positive:
            ss.prove("pm.im_positive[%s]" % tag, FF, T.le(rr.im.t, T.ZERO), key=key + ".im", payload=pay, describe="Im R(m) > 0 for positive width")
        ss.witness("pm.reach[%s]" % tag, FF)
        ss.mutant("pm.mutant_conj[%s]" % tag, FF, far_c(rr * SymComplex(den_re, -den_im), 1.0, 0))
        return rr

    if model in ("BWR", "default", "BWR2", "BWR_normal", "BW", "BWR_below") and not below:
        running = extra.get("running_width", True) and model != "BW"
        if running:
            q0 = q0s if symq else q02.sqrt()
            S.assume(q0 > Q0MIN)
            gam = _gamma_ref(L, m, m0, g0, q, q0, D)
        else:
            gam = g0
        den_re, den_im = m0 * m0 - m * m, -(m0 * gam)
        if model == "BWR_normal" and running:
            from tf_pwa import breit_wigner as bw

            FF = facts()
            ref = _e(bw.BWR_normal(tensor_of([m]), tensor_of(m0), tensor_of(g0), tensor_of([q * q]), tensor_of([q0 * q0]), L, D))
            rr, ref = simp(FF, r, ref)
            ss.prove(name, FF, far_c(rr, ref, 0), key=key, payload=pay, timeout=60, describe="BWR_normal (class) = breit_wigner.BWR_normal(m, m0, Gamma0, |q|^2, |q0|^2, L, d) with the decay's momenta (the function equals sqrt(m0 Gamma)/(m0^2 - m^2 - i m0 Gamma) by BWR_normal.value; |q|, |q0| by pmq)")
            ss.witness("pm.reach[%s]" % tag, FF)
            ss.mutant("pm.mutant[%s]" % tag, FF, far_c(rr, ref * SymComplex(SymReal(T.ZERO), SymReal(T.ONE)), 0))
        elif extra.get("width_norm"):
            FF = facts()
            rr = simp(FF, r)
            n = den_re * den_re + den_im * den_im
            ref = SymComplex(g0 * den_re / n, -(g0 * den_im / n))
            ss.prove(name, FF, far_c(rr, ref, 0), key=key, payload=pay, timeout=60, describe="width_norm: R = Gamma0 / (m0^2 - m^2 - i m0 Gamma(m))")
            ss.witness("pm.reach[%s]" % tag, FF)
        else:
            rr = prove_inverse(den_re, den_im, describe="R(m) (m0^2 - m^2 - i m0 Gamma(m)) = 1 with Gamma(m) = Gamma0 (q/q0)^(2L+1) (m0/m) B_L'^2, q, q0 from the masses of the decay R -> B C, L its lowest l")
            at = facts() + [T.eq(m.t, m0.t)]
            ss.prove("pm.at_m0[%s]" % tag, at, far_c(simp(at, r) * SymComplex(SymReal(T.ZERO), -(m0 * g0)), 1.0, 0), key=key + ".at_m0", payload=pay, describe="R(m0) = i/(m0 Gamma0)")
    elif model == "BWR_below" and below:
        # documented: the nominal momentum is taken at the effective mass
        # m_eff = m_min + (m_max - m_min)/2 (1 + tanh((m0 - (m_max+m_min)/2)/(m_max - m_min))), m_min = m1+m2, m_max = m_A - m_D
        mmax, mmin = _c(MA - MD), _c(THR)
        th = ((m0 - (mmax + mmin) / 2) / (mmax - mmin)).tanh()
        S.assume(th > -1)
        S.assume(th < 1)
        meff = mmin + (mmax - mmin) / 2 * (1 + th)
        q0e = q2_of(meff, _c(MB), _c(MC)).sqrt()
        S.assume(q0e > Q0MIN)
        gam = _gamma_ref(L, m, m0, g0, q, q0e, D)
        prove_inverse(m0 * m0 - m * m, -(m0 * gam), describe="BWR_below with m0 below threshold: q0 evaluated at the documented effective mass (tanh uninterpreted, |tanh| < 1)", timeout=120)
    elif model == "BWR_coupling":
        gam = q / m * _pw(q2, L) * P_ref(L, _c(1.0)) / P_ref(L, q2 * D * D)
        prove_inverse(m0 * m0 - m * m, -(m0 * g0 * gam), describe="BWR_coupling: R = 1/(m0^2 - m^2 - i m0 Gamma0 (q/m) q^(2l) B_l'^2(q, 1/d, d))")
    elif model == "LASS":
        a, rr_ = abs(par["a"]), abs(par["r"])
        S.assume(par["a"] != 0)
        q0 = q0s
        S.assume(q0 > Q0MIN)
        cot = 1 / (a * q) + rr_ * q / 2
        c2 = cot * cot
        e2 = SymComplex((c2 - 1) / (c2 + 1), 2 * cot / (c2 + 1))
        t1 = _inv(q * cot, -q) * SymComplex(m, SymReal(T.ZERO))
        t2 = e2 * _inv(m0 * m0 - m * m, -(m0 * g0 * (q / m) * (m0 / q0))) * SymComplex(m0 * g0 * m0 / q0, SymReal(T.ZERO))
        FF = facts()
        rr = simp(FF, r)
        ss.prove(name, FF, far_c(rr, t1 + t2, 0), key=key, payload=pay, timeout=120, describe="LASS: m/(q cot dB - i q) + exp(2 i dB) m0 G0 (m0/q0) / (m0^2 - m^2 - i m0 G0 (q/m)(m0/q0)), cot dB = 1/(a q) + r q/2")
        ss.witness("pm.reach[%s]" % tag, FF)
        ss.mutant("pm.mutant[%s]" % tag, FF, far_c(rr, t1 - t2, 0))
    elif model == "one":
        ss.prove(name, F, far_c(r, 1.0, 0), key=key, payload=pay, describe="R = 1")
    elif model == "x":
        ss.prove(name, F, far_c(r, SymComplex(m, SymReal(T.ZERO)), 0), key=key, payload=pay, describe="R = m")
    elif model == "exp":
        ref = 1 / (abs(par["a"]) * m).exp()
        FF = facts()
        ss.prove(name, FF, far_c(r, SymComplex(ref, SymReal(T.ZERO)), 0), key=key, payload=pay, describe="R = exp(-|a| m) (exp uninterpreted: equal arguments)")
    elif model == "exp_com":
        a, b = par["a"], par["b"]
        ref = SymComplex(-(a * (m * m)), -(b * (m * m))).exp()
        FF = facts()
        ss.prove(name, FF, far_c(r, ref, 0), key=key, payload=pay, describe="R = exp(-(a + i b) m^2) (exp, cos, sin uninterpreted)")
    elif model == "GS_rho":
        from tf_pwa import breit_wigner as bw

        q0 = q0s
        S.assume(q0 > Q0MIN)
        t1 = lambda x: tensor_of([x])
        ref = _e(bw.GS(t1(m), tensor_of(m0), tensor_of(g0), t1(q), t1(q0), L, D, 0.13957039, 0.1349768))
        FF = facts()
        rr, ref = simp(FF, r, ref)
        ss.prove(name, FF, far_c(rr, ref, 0), key=key, payload=pay, timeout=60, describe="GS_rho passes m, m0, Gamma0, q, q0 (from the decay's masses), L, d and the documented pion masses to breit_wigner.GS (whose formula is decided by the GS.* obligations)")
    elif model in ("Flatte", "FlatteC", "FlatteGen", "Flatte2"):
        def build_r():
            fl.cal_monentum = stub
            try:
                return _eval_chain(chain, R, m, preset)
            finally:
                fl.cal_monentum = old_cal

        _flatte(ss, tag, model, extra, build_r, m, m0, par, pay, key, stub)
    else:
        ss.outside(name, "no documented formula encoded for model %s" % model)
        return
    del S.ctx().definedness[ndef:]  # partial operations of the reference formulas are not the code's
    if flat:
        return  # the only partial operation is the final division by |denominator|^2, non-zero by assumption in every case
    _definedness(ss, "pm[%s]" % tag, key + ".defined", pay)


class _MomStub:
    """stand-in for tf_pwa.amp.flatte.cal_monentum(m, ma, mb): the break-up momentum of channel i is a free
    positive symbol Q (open channel: q = Q) or i Q (closed channel: q = i Q); which of the two is a case
    variable of the job.  cal_monentum itself is decided against the documented q_i by the 'calmom' job."""

    def __init__(self, m, mass_list):
        self.m = m
        self.ml = [tuple(x) for x in mass_list]
        self.open_m = [True] * len(self.ml)
        self.open_m0 = [True] * len(self.ml)
        self.Q = [S.real("Q%d" % i) for i in range(len(self.ml))]
        self.Q0 = [S.real("Q0_%d" % i) for i in range(len(self.ml))]
        for x in self.Q + self.Q0:
            S.assume(x > 0)
        self.calls = []

    def names(self):
        return ["Q%d" % i for i in range(len(self.ml))] + ["Q0_%d" % i for i in range(len(self.ml))]

    def __call__(self, m, ma, mb):
        i = self.ml.index((ma, mb))
        e = _e(m)
        is_m = isinstance(e, SymReal) and e.t is self.m.t
        Q = self.Q[i] if is_m else self.Q0[i]
        opened = self.open_m[i] if is_m else self.open_m0[i]
        self.calls.append((i, is_m))
        z = SymReal(T.ZERO)
        return tensor_of([SymComplex(Q, z) if opened else SymComplex(z, Q)], "complex128")


def _flatte_den(model, extra, m, m0, par, stub):
    """documented denominator m0^2 - m^2 -/+ i m0 sum_i g_i (q_i/m) [generalised factors]; returns (re, im)"""
    from .C15 import P_ref

    gen = model in ("FlatteGen", "Flatte2")
    sign = 1 if model == "Flatte" else -1  # Flatte: + i m0 sum; the others: - i m0 sum
    ml = extra["mass_list"]
    ll = extra.get("l_list") or [0] * len(ml)
    has_bprime = extra.get("has_bprime", True)
    no_m0, no_q0, cut = extra.get("no_m0", False), extra.get("no_q0", False), extra.get("cut_phsp", False)
    re, im = m0 * m0 - m * m, SymReal(T.ZERO)
    pre = (1 / m) if (gen and no_m0) else (m0 / m)
    for i in range(len(ml)):
        g = par["g_%d" % i]
        if model == "Flatte2":
            g = g * g
        absq = stub.Q[i]
        fac = g * pre
        if gen:
            if cut and not stub.open_m[i]:
                continue
            absq0 = stub.Q0[i]
            if no_q0:
                absq0 = SymReal(T.ONE)
            else:
                fac = fac * m0 / absq0
            l = ll[i]
            if l:
                fac = fac * _pw(absq / absq0, 2 * l)
            if has_bprime:
                z, z0 = absq * absq * D * D, absq0 * absq0 * D * D
                fac = fac * P_ref(l, z0) / P_ref(l, z)
        # i m0 g (q/m): q real (open) -> imaginary part; q = i|q| (closed) -> real part, negative sign
        if stub.open_m[i]:
            im = im + sign * fac * absq
        else:
            re = re - sign * fac * absq
    return re, im


def _flatte_cases(model, n):
    import itertools

    gen = model in ("FlatteGen", "Flatte2")
    thr = [Fraction(a + b) for a, b in FLATTE_ML]

    def feasible(pat):
        # a real mass realises the pattern iff every open channel's threshold lies below every closed one's
        op = [t for t, o in zip(thr, pat) if o]
        cl = [t for t, o in zip(thr, pat) if not o]
        return not op or not cl or max(op) < min(cl)

    for om in itertools.product((True, False), repeat=n):
        if not feasible(om):
            continue
        for om0 in (itertools.product((True, False), repeat=n) if gen else [(True,) * n]):
            if feasible(om0):
                yield list(om), list(om0)


def _flatte(ss, tag, model, extra, build_r, m, m0, par, pay, key, stub):
    """one evaluation of the class per open/closed pattern of the channels (for m and, generalised forms, for m0)"""
    ml = extra["mass_list"]
    base = facts()
    for om, om0 in _flatte_cases(model, len(ml)):
        stub.open_m, stub.open_m0 = om, om0
        r = build_r()
        FF = list(base)
        # cut_phsp tests m < ma + mb on the real mass: consistent with the pattern (above the pseudo-thresholds)
        for i, (ma, mb) in enumerate(ml):
            thr = T.const(Fraction(ma + mb), "R")
            FF.append(T.gt(m.t, thr) if om[i] else T.lt(m.t, thr))
            if model in ("FlatteGen", "Flatte2"):
                FF.append(T.gt(m0.t, thr) if om0[i] else T.lt(m0.t, thr))
        den_re, den_im = _flatte_den(model, extra, m, m0, par, stub)
        rr = simp(FF, r)
        nz = T.gt((den_re * den_re + den_im * den_im).t, T.ZERO)
        lab = "%s;m:%s;m0:%s" % (tag, "".join("o" if x else "c" for x in om), "".join("o" if x else "c" for x in om0))
        ss.prove("pm.value[%s]" % lab, FF + [nz], far_c(rr * SymComplex(den_re, den_im), 1.0, 0), key=key, payload=pay, timeout=60,
                 describe="Flatte family: R(m) x documented denominator = 1 for every open (o) / closed (c) pattern of the channels; q_i = Q_i or i Q_i with Q_i > 0 free (cal_monentum decided separately)")
        ss.witness("pm.reach[%s]" % lab, FF + [nz])
        if any(om) and not (extra.get("cut_phsp") and not all(om)):
            ss.mutant("pm.mutant_conj[%s]" % lab, FF + [nz] + [T.gt(par["g_%d" % i].t, T.ZERO) for i in range(len(ml))], far_c(rr * SymComplex(den_re, -den_im), 1.0, 0))


def job_calmom(ss, tier):
    """tf_pwa.amp.flatte.cal_monentum and its sympy twin against the documented q_i"""
    import sympy

    import tf_pwa.amp.flatte as fl
    from symx.sympy_bridge import translate

    m, ma, mb = _pos("m"), S.real("ma"), S.real("mb")
    S.assume(ma >= 0)
    S.assume(mb >= 0)
    p = _e(fl.cal_monentum(tensor_of([m]), ma, mb))
    p2 = q2_of(m, ma, mb)
    pay = lambda mod: dict(kind="calmom", values={k: float(mod.get(k, 1.0)) for k in ("m", "ma", "mb")})
    sm, sa, sb = sympy.symbols("m ma mb")
    for lab, cond in (("open", T.gt(p2.t, T.ZERO)), ("closed", T.lt(p2.t, T.ZERO))):
        FF = facts() + [cond]
        pp = simp(FF, p)
        if lab == "open":
            ss.prove("calmom.value[open]", FF, T.bor(far((pp.re * pp.re).t, p2.t, 0), T.lt(pp.re.t, T.ZERO), T.ne(pp.im.t, T.ZERO)), key="calmom", payload=pay, describe="q^2 = lambda/(4 m^2) > 0: q real, positive")
        else:
            ss.prove("calmom.value[closed]", FF, T.bor(far((pp.im * pp.im).t, (-p2).t, 0), T.lt(pp.im.t, T.ZERO), T.ne(pp.re.t, T.ZERO)), key="calmom", payload=pay, describe="q^2 < 0: q = i sqrt|q^2|")
        ss.witness("calmom.reach[%s]" % lab, FF)
        ps = translate(sympy.sympify(fl.cal_monentum_sympy(sm, sa, sb)), {sm: SymComplex(m, SymReal(T.ZERO)), sa: ma, sb: mb})
        ps = simp(FF, ps)
        ss.prove("calmom.sympy[%s]" % lab, FF, far_c(ps, pp, 0), key="calmom.sympy", payload=pay, timeout=60, describe="cal_monentum_sympy (principal root, the physical sheet) = cal_monentum for real m")
    ss.mutant("calmom.mutant", facts() + [T.lt(p2.t, T.ZERO)], T.ne(p.im.t, T.ZERO))


def job_pmq(ss, tier):
    """the decay's own |q|, |q0|, |q|2, |q0|2 (what the line shapes receive) are the documented break-up momenta"""
    amp, chain, R = build("BWR", 1, {})
    m, m0, g0 = _pos("m"), _pos("m0"), _pos("g0")
    S.assume(m > THR)
    S.assume(m0 > THR)
    _assign(amp, "R_BC_mass", m0)
    _assign(amp, "R_BC_width", g0)
    _eval_chain(chain, R, m)
    dc = [v for d, v in LAST["data_c"].items() if d.core is R][0]
    F = facts()
    pay = _payload("pmq", ["m", "m0", "g0"], model="BWR", L=1, extra={}, pmq=True)
    q2, q02 = q2_of(m, _c(MB), _c(MC)), q2_of(m0, _c(MB), _c(MC))
    for k, ref, sq in (("|q|", q2, True), ("|q0|", q02, True), ("|q|2", q2, False), ("|q0|2", q02, False)):
        v = simp(F, _e(dc[k]))
        if sq:
            ss.prove("pmq[%s]" % k, F, T.bor(far((v * v).t, ref.t, 0), T.lt(v.t, T.ZERO)), key="pmq", payload=pay, describe="|q| = sqrt((m^2-(m1+m2)^2)(m^2-(m1-m2)^2))/(2m) with the masses of the decay's daughters (|q0|: at m0)")
        else:
            ss.prove("pmq[%s]" % k, F, far(v.t, ref.t, 0), key="pmq", payload=pay, describe="|q|^2 likewise")
    ss.witness("pmq.reach", F)


# ------------------------------------------------------------------ pole-search denominators


def job_pmdom(ss, tier, tag):
    """get_sympy_dom(*get_sympy_var()) x Particle.__call__(m) = 1 on the physical sheet, real m"""
    import sympy

    from symx.sympy_bridge import translate

    _t, model, L, extra = _find(variants(tier), tag)
    amp, chain, R = build(model, L, extra)
    flat = model.startswith("Flatte")
    m = _pos("m")
    names = ["m", "m0"]
    if flat:
        S.assume(m > Fraction(1, 2))
        m0 = _pos("m0", Fraction(1, 2))
    else:
        S.assume(m > THR)
        m0 = _pos("m0", THR)
    _assign(amp, "R_BC_mass", m0)
    g0 = None
    if "R_BC_width" in amp.vm.variables:
        g0 = _pos("g0")
        names.append("g0")
        _assign(amp, "R_BC_width", g0)
    par = {}
    for n in list(amp.vm.variables):
        if n.startswith("R_BC_") and n not in ("R_BC_mass", "R_BC_width"):
            short = n[len("R_BC_"):]
            par[short] = S.real("p_" + short)
            names.append("p_" + short)
            _assign(amp, n, par[short])
    key = "pmdom.%s%s" % (model, ".cut_phsp" if extra.get("cut_phsp") else "")
    var = R.get_sympy_var()
    flatvar = []
    for v in var:
        flatvar += list(v) if isinstance(v, (list, tuple)) else [v]
    if flat:
        import tf_pwa.amp.flatte as fl

        ml = extra["mass_list"]
        stub = _MomStub(m, ml)
        names += stub.names()
        pay = _payload(tag, names, model=model, L=L, extra=extra, dom=True)
        Ps = [sympy.Symbol("P%d" % i) for i in range(len(ml))]
        P0s = [sympy.Symbol("P0_%d" % i) for i in range(len(ml))]
        msym = [v for v in flatvar if v.name == "m"][0]

        def sym_mom(mm, ma, mb):
            i = stub.ml.index((ma, mb))
            return Ps[i] if mm is msym else P0s[i]

        old_n, old_s = fl.cal_monentum, fl.cal_monentum_sympy
        fl.cal_monentum_sympy = sym_mom
        try:
            ok, dom_expr = ss.attempt("pmdom.runs[%s]" % tag, lambda: R.get_sympy_dom(*var, sheet=(1 << len(ml)) - 1), key="pmdom.runs", payload=pay({}), describe="get_sympy_dom evaluates")
        finally:
            fl.cal_monentum_sympy = old_s
        if not ok:
            return
        base = facts()
        z = SymReal(T.ZERO)
        for om, om0 in _flatte_cases(model, len(ml)):
            stub.open_m, stub.open_m0 = om, om0
            fl.cal_monentum = stub
            try:
                rnum = _e(R(tensor_of([m])))
            finally:
                fl.cal_monentum = old_n
            # the library's own convention: the symbols after m take the values of get_num_var()
            mp = {msym: m}
            for v, val in zip(flatvar[1:], R.get_num_var()):
                mp[v] = _e(val)
            for i in range(len(ml)):
                mp[Ps[i]] = SymComplex(stub.Q[i], z) if om[i] else SymComplex(z, stub.Q[i])
                mp[P0s[i]] = SymComplex(stub.Q0[i], z) if om0[i] else SymComplex(z, stub.Q0[i])
            FF = list(base)
            for i, (ma, mb) in enumerate(ml):
                thr = T.const(Fraction(ma + mb), "R")
                FF.append(T.gt(m.t, thr) if om[i] else T.lt(m.t, thr))
                if model in ("FlatteGen", "Flatte2"):
                    FF.append(T.gt(m0.t, thr) if om0[i] else T.lt(m0.t, thr))
            dom = translate(sympy.sympify(dom_expr), mp)
            dom = dom if isinstance(dom, SymComplex) else SymComplex(dom, z)
            rr, dr, di = simp(FF, rnum, dom.re, dom.im)
            nz = T.gt((dr * dr + di * di).t, T.ZERO)
            lab = "%s;m:%s;m0:%s" % (tag, "".join("o" if x else "c" for x in om), "".join("o" if x else "c" for x in om0))
            ss.prove("pmdom.value[%s]" % lab, FF + [nz], far_c(rr * SymComplex(dr, di), 1.0, 0), key=key, payload=pay, timeout=60,
                     describe="get_sympy_dom on the physical sheet (all sheet bits set) x numeric line shape = 1 for real m, every open/closed pattern of the channels (momenta as free symbols on both sides)")
            ss.witness("pmdom.reach[%s]" % lab, FF + [nz])
        return
    pay = _payload(tag, names, model=model, L=L, extra=extra, dom=True)
    ok, dom_expr = ss.attempt("pmdom.runs[%s]" % tag, lambda: R.get_sympy_dom(*var), key="pmdom.runs", payload=pay({}), describe="get_sympy_dom evaluates")
    if not ok:
        return
    mp = {flatvar[0]: m}
    for v, val in zip(flatvar[1:], R.get_num_var()):
        mp[v] = _e(val)
    q0 = q2_of(m0, _c(MB), _c(MC)).sqrt()
    S.assume(q0 > Q0MIN)
    rnum = _e(R(tensor_of([m])))
    dom = translate(sympy.sympify(dom_expr), mp)
    FF = facts()
    rr = simp(FF, rnum)
    ss.prove("pmdom.value[%s]" % tag, FF, far_c(rr * dom, 1.0, 0), key=key, payload=pay, timeout=90, describe="get_sympy_dom(*get_sympy_var()) x Particle.__call__(m) = 1 above threshold")
    ss.witness("pmdom.reach[%s]" % tag, FF)
    ss.mutant("pmdom.mutant[%s]" % tag, FF, far_c(rr * dom.conjugate(), 1.0, 0))


# ------------------------------------------------------------------ BWR_LS (split-ls running width)

LS_CASES = {"w1": (1, -1, 0, -1, 0, -1), "w2": (1, 1, 1, -1, 0, -1), "w3": (1, 1, 1, -1, 1, -1), "w5": (2, 1, 1, -1, 1, -1)}  # J P of R, b, c


def ls_jobs(tier):
    cases = ["w1", "w2", "w3"] + (["w5"] if tier != "quick" else [])
    return [("pmls", "%s.%s" % (c, f)) for c in cases for f in ("fix", "default")]


def _ls_particle(case, fix):
    from tf_pwa.amp import get_decay, get_particle

    J, P, jb, pb, jc, pc = LS_CASES[case]
    a = get_particle("R", J=J, P=P, model="BWR_LS", mass=3.0, width=0.125, fix_bug1=fix)
    b = get_particle("b", mass=MB, J=jb, P=pb)
    c = get_particle("c", mass=MC, J=jc, P=pc)
    dec = get_decay(a, [b, c])
    a.init_params()
    dec.init_params()
    return a, dec


def job_pmls(ss, tier, tag):
    """BWR_LS: R_i = g_i / (m0^2 - m^2 - i m0 Gamma0 (rho/rho0) sum g_i^2), rho = 2q/m, g_i = gamma_i (q/q0)^l B_l'(q,q0,d),
    gamma = (cos t0, sin t0 cos t1, ..., prod sin ti); and get_sympy_dom = that denominator.
    Compositional: q^2 = k^2 q0^2 with k, q0^2 free positive symbols (get_ls_amp takes them as arguments; __call__ is
    decided to pass the documented q^2, q0^2)."""
    import math

    import sympy

    import tf_pwa.formula as fm
    from symx.sympy_bridge import translate

    from .C15 import P_ref

    case, mode = tag.split(".")
    fix = mode == "fix"
    a, dec = _ls_particle(case, fix)
    vm = a.mass.vm
    m, m0, g0 = _pos("m"), _pos("m0"), _pos("g0")
    k, q02 = _pos("k"), _pos("q02")
    q2 = k * k * q02
    vm.variables["R_mass"].assign(tensor_of(m0))
    vm.variables["R_width"].assign(tensor_of(g0))
    ls = dec.get_ls_list()
    nth = len(ls) - 1
    th = [S.angle("th%d" % i, D=1) for i in range(nth)]
    for i in range(nth):
        vm.variables["R_theta%d" % i].assign(tensor_of(th[i]))
    names = ["m", "m0", "g0", "k", "q02"]
    pay = lambda mod: dict(kind="pmls", case=case, fix=fix, values={n: float(mod.get(n, 1.0)) for n in names}, thetas=[2 * math.atan(float(mod.get("u_th%d" % i, 0.3))) for i in range(nth)])
    key = "pmls.%s" % ("fix_bug1" if fix else "default")
    # Bprime_q2 (decided by the Bprime / Bprime_q2 obligations) is a stub here: B_l > 0 with B_l^2 P_l(q^2 d^2) = P_l(q0^2 d^2)
    import tf_pwa.amp.split_ls as sl

    Bs = {}

    def bstub(l, q2_, q02_, d_):
        if l not in Bs:
            Bs[l] = _pos("B%d" % l)
            S.ctx().fact(T.eq((Bs[l] * Bs[l] * P_ref(l, q2 * D * D)).t, P_ref(l, q02 * D * D).t))
        return tensor_of([Bs[l]])

    old_b = sl.Bprime_q2
    sl.Bprime_q2 = bstub
    try:
        ok, res = ss.attempt("pmls.runs[%s]" % tag, lambda: a.get_ls_amp(tensor_of([m]), ls, tensor_of([q2]), tensor_of([q02])), key="pmls.runs", payload=pay({}), describe="BWR_LS evaluates")
        if ok:
            numdom, _tg = a.get_ls_amp_frac(tensor_of([m]), ls, tensor_of([q2]), tensor_of([q02]))
    finally:
        sl.Bprime_q2 = old_b
    if not ok:
        return
    # documented normalisation of the partial widths
    gam = []
    f = SymReal(T.ONE)
    for i in range(nth):
        c_, s_ = th[i].cos_sin()
        gam.append(f * c_)
        f = f * s_
    gam.append(f)
    g = []
    for (l, _s), ga in zip(ls, gam):
        g.append(ga * _pw(k, l) * Bs[l])
    sg2 = g[0] * g[0]
    for x in g[1:]:
        sg2 = sg2 + x * x
    rho_ratio = k * (m0 / m)  # rho/rho0 with rho = 2q/m
    den = SymComplex(m0 * m0 - m * m, -(m0 * g0 * rho_ratio * sg2))
    F = facts()
    for i, ri in enumerate(res):
        rr = simp(F, _e(ri))
        ss.prove("pmls.value[%s,%d]" % (tag, i), F, far_c(rr * den, SymComplex(g[i], SymReal(T.ZERO)), 0), key=key, payload=pay, timeout=90,
                 describe="R_i (m0^2 - m^2 - i m0 Gamma0 (rho/rho0) sum_j g_j^2) = g_i with rho = 2q/m (documented)")
    ss.witness("pmls.reach[%s]" % tag, F)
    # __call__ passes the documented momenta
    S.assume(m > THR)
    S.assume(m0 > THR)
    F2 = facts()
    got = {}

    def rec(m_, ls_, q2_, q02_, d=3.0):
        got.update(m=_e(m_), ls=list(ls_), q2=_e(q2_), q02=_e(q02_))
        return []

    a.get_ls_amp = rec
    try:
        a(tensor_of([m]))
    finally:
        del a.get_ls_amp
    ss.concrete("pmls.call.ls[%s]" % tag, got.get("ls") == list(ls), key="pmls.call", payload=pay({}), describe="__call__ passes the decay's (l, s) list")
    ss.prove("pmls.call.q2[%s]" % tag, F2, T.bor(far(got["q2"].t, q2_of(m, _c(MB), _c(MC)).t, 0), far(got["q02"].t, q2_of(m0, _c(MB), _c(MC)).t, 0), far(got["m"].t, m.t, 0)), key="pmls.call", payload=pay, timeout=60,
             describe="__call__(m) = get_ls_amp(m, ls, q^2(m), q^2(m0)) with the documented break-up momenta of the decay's daughters")
    # pole-search denominator = the numeric denominator (momenta as symbols on both sides)
    var = a.get_sympy_var()
    flatvar = []
    for v in var:
        flatvar += list(v) if isinstance(v, (list, tuple)) else [v]
    Psym, P0sym = sympy.Symbol("Pq2"), sympy.Symbol("Pq02")
    msym = flatvar[0]
    old = fm.get_relative_p2
    fm.get_relative_p2 = lambda mm, m1, m2: Psym if mm is msym else P0sym
    try:
        dom_expr = a.get_sympy_dom(*var)
    finally:
        fm.get_relative_p2 = old
    nums = []
    for v in a.get_num_var():
        nums += list(v) if isinstance(v, (list, tuple)) else [v]
    mp = {flatvar[0]: m, Psym: q2, P0sym: q02}
    for v, val in zip(flatvar[1:], nums):
        mp[v] = _e(val)
    dom = translate(sympy.sympify(dom_expr), mp)
    nd = simp(F, _e(numdom))
    dm = simp(F, dom)
    ss.prove("pmls.dom[%s]" % tag, F, far_c(dm, nd, 0), key="pmls.dom", payload=lambda mod: dict(pay(mod), dom=True), timeout=90,
             describe="get_sympy_dom(*get_sympy_var()) at get_num_var() = the denominator of the numeric BWR_LS amplitudes (every number of partial waves; q^2, q0^2 as symbols on both sides)")
    if nth:
        ss.mutant("pmls.mutant[%s]" % tag, F, far_c(dm, nd + SymComplex(SymReal(T.ZERO), g[-1] * g[-1]), 0))
