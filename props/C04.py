"""C04 — spinless cascades reproduce the closed-form Legendre x Breit-Wigner amplitude."""
from __future__ import annotations

import itertools
import math
from fractions import Fraction as Fr

import numpy as np

from symx import scalar as S
from symx import term as T
from symx.harness import Session
from symx.scalar import SymComplex, SymReal

from . import amptools as AT
from .common import EPS, facts, far, far_c, prove_close_poly, re_im, simp, tensor_of, term_of

PID = "C04"
LEVEL = "model_checking"
CLAIM = (
    "Compositional bounded verification on real models built by ConfigLoader (spin-0 parent, three spin-0 final particles, one resonance "
    "of spin J = 0..4 with natural parity). Single chain, kinematics symbolic: the invariant mass m of the resonance system ranges over "
    "the whole Dalitz interval (m_B + m_C + 0.01, m_A - m_D - 0.01) and every helicity angle is a symbolic angle; z3 decides for every "
    "m, angles and complex couplings that (i) D^{J*}_{00}(alpha, beta, gamma) as returned by get_D_matrix_lambda equals P_J(cos beta), "
    "(ii) the helicity couplings returned by HelicityDecay.get_helicity_amp equal g (-1)^J q^J B_J(q) for the production vertex and "
    "g p^J B_J(p) for the decay vertex, with q, p computed from the masses by the independent two-body formula and B_J the "
    "Blatt-Weisskopf ratio normalised at the nominal mass, (iii) Particle.get_amp times (m0^2 - m^2 - i m0 Gamma(m)) equals one with "
    "Gamma(m) = Gamma0 (p/p0)^(2J+1) (m0/m) B_J(p)^2, and (iv) exactly, the density returned by the amplitude model equals "
    "|c_total g_1 g_2|^2 times the squared moduli of these very factors (assembly). Several chains: for all combinations of the three "
    "possible chains with spins up to 2 (4 in thorough) on seeded phase-space events, with symbolic complex couplings, z3 decides that the "
    "density equals |sum_k c_k (-1)^J q^J p^J B_J(q) B_J(p) BW_k(m_k) P_J(cos theta_k)|^2 with every kinematic quantity computed "
    "independently from the four-momenta (invariants only)."
)
NOTE = (
    "irrational constants (Clebsch-Gordan factors, d-function weights) are double-precision in the code, so (i)-(ii) hold up to a relative "
    "1e-12 and the closed form follows from (i)-(iv) up to a relative 1e-11 (product of at most six such factors: stated composition, "
    "not a solver query); masses, widths and the barrier radius d = 3 are fixed per model (two mass sets); multi-chain interference is decided for the "
    "couplings (every cartesian component in [-2, 2], absolute tolerance 1e-9) on seeded events, not for symbolic kinematics"
)
TECHNIQUE = "symbolic execution of HelicityDecay / Particle / DecayChain / AmplitudeModel on a symbolic tensorflow substitute with symbolic invariant mass, helicity angles and couplings; rational and radical identities decided by z3 (QF_NRA), interference by linear real arithmetic on a monomial abstraction"
CLAIM_EXTRA = 'Also for the same events given in a frame in which the parent moves (beta = (0.3, -0.5, 0.6)): density of the boosted momenta = closed form from invariants.'
NOTE_EXTRA = ''
EXPLANATION = CLAIM + " " + CLAIM_EXTRA
FUNCTIONS = [
    "tf_pwa/amp/core.py:HelicityDecay.get_amp", "tf_pwa/amp/core.py:HelicityDecay.get_helicity_amp", "tf_pwa/amp/core.py:HelicityDecay.get_ls_amp", "tf_pwa/amp/core.py:HelicityDecay.get_barrier_factor2",
    "tf_pwa/amp/core.py:HelicityDecay._get_cg_matrix", "tf_pwa/amp/core.py:HelicityDecay.get_relative_momentum2", "tf_pwa/amp/core.py:get_relative_p2", "tf_pwa/amp/core.py:get_relative_p",
    "tf_pwa/amp/core.py:Particle.get_amp", "tf_pwa/amp/core.py:DecayChain.get_amp", "tf_pwa/amp/core.py:DecayChain.get_amp_particle", "tf_pwa/amp/core.py:DecayGroup.get_amp", "tf_pwa/amp/core.py:DecayGroup.sum_amp",
    "tf_pwa/breit_wigner.py:BWR", "tf_pwa/breit_wigner.py:Gamma", "tf_pwa/breit_wigner.py:Bprime", "tf_pwa/breit_wigner.py:Bprime_q2", "tf_pwa/breit_wigner.py:Bprime_polynomial",
    "tf_pwa/dfun.py:get_D_matrix_lambda", "tf_pwa/dfun.py:get_D_matrix_for_angle", "tf_pwa/dfun.py:small_d_matrix", "tf_pwa/dfun.py:small_d_weight", "tf_pwa/dfun.py:Dfun_delta_v2", "tf_pwa/cg.py:cg_coef",
]
ASSUMPTIONS = [
    "single chain: m in (m_B + m_C + 0.01, m_A - m_D - 0.01); helicity angles arbitrary; couplings arbitrary complex numbers",
    "the '|q|2' entries the preprocessor stores next to the angles are removed so that the code computes the break-up momenta from the masses (the stored values are the same two-body momenta; the several-chain jobs use the stored entries)",
    "relative 1e-12 on double-precision constants",
    "several chains: kinematics concrete (seeded phase-space events), couplings symbolic in [-2, 2] per cartesian component, tolerance 1e-9",
]
TRUSTED = []

# dyadic masses: the code adds and multiplies the (concrete) final-state masses in double precision, which is exact for these
MASSES = {"a": dict(A=4.5, B=2.0, C=1.75, D=0.125, R=4.125, W=0.125), "b": dict(A=5.25, B=0.9375, C=0.5, D=3.125, R=1.5, W=0.015625)}
BP = {
    0: lambda z: 1 + 0 * z,
    1: lambda z: z + 1,
    2: lambda z: z * z + 3 * z + 9,
    3: lambda z: z * z * z + 6 * z * z + 45 * z + 225,
    4: lambda z: z * z * z * z + 10 * z * z * z + 135 * z * z + 1575 * z + 11025,
}
LEG = {
    0: lambda c: 1 + 0 * c,
    1: lambda c: c,
    2: lambda c: (3 * c * c - 1) / 2,
    3: lambda c: (5 * c * c * c - 3 * c) / 2,
    4: lambda c: (35 * c * c * c * c - 30 * c * c + 3) / 8,
}
REL = Fr(1, 10**12)


def bounds(tier):
    return {"J": [0, 1, 2, 3, 4], "mass_sets": ["a"] if tier == "quick" else ["a", "b"], "single_chain_kinematics": "symbolic m and angles",
            "interference": {"spins": "each of the three chains J in 0..%d" % (2 if tier == "quick" else 4), "events": 2, "combinations": "seeded subset" if tier == "quick" else "all non-empty subsets of the three chains x spin assignments (seeded subset of 40)"}}


def jobs(tier, seed):
    out = []
    sets = ["a"] if tier == "quick" else ["a", "b"]
    for ms in sets:
        for J in range(5):
            for part in ("D", "H", "BW", "assembly"):
                out.append(("single", part, J, ms))
    import random

    rnd = random.Random(seed + 4)
    maxJ = 2 if tier == "quick" else 4
    combos = []
    for r in (1, 2, 3):
        for sub in itertools.combinations(("BC", "BD", "CD"), r):
            for js in itertools.product(range(maxJ + 1), repeat=r):
                combos.append((sub, js))
    n = 8 if tier == "quick" else 40
    sel = rnd.sample(combos, min(n, len(combos)))
    # always include the all-three-chains case with distinct spins
    sel.append((("BC", "BD", "CD"), (1, 2, 0)))
    for sub, js in sel:
        out.append(("interference", sub, js))
    # the same statement with the four-momenta given in a frame in which the parent moves (the helicity angles must
    # come out of the chain of boosts, not of the frame the momenta happen to be given in)
    moving = sel[-1:] + [c for c in sel[:-1] if any(J >= 1 for J in c[1])][: (2 if tier == "quick" else 12)]
    for sub, js in moving:
        out.append(("interference", sub, js, "moving"))
    return out


MOVING_BETA = (0.3, -0.5, 0.6)


def boosted(p4, beta=MOVING_BETA):
    """{name: (n,4)} boosted by the velocity beta (numpy)"""
    b = np.asarray(beta, dtype=float)
    b2 = float(b @ b)
    g = 1 / math.sqrt(1 - b2)
    out = {}
    for k, p in p4.items():
        p = np.asarray(p, dtype=float)
        bp = p[:, 1:] @ b
        E = g * (p[:, 0] + bp)
        sp = p[:, 1:] + ((g - 1) * bp / b2 + g * p[:, 0])[:, None] * b
        out[k] = np.concatenate([E[:, None], sp], axis=1)
    return out


def single_cfg(J, ms):
    M = MASSES[ms]
    return {
        "data": {"dat_order": ["B", "C", "D"]},
        "decay": {"A": [["R", "D"]], "R": ["B", "C"]},
        "particle": {
            "$top": {"A": {"J": 0, "P": -1, "mass": M["A"]}},
            "$finals": {"B": {"J": 0, "P": -1, "mass": M["B"]}, "C": {"J": 0, "P": -1, "mass": M["C"]}, "D": {"J": 0, "P": -1, "mass": M["D"]}},
            "R": {"J": J, "P": (-1) ** J, "mass": M["R"], "width": M["W"]},
        },
    }


def multi_cfg(sub, js, ms="a"):
    M = MASSES[ms]
    other = {"BC": "D", "BD": "C", "CD": "B"}
    # nominal masses inside the respective Dalitz intervals
    nominal = {"BC": M["B"] + M["C"] + 0.36, "BD": M["B"] + M["D"] + 0.29, "CD": M["C"] + M["D"] + 0.48}
    widths = {"BC": 0.1, "BD": 0.3, "CD": 0.03}
    cfg = {
        "data": {"dat_order": ["B", "C", "D"]},
        "decay": {"A": [["R_" + s, other[s]] for s in sub]},
        "particle": {
            "$top": {"A": {"J": 0, "P": -1, "mass": M["A"]}},
            "$finals": {"B": {"J": 0, "P": -1, "mass": M["B"]}, "C": {"J": 0, "P": -1, "mass": M["C"]}, "D": {"J": 0, "P": -1, "mass": M["D"]}},
        },
    }
    for s, J in zip(sub, js):
        cfg["decay"]["R_" + s] = [s[0], s[1]]
        cfg["particle"]["R_" + s] = {"J": J, "P": (-1) ** J, "mass": nominal[s], "width": widths[s]}
    return cfg


def _R(x):
    return x if isinstance(x, SymReal) else S.lift(Fr(x))


def _lam(a, b, c):
    return (a * a - (b + c) * (b + c)) * (a * a - (b - c) * (b - c))


def _setup(J, ms):
    """real model, one event; the resonance mass and all angles replaced by symbols"""
    M = MASSES[ms]
    amp, config = AT.build_model(single_cfg(J, ms))
    th = AT.symbolize_couplings(amp, cartesian=True)
    data = AT.phsp_data(config, 1)
    m = S.real("m")
    lo, hi = Fr(M["B"]) + Fr(M["C"]) + Fr(1, 100), Fr(M["A"]) - Fr(M["D"]) - Fr(1, 100)
    S.assume(m > lo)
    S.assume(m < hi)
    # nominal mass and width of the resonance are symbolic as well (otherwise the code evaluates q0 in rounded double precision)
    m0, g0 = S.real("m0"), S.real("g0")
    S.assume(m0 > lo)
    S.assume(m0 < hi)
    S.assume(g0 > Fr(1, 1000))
    S.assume(g0 < 1)
    amp.vm.variables["R_mass"].assign(tensor_of(m0))
    amp.vm.variables["R_width"].assign(tensor_of(g0))
    M = dict(M, R=m0, W=g0)
    cnt = [0]
    angs = {}

    def sub(d, path=""):
        for k, v in list(d.items()):
            if isinstance(v, dict):
                if k == "ang":
                    for a in ("alpha", "beta", "gamma"):
                        cnt[0] += 1
                        nm = "%s%d" % (a[0], cnt[0])
                        v[a] = tensor_of([S.angle(nm, D=2 if a == "beta" else 1)])
                        angs[path + "/" + a] = nm
                else:
                    sub(v, path + "/" + str(k))
            elif k == "|q|2":
                del d[k]

    sub(data["decay"])
    for p, v in data["particle"].items():
        if str(p) == "(B, C)":
            v["m"] = tensor_of([m])
        elif str(p) in ("A", "B", "C", "D"):
            # exact nominal masses (the generator's events carry them up to 1e-8)
            v["m"] = tensor_of([_R(M[str(p)])])
    return amp, config, data, m, th, angs, M


def _closed(J, m, M):
    """independent closed-form pieces (SymReal): q2, p2 (momenta squared), barrier ratios squared, running width"""
    MA, MB, MC, MD, M0, G0 = [_R(M[k]) for k in ("A", "B", "C", "D", "R", "W")]
    d = Fr(3)
    q2 = _lam(MA, m, MD) / (4 * MA * MA)
    q02 = _lam(MA, M0, MD) / (4 * MA * MA)
    p2 = _lam(m, MB, MC) / (4 * m * m)
    p02 = _lam(M0, MB, MC) / (4 * M0 * M0)
    Bq2 = BP[J](q02 * d * d) / BP[J](q2 * d * d)
    Bp2 = BP[J](p02 * d * d) / BP[J](p2 * d * d)
    rho = p2 / p02
    gam = G0 * (rho**J if J else _R(1)) * rho.sqrt() * (M0 / m) * Bp2
    return dict(q2=q2, q02=q02, p2=p2, p02=p02, Bq2=Bq2, Bp2=Bp2, gam=gam, M0=M0, G0=G0)


def _pow_half(x2, J):
    """(x^2)^(J/2) = x^J for x >= 0"""
    if J == 0:
        return _R(1)
    if J % 2 == 0:
        return x2 ** (J // 2)
    return (x2 ** (J // 2) if J > 1 else _R(1)) * x2.sqrt()


def _chain_parts(amp, data):
    dg = amp.decay_group
    chain = dg.chains[0]
    from tf_pwa.amp.core import rename_data_dict

    used = tuple(dg.chains)
    cmaps = dg.get_chains_map(used)
    topo = chain.standard_topology()
    dd = [v for k, v in data["decay"].items() if k == topo][0]
    mp = [c[chain] for c in cmaps if chain in c][0]
    data_c = rename_data_dict(dd, mp)
    data_p = rename_data_dict(data["particle"], mp)
    dec_top = [d for d in chain if str(d.core) == "A"][0]
    dec_res = [d for d in chain if str(d.core) == "R"][0]
    res = dec_res.core
    return chain, data_c, data_p, dec_top, dec_res, res


def _rel_close(ss, name, F, a, b, key, payload, describe, timeout=60):
    """|a - b| <= 1e-12 |b| ; first by splitting a common symbolic factor off the two numeric coefficients"""
    ka, ba = T._split_coef(a)
    kb, bb = T._split_coef(b)
    if ba is bb:
        ok = abs(ka - kb) <= REL * abs(kb)
        # one solver query on the coefficient with the common factor abstracted to one real variable
        y = T.fresh("common")
        d = T.sub(T.mul(T.const(ka, "R"), y), T.mul(T.const(kb, "R"), y))
        bound = T.mul(T.const(REL * abs(kb), "R"), T.absv(y))
        return ss.prove(name, [], T.bor(T.gt(d, bound), T.lt(d, T.neg(bound))), key=key, payload=payload, describe=describe + " (common symbolic factor abstracted)", timeout=timeout)
    d = T.sub(a, b)
    bound = T.mul(T.const(REL, "R"), T.absv(b))
    return ss.prove(name, F, T.bor(T.gt(d, bound), T.lt(d, T.neg(bound))), key=key, payload=payload, describe=describe, timeout=timeout)


def job_single(ss, part, J, ms):
    amp, config, data, m, th, angs, M = _setup(J, ms)
    chain, data_c, data_p, dec_top, dec_res, res = _chain_parts(amp, data)
    cl = _closed(J, m, M)
    names = list(th)
    g = {}
    for n in names:
        g[n] = th[n]

    def cpl(prefix):
        r = [g[n] for n in names if n.startswith(prefix) and n.endswith("r")][0]
        i = [g[n] for n in names if n.startswith(prefix) and n.endswith("i")][0]
        return SymComplex(r, i)

    pay = lambda mod: dict(kind="single", part=part, J=J, ms=ms, m=float(mod.get("m", 0)), m0=float(mod.get("m0", 0)), g0=float(mod.get("g0", 0)), model={k: float(v) for k, v in mod.items() if k.startswith(("u_", "g_"))}, angles=angs)
    F0 = facts()
    ss.witness("single.reach[%s,J=%d,%s]" % (part, J, ms), F0)
    if part == "D":
        from tf_pwa.dfun import get_D_matrix_lambda

        ang = data_c[dec_res][dec_res.outs[0]]["ang"]
        Dm = get_D_matrix_lambda(ang, J, res.spins, (0,), (0,))
        arr = Dm.arr.reshape(len(res.spins))
        idx0 = list(res.spins).index(0)
        lf = S.ctx().leaves[[v for k, v in angs.items() if k.endswith("/beta") and "(B, C)->B+C/B" in k][0]]
        ch, sh = SymReal(lf.c), SymReal(lf.s)
        cb = ch * ch - sh * sh
        ref = LEG[J](cb)
        ref = ref if isinstance(ref, SymReal) else _R(ref)
        re, im = re_im(arr[idx0])
        F = facts()
        d = T.sub(re, ref.t)
        e = T.const(REL, "R")
        ss.prove("single.D00.re[J=%d]" % J, F, T.bor(T.gt(d, e), T.lt(d, T.neg(e))), key="single.D", payload=pay, timeout=60, describe="Re D^{J*}_{00}(alpha,beta,gamma) = P_J(cos beta) for all angles (absolute 1e-12)")
        ss.prove("single.D00.im[J=%d]" % J, F, T.bor(T.gt(im, e), T.lt(im, T.neg(e))), key="single.D", payload=pay, timeout=60, describe="Im D^{J*}_{00} = 0")
        wrong = LEG[J + 1 if J < 4 else 3](cb)
        ss.mutant("single.D00.mutant[J=%d]" % J, F, far(re, wrong.t, Fr(1, 1000)))
        return
    if part == "H":
        for which, dec, x2, x02, B2, sign in (("top", dec_top, cl["q2"], cl["q02"], cl["Bq2"], (-1) ** J), ("res", dec_res, cl["p2"], cl["p02"], cl["Bp2"], 1)):
            H = dec.get_helicity_amp(data_c[dec], data_p)
            F = facts()
            el = H.arr.reshape(-1)
            # the only non-vanishing helicity component is (0, 0)
            spins_in = dec.outs[0].spins if which == "top" else (0,)
            comp = list(dec.outs[0].spins).index(0) * len(dec.outs[1].spins) + 0 if which == "top" else 0
            hre, him = re_im(el[comp])
            hre, him = simp(F, hre, him)
            gc = cpl("A->R.D_g_ls" if which == "top" else "R->B.C_g_ls")
            mag = _pow_half(x2, J) * B2.sqrt() * sign
            rre, rim = (gc.re * mag).t, (gc.im * mag).t
            rre, rim = simp(F, rre, rim)
            _rel_close(ss, "single.H.%s.re[J=%d,%s]" % (which, J, ms), F, hre, rre, "single.H", pay, "helicity coupling of the %s vertex = g %s x^J B_J(x) (real part, relative 1e-12)" % (which, "(-1)^J" if which == "top" else ""))
            _rel_close(ss, "single.H.%s.im[J=%d,%s]" % (which, J, ms), F, him, rim, "single.H", pay, "helicity coupling of the %s vertex (imaginary part)" % which)
            if which == "top":
                # other helicity components vanish (up to the same tolerance)
                for k, e_ in enumerate(el):
                    if k != comp:
                        a, b = re_im(e_)
                        ok = all(t.op == "const" and abs(t.args[0]) == 0 for t in (a, b))
                        if not ok:
                            bound = T.mul(T.const(REL, "R"), T.add(T.absv(rre), T.absv(rim)))
                            ss.prove("single.H.top.zero[J=%d,%s,%d]" % (J, ms, k), F, T.bor(T.gt(T.absv(a), bound), T.gt(T.absv(b), bound)), key="single.H", payload=pay, describe="helicity components other than (0,0) vanish", timeout=60)
            ss.mutant("single.H.%s.mutant[J=%d,%s]" % (which, J, ms), F + [T.ne(rre, T.ZERO)], far(hre, T.neg(rre), 0))
        return
    if part == "BW":
        import tf_pwa.breit_wigner as bwm

        dc = data_c[dec_res]
        # the chain supplies |q|, |q0| exactly as DecayChain.get_amp_particle does
        chain.get_amp_particle(data_p, data_c, all_data=data)
        M0, G0, gam = cl["M0"], cl["G0"], cl["gam"]
        # (a) the running width the line shape uses, as a function of m, m0, Gamma0
        G = bwm.Gamma(data_p[res]["m"], res.get_width(), dc["|q|"], dc["|q0|"], res.bw_l, res.get_mass(), res.d)
        F = facts()
        g_code, g_ref = simp(F, term_of(G.arr.reshape(-1)[0]), gam.t)
        ss.prove("single.BW.width[J=%d,%s]" % (J, ms), F, far(g_code, g_ref, 0), key="single.BW", payload=pay, timeout=120,
                 describe="running width = Gamma0 (p/p0)^(2J+1) (m0/m) B_J(p)^2 with p, p0 from the masses, for all m, m0, Gamma0")
        ss.mutant("single.BW.width.mutant[J=%d,%s]" % (J, ms), F, far(g_code, T.mul(g_ref, (m / M0).t), 0))
        # (b) the line shape with the running width as an opaque symbol
        Gs = S.real("Gamma_m")
        calls = []

        def Gamma_stub(m_, gamma0, q, q0, L, m0_, d):
            calls.append((m_, gamma0, q, q0, L, m0_, d))
            return tensor_of([Gs])

        old = bwm.Gamma
        bwm.Gamma = Gamma_stub
        try:
            el = res.get_amp(data_p[res], dc).arr.reshape(-1)[0]
        finally:
            bwm.Gamma = old
        ok = len(calls) == 1
        if ok:
            c = calls[0]
            same = lambda x, y: term_of(np.asarray(getattr(x, "arr", x), dtype=object).reshape(-1)[0]) is term_of(np.asarray(getattr(y, "arr", y), dtype=object).reshape(-1)[0])
            ok = same(c[0], data_p[res]["m"]) and same(c[1], res.get_width()) and same(c[2], dc["|q|"]) and same(c[3], dc["|q0|"]) and int(c[4]) == J and same(c[5], res.get_mass()) and float(c[6]) == 3.0
        ss.concrete("single.BW.width_args[J=%d,%s]" % (J, ms), ok, key="single.BW", payload=dict(kind="bw_args", J=J), describe="the line shape calls Gamma(m, Gamma0, |q|, |q0|, L=J, m0, d=3) with the quantities used in (a)")
        el = el if isinstance(el, SymComplex) else S.lift(complex(el))
        prod = el * SymComplex(M0 * M0 - m * m, -(M0 * Gs))
        ss.prove("single.BW.value[J=%d,%s]" % (J, ms), F + [T.gt(Gs.t, T.ZERO)], T.bor(far(prod.re.t, T.ONE, 0), far(prod.im.t, T.ZERO, 0)), key="single.BW", payload=pay, timeout=60,
                 describe="line shape x (m0^2 - m^2 - i m0 Gamma) = 1 exactly, Gamma opaque (decided in single.BW.width)")
        wrong = el * SymComplex(M0 * M0 - m * m, (M0 * Gs))
        ss.mutant("single.BW.mutant[J=%d,%s]" % (J, ms), F + [T.gt(Gs.t, T.ZERO)], far(wrong.im.t, T.ZERO, 0))
        return
    if part == "assembly":
        import tf_pwa.amp.core as core

        # the three leaf functions decided above are replaced by opaque symbols of the same shapes
        def opaque(tag, shape):
            a = np.empty(shape, dtype=object)
            for idx in np.ndindex(*shape):
                nm = "%s_%s" % (tag, "_".join(map(str, idx)))
                a[idx] = SymComplex(S.real(nm + "_re"), S.real(nm + "_im"))
            return tensor_of(a, "complex128")

        nJ = len(res.spins)
        H1 = opaque("H1", (1, 1, nJ, 1))
        H2 = opaque("H2", (1, 1, 1, 1))
        BW = opaque("BW", (1,))
        Ds = {}
        ncalls = []

        def D_stub(angle, ja, la, lb, lc=None):
            key = (int(ja), tuple(la), tuple(lb), tuple(lc) if lc is not None else None)
            ncalls.append(key)
            if key not in Ds:
                shape = (1, len(la), len(lb)) + ((len(lc),) if lc is not None else ())
                Ds[key] = opaque("D%d" % len(Ds), shape)
            return Ds[key]

        dec_top.get_helicity_amp = lambda *a, **k: H1
        dec_res.get_helicity_amp = lambda *a, **k: H2
        res.get_amp = lambda *a, **k: BW
        old = core.get_D_matrix_lambda
        core.get_D_matrix_lambda = D_stub
        try:
            dens = term_of(amp(data).arr.reshape(-1)[0])
        finally:
            core.get_D_matrix_lambda = old
            del dec_top.get_helicity_amp, dec_res.get_helicity_amp, res.get_amp
        tot = cpl("A->R.DR->B.C_total")
        Dtop = Ds[(0, (0,), tuple(res.spins), (0,))].arr.reshape(-1)
        Dres = Ds[(int(J), tuple(res.spins), (0,), (0,))].arr.reshape(-1)
        acc = SymComplex(SymReal(T.ZERO), SymReal(T.ZERO))
        h1 = H1.arr.reshape(-1)
        for k in range(nJ):
            acc = acc + h1[k] * Dtop[k] * Dres[k]
        z = tot * BW.arr.reshape(-1)[0] * H2.arr.reshape(-1)[0] * acc
        ref = z.re * z.re + z.im * z.im
        F = facts()
        ss.prove("single.assembly[J=%d,%s]" % (J, ms), F, far(dens, ref.t, 0), key="single.assembly", payload=pay, timeout=120,
                 describe="density = |c_total BW H_res sum_lambda H_top[lambda] D^{0*}_{0,lambda} D^{J*}_{lambda,0}|^2 exactly, the leaf functions being opaque symbols")
        ss.concrete("single.assembly.stubs_used[J=%d,%s]" % (J, ms), len(ncalls) == 2, key="single.assembly", payload=dict(kind="assembly_stub"), describe="both vertices asked for their D-matrix (%d requests)" % len(ncalls))
        ss.mutant("single.assembly.mutant[J=%d,%s]" % (J, ms), F + [T.gt(ref.t, T.ZERO)], far(dens, T.mul(T.const(2, "R"), ref.t), 0))
        return
    raise ValueError(part)


# ------------------------------------------------------------------ several chains


def _np_reference_terms(cfg, sub, js, p4, ms="a"):
    """per chain: complex closed-form factor from invariants (numpy floats), everything but the couplings"""
    M = MASSES[ms]
    B, C, D = [np.asarray(p4[k], dtype=float) for k in ("B", "C", "D")]

    def m2(*ps):
        s = sum(ps)
        return s[..., 0] ** 2 - s[..., 1] ** 2 - s[..., 2] ** 2 - s[..., 3] ** 2

    P = {"B": B, "C": C, "D": D}
    mass = {"B": M["B"], "C": M["C"], "D": M["D"]}
    mA = M["A"]
    out = []
    for s, J in zip(sub, js):
        a, b = s[0], s[1]
        c = [x for x in "BCD" if x not in s][0]
        pr = cfg["particle"]["R_" + s]
        m0, g0 = pr["mass"], pr["width"]
        sab = m2(P[a], P[b])
        sac = m2(P[a], P[c])
        m = np.sqrt(sab)
        lam = lambda x, y, z: (x * x - (y + z) ** 2) * (x * x - (y - z) ** 2)
        q2 = lam(mA, m, mass[c]) / (4 * mA * mA)
        q02 = lam(mA, m0, mass[c]) / (4 * mA * mA)
        p2 = lam(m, mass[a], mass[b]) / (4 * m * m)
        p02 = lam(m0, mass[a], mass[b]) / (4 * m0 * m0)
        d = 3.0
        Bq = np.sqrt(BP[J](q02 * d * d) / BP[J](q2 * d * d))
        Bp = np.sqrt(BP[J](p02 * d * d) / BP[J](p2 * d * d))
        gam = g0 * (p2 / p02) ** J * np.sqrt(p2 / p02) * (m0 / m) * Bp * Bp
        bw = 1.0 / (m0 * m0 - m * m - 1j * m0 * gam)
        # helicity angle of the first daughter a in the (ab) rest frame w.r.t. the (ab) flight direction in the A frame
        # (= opposite to c there): cos theta = -(p_a . p_c)/(|p_a||p_c|) in the (ab) frame, from invariants
        Ea = (sab + mass[a] ** 2 - mass[b] ** 2) / (2 * m)
        Ec = (mA * mA - sab - mass[c] ** 2) / (2 * m)
        pa = np.sqrt(np.maximum(Ea * Ea - mass[a] ** 2, 0))
        pc = np.sqrt(np.maximum(Ec * Ec - mass[c] ** 2, 0))
        # s_ac = m_a^2 + m_c^2 + 2 (Ea Ec - pa pc cos(angle between a and c))
        cos_ac = (mass[a] ** 2 + mass[c] ** 2 + 2 * Ea * Ec - sac) / (2 * pa * pc)
        cth = -cos_ac
        leg = LEG[J](cth)
        out.append(((-1) ** J) * np.sqrt(q2) ** J * np.sqrt(p2) ** J * Bq * Bp * bw * leg)
    return out


def job_interference(ss, sub, js, frame="rest"):
    cfg = multi_cfg(sub, js)
    amp, config = AT.build_model(cfg)
    th = AT.symbolize_couplings(amp, cartesian=True)
    for x in th.values():
        S.assume(x >= -2)
        S.assume(x <= 2)
    if frame == "moving":
        p4 = boosted(AT.phsp_p4(config, 2))
        data = AT.data_of(config, p4)
    else:
        data = AT.phsp_data(config, 2)
        p4 = {str(p): np.asarray(v["p"].arr, dtype=float) for p, v in data["particle"].items() if str(p) in ("B", "C", "D")}
    dens = [term_of(e) for e in amp(data).arr.reshape(-1)]
    terms = _np_reference_terms(cfg, sub, js, p4)
    names = list(th)

    def cpl(prefix):
        r = [th[n] for n in names if n.startswith(prefix) and n.endswith("r")][0]
        i = [th[n] for n in names if n.startswith(prefix) and n.endswith("i")][0]
        return SymComplex(r, i)

    other = {"BC": "D", "BD": "C", "CD": "B"}
    pay = lambda mod: dict(kind="interference", sub=list(sub), js=list(js), frame=frame, params=AT.model_params(amp, mod, cartesian=True))
    ftag = "" if frame == "rest" else ";" + frame
    for e in range(len(dens)):
        tot = SymComplex(SymReal(T.ZERO), SymReal(T.ZERO))
        for (s, J), tk in zip(zip(sub, js), terms):
            R = "R_" + s
            c = cpl("A->%s.%s%s->%s.%s_total" % (R, other[s], R, s[0], s[1])) * cpl("A->%s.%s_g_ls" % (R, other[s])) * cpl("%s->%s.%s_g_ls" % (R, s[0], s[1]))
            z = complex(tk[e])
            tot = tot + c * S.lift(z)
        ref = tot.re * tot.re + tot.im * tot.im
        prove_close_poly(ss, "interference.density[%s;%s;%d%s]" % ("+".join(sub), ",".join(map(str, js)), e, ftag), dens[e], ref.t, EPS, 2, key="interference", payload=pay, timeout=90,
                         describe="density = |sum_k c_k (-1)^J q^J p^J B_J(q) B_J(p) BW_k(m_k) P_J(cos theta_k)|^2 with kinematics from invariants, for all couplings (|components| <= 2, tolerance 1e-9)")
    # a reference without the (-1)^J of one odd-spin chain must be told apart when it interferes with another chain
    odd = [k for k, J in enumerate(js) if J % 2 == 1]
    if odd and len(sub) >= 2:
        tot = SymComplex(SymReal(T.ZERO), SymReal(T.ZERO))
        for k, ((s, J), tk) in enumerate(zip(zip(sub, js), terms)):
            R = "R_" + s
            c = cpl("A->%s.%s%s->%s.%s_total" % (R, other[s], R, s[0], s[1])) * cpl("A->%s.%s_g_ls" % (R, other[s])) * cpl("%s->%s.%s_g_ls" % (R, s[0], s[1]))
            tot = tot + c * S.lift(complex(tk[0]) * (-1 if k == odd[0] else 1))
        wrong = tot.re * tot.re + tot.im * tot.im
        ss.mutant("interference.mutant_sign[%s;%s%s]" % ("+".join(sub), ",".join(map(str, js)), ftag), facts(), far(dens[0], wrong.t, Fr(1, 10**12)))
    ss.note(name="interference.setup", chains=len(sub))


def run_job(job):
    ss = Session(job)
    globals()["job_" + job[0]](ss, *job[1:])
    return ss.records
