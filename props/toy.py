"""A likelihood test bed shared by C06/C07/C08/C09: the *real* tf_pwa AbsPDF /
VarsManager / Model / FCN classes around a density whose per-event value is an
uninterpreted positive function F_i(theta) of the parameter values, with formal
partial derivatives (symx.term.diff).  Runs under symtf in a worker."""
from __future__ import annotations

import numpy as np

from symx import scalar as S
from symx import term as T
from symx.scalar import SymReal

from .common import tensor_of


def make_pdf(par_names, tag="F", positive_floor=None, fixed=(), vm=None):
    """AbsPDF subclass instance with real Variables named par_names.
    Event i of a data dict {'idx': int tensor} has density UF '<tag>i'(theta...)."""
    import tensorflow as tf
    from tf_pwa.amp.amp import AbsPDF
    from tf_pwa.variable import Variable, VarsManager

    class ToyPDF(AbsPDF):
        def init_params(self, name=""):
            self.pars = []
            for n in par_names:
                v = Variable(n, value=1.0)
                if n in fixed:
                    v.fixed(1.0)
                self.pars.append(v)

        def pdf(self, data):
            vals = [p() for p in self.pars]
            args = []
            for v in vals:
                e = v.arr.reshape(-1)[0] if hasattr(v, "arr") else v
                args.append(e.t if isinstance(e, SymReal) else T.const(float(e), "R"))
            idx = np.asarray(data["idx"].arr if hasattr(data["idx"], "arr") else data["idx"]).astype(int)
            out = np.empty(idx.shape, dtype=object)
            for k in np.ndindex(*idx.shape):
                t = T.uf("%s%d" % (tag, idx[k]), *args)
                if positive_floor is not None:
                    S.ctx().fact(T.gt(t, T.const(positive_floor, "R")))
                else:
                    S.ctx().fact(T.gt(t, T.ZERO))
                out[k] = SymReal(t)
            return tf.Tensor(out, tf.float64)

    if vm is None:
        vm = VarsManager(dtype=tf.float64)
    return ToyPDF(vm=vm)


def symbolize(vm, names=None, prefix="th_"):
    """set parameter values to fresh symbolic reals; returns {name: SymReal}"""
    out = {}
    for n in names if names is not None else list(vm.variables):
        x = S.real(prefix + n)
        vm.variables[n].assign(tensor_of(x))
        out[n] = x
    return out


def events(idx, weights=None, **extra):
    """data dict of events idx (list of ints) with optional symbolic weights"""
    import tensorflow as tf

    d = {"idx": tf.convert_to_tensor(np.asarray(idx, dtype=np.int64))}
    if weights is not None:
        d["weight"] = tensor_of(list(weights))
    for k, v in extra.items():
        d[k] = tensor_of(list(v))
    return d


def scalar_term(x):
    """0-d / size-1 tensor or scalar -> Term"""
    if hasattr(x, "arr"):
        x = x.arr.reshape(-1)[0]
    if isinstance(x, SymReal):
        return x.t
    return T.const(float(x), "R")


def vector_terms(x):
    if hasattr(x, "arr"):
        return [scalar_term(e) for e in x.arr.reshape(-1)]
    return [scalar_term(e) for e in np.asarray(x, dtype=object).reshape(-1)]


def ln(t):
    """uninterpreted natural logarithm of a Term"""
    return T.uf("log", t)
