"""C18: replays / conformance on the real code."""
import numpy as np


def _structs(n):
    r = np.random.RandomState(0)
    L = lambda *e: r.rand(n, *e)
    return {
        "flat": {"a": L(), "b": L(2)},
        "nested": {"p": {"x": L(), "y": [L(), L(4)]}, "w": L()},
        "tuple": {"t": (L(), L()), "l": [L()]},
        "empty_dict": {"a": L(), "e": {}},
        "empty_list": {"a": L(), "e": []},
        "empty_tuple": {"a": L(), "e": ()},
        "deep": {"d": {"d2": {"d3": [L(), {"z": L()}]}}, "s": [(L(), [L()])]},
    }


def _eq(a, b):
    if isinstance(a, dict):
        return isinstance(b, dict) and set(a) == set(b) and all(_eq(a[k], b[k]) for k in a)
    if isinstance(a, (list, tuple)):
        return type(a) == type(b) and len(a) == len(b) and all(_eq(x, y) for x, y in zip(a, b))
    a, b = np.asarray(a), np.asarray(b)
    return a.shape == b.shape and np.array_equal(a, b)


def conformance(tier):
    import tf_pwa.data as D

    out = {}
    for name, data in _structs(4).items():
        for b in (1, 3, 5):
            pieces = list(D.data_split(data, b))
            m = D.data_merge(*pieces)
            out["%s_%d" % (name, b)] = [len(pieces), bool(_eq(D.data_to_numpy(m), data))]
    return out


def replay(p):
    import tf_pwa.data as D

    kind = p["kind"]
    try:
        if kind == "roundtrip":
            data = _structs(p["n"])[p["structure"]]
            pieces = list(D.data_split(data, p["b"]))
            ok = bool(pieces) and _eq(D.data_to_numpy(D.data_merge(*pieces)), data) and len(pieces) == (p["n"] + p["b"] - 1) // p["b"]
            return {"reproduced": not ok, "pieces": len(pieces)}
        if kind == "dat_file":
            import os
            import tempfile

            parts = ["B", "C", "D"]
            groups = {1: [parts], 2: [parts[:1], parts[1:]], 3: [parts[:2], parts[2:]], 4: [parts[:1], parts[1:2], parts[2:]]}[p["nfiles"]]
            rng = np.random.RandomState(2)
            mom = {q: rng.rand(3, 4) for q in parts}
            d = tempfile.mkdtemp(prefix="c18_")
            try:
                files = []
                for i, grp in enumerate(groups):
                    fn = os.path.join(d, "f%d.dat" % i)
                    np.savetxt(fn, np.stack([mom[q] for q in grp]).transpose((1, 0, 2)).reshape((-1, 4)))
                    files.append(fn)
                loaded = D.load_dat_file(files if len(files) > 1 else files[0], parts)
                ok = set(loaded) == set(parts) and all(np.allclose(np.asarray(loaded[q]), mom[q]) for q in parts if q in loaded)
            finally:
                import shutil

                shutil.rmtree(d, ignore_errors=True)
            return {"reproduced": not ok, "loaded": sorted(map(str, loaded))}
        if kind == "split_index":
            n, b, axis = p["n"], p["b"], p["axis"]
            a = np.arange(n) if axis == 0 else np.arange(3 * n).reshape(3, n)
            ps = list(D._data_split(a, b, axis=axis))
            cat = np.concatenate(ps, axis=axis) if ps else a[..., :0]
            ok = np.array_equal(cat, a) and all(0 < q.shape[axis] <= b for q in ps)
            return {"reproduced": not ok}
    except Exception as e:
        if p.get("expect_raise"):
            return {"reproduced": True, "raised": "%s: %s" % (type(e).__name__, str(e)[:200])}
        return {"reproduced": False, "error": "%s: %s" % (type(e).__name__, str(e)[:300])}
    return {"reproduced": False, "error": "no replay for kind %s" % kind}
