"""C12 — rotation-group functions (Wigner D, Clebsch-Gordan, SU(2) Euler angles) are exact."""
from __future__ import annotations

import itertools
import math
from fractions import Fraction

import numpy as np

from symx import scalar as S
from symx import term as T
from symx.harness import Session
from symx.scalar import SymComplex, SymReal

from .common import EPS, facts, far, far_c, model_angle, re_im, tensor_of, term_of

PID = "C12"
LEVEL = "model_checking"
CLAIM = (
    "Bounded symbolic verification: for every Euler angle (symbolic reals), small-d matrices for 2j<=8 are orthogonal, "
    "equal 1 at beta=0, satisfy the generator equation d'=-iJ_y d and the index symmetries; D*=e^{i m a} d e^{i m' g} for 2j<=5 "
    "(2j<=3 in quick) and D D^dagger=1 directly for 2j<=3 (for 2j = 4, 5 it follows from the entry identity and the orthogonality of d); d(b1)d(b2)=d(b1+b2) for 2j<=4; real CG coefficients couple d^{j1} x d^{j2} into d^J for every beta "
    "(2j1,2j2<=4); Euler angles extracted from every SU(2) element rebuild it; all decided by z3 (unsat). Weight table, CG values "
    "and the bundled table (integer spins, where it is defined) are finite comparisons against exact rational formulas. "
    "This is the right level because the quantifier is over all real angles: no sample of angles can settle it, the solver does."
)
NOTE = (
    "reals stand in for doubles (tolerance 1e-9 on identities with float constants); general group law rests on the decided "
    "generator equation plus ODE uniqueness (trusted); numpy object-array broadcasting; z3; the substitute tensorflow is diffed "
    "against real TensorFlow on every run"
)
TECHNIQUE = "symbolic execution of dfun/cg/angle.SU2M on a symbolic tensorflow substitute; Weierstrass-rational trig; z3 nlsat (QF_NRA) per obligation; sat models replayed on real TensorFlow"
EXPLANATION = (
    "Bounded symbolic verification. tf_pwa.dfun / tf_pwa.cg / tf_pwa.angle.SU2M run unmodified on a symbolic "
    "substitute for tensorflow; Euler angles are symbolic (Weierstrass parameter u = tan(theta/4), so every "
    "trigonometric value is a rational function of u), each property instance is a negated assertion decided by "
    "z3 (QF_NRA, nlsat); unsat = holds for every angle.  Constants computed by the code (weight table, CG "
    "coefficients) enter as the exact rationals of the doubles, so identities carry an absolute tolerance 1e-9.  "
    "Finite tables (weights, CG values, table-vs-sympy) are compared concretely and reported as such."
)
FUNCTIONS = [
    "tf_pwa/dfun.py:small_d_weight",
    "tf_pwa/dfun.py:small_d_matrix",
    "tf_pwa/dfun.py:exp_i",
    "tf_pwa/dfun.py:D_matrix_conj",
    "tf_pwa/dfun.py:get_D_matrix_for_angle",
    "tf_pwa/dfun.py:get_D_matrix_lambda",
    "tf_pwa/dfun.py:Dfun_delta",
    "tf_pwa/dfun.py:Dfun_delta_v2",
    "tf_pwa/dfun.py:delta_D_index",
    "tf_pwa/dfun.py:delta_D_trans",
    "tf_pwa/cg.py:cg_coef",
    "tf_pwa/cg.py:get_cg_coef",
    "tf_pwa/cg_table.json:table",
    "tf_pwa/angle.py:SU2M.Rotation_z",
    "tf_pwa/angle.py:SU2M.Rotation_y",
    "tf_pwa/angle.py:SU2M.Boost_z",
    "tf_pwa/angle.py:SU2M.__mul__",
    "tf_pwa/angle.py:SU2M.inv",
    "tf_pwa/angle.py:SU2M.get_euler_angle",
]
ASSUMPTIONS = [
    "reals stand in for doubles: rounding of the variable arithmetic is outside the claim; constants the code computes are the exact rationals of the doubles, identities hold to 1e-9 absolute",
    "Weierstrass parametrisation u = tan(theta/4) misses theta = 2 pi exactly (a single point of the period)",
    "group law D(R1)D(R2)=D(R1R2): decided directly for rotations about one axis (d(b1)d(b2)=d(b1+b2), z-phases add); the general law follows from the generator equation d' = -i J_y d (decided here) by uniqueness of ODE solutions - trusted mathematical step",
    "exp() of a symbolic boost parameter is an uninterpreted positive function; exp(-x) is normalised to 1/exp(x) by the engine",
    "sympy's CG(...).doit() is the reference for exact Clebsch-Gordan values only in the table-vs-sympy comparison; the CG-D consistency identity and orthonormality are independent of it",
]
TRUSTED = ["numpy broadcasting/reshape on object arrays", "sympy.physics.quantum.cg (second reference for CG values)"]


def bounds(tier):
    return {
        "two_j_small_d": list(range(0, 5 if tier == "quick" else 9)),
        "two_j_full_D": list(range(0, 4 if tier == "quick" else 6)),
        "two_j_group_law_y": list(range(0, 3 if tier == "quick" else 5)),
        "cg_D_identity_2j1_2j2": "2j1,2j2 <= %d" % (2 if tier == "quick" else 4),
        "cg_table_j_max": 4,
        "tolerance": float(EPS),
    }


def jobs(tier, seed):
    q = tier == "quick"
    out = []
    for tj in range(0, 5 if q else 9):
        out.append(("small_d", tj))
        out.append(("weights", tj))
    for tj in range(0, 4 if q else 6):
        out.append(("full_D", tj))
    for tj in range(1, 3 if q else 5):
        out.append(("group_y", tj))
    for tj in range(0, 5 if q else 9):
        out.append(("gather", tj))
    jm = 2 if q else 4
    for a in range(0, jm + 1):
        for b in range(0, jm + 1):
            if a + b > 0:
                out.append(("cg_d", a, b))
    for a in range(0, 9):
        out.append(("cg_table", a))
    out.append(("su2_euler", "generic"))
    out.append(("su2_euler", "beta0"))
    out.append(("su2_euler", "betapi"))
    out.append(("su2_ops",))
    return out


# ------------------------------------------------------------------ references


def jy_generator(tj):
    """A = -i J_y in tf-pwa's index order (index a <-> m = a - j), as floats.
    (J+)_{m+1,m} = sqrt((j-m)(j+m+1)); -iJ_y = -(J+ - J-)/2."""
    n = tj + 1
    A = np.zeros((n, n))
    for a in range(n - 1):  # m = a - j ; m+1 = a+1
        m2 = 2 * a - tj  # 2m
        v = 0.5 * math.sqrt(((tj - m2) // 2) * ((tj + m2) // 2 + 1))
        A[a + 1, a] = -v
        A[a, a + 1] = +v
    return A


def wigner_weight_exact(tj, a, b, l):
    """Coefficient of sin^l(beta/2) cos^(2j-l)(beta/2) in d^j_{m',m}, m'=a-j, m=b-j,
    from the textbook Wigner formula (Sakurai 3.8.33), as (sign, Fraction w^2)."""
    # d^j_{m'm} = sum_k (-1)^(k-m+m') sqrt((j+m)!(j-m)!(j+m')!(j-m')!) /
    #             ((j+m-k)! k! (j-k-m')! (k-m+m')!) cos^(2j-2k+m-m') sin^(2k-m+m')
    f = math.factorial
    jpm, jmm = b, tj - b  # j+m, j-m  (integers)
    jpmp, jmmp = a, tj - a  # j+m', j-m'
    d = a - b  # m' - m
    # power of sin = 2k + d = l  ->  k = (l - d)/2
    if (l - d) % 2:
        return 0, Fraction(0)
    k = (l - d) // 2
    if k < 0 or jpm - k < 0 or jmmp - k < 0 or k + d < 0:
        return 0, Fraction(0)
    num = f(jpm) * f(jmm) * f(jpmp) * f(jmmp)
    den = f(jpm - k) * f(k) * f(jmmp - k) * f(k + d)
    sign = -1 if (k + d) % 2 else 1
    return sign, Fraction(num, den * den)


def cg_exact_sq(j1, m1, j2, m2, J, M):
    """Racah's formula in exact arithmetic on doubled integers: returns (sign, C^2)."""
    f = math.factorial
    if m1 + m2 != M or abs(m1) > j1 or abs(m2) > j2 or abs(M) > J:
        return 0, Fraction(0)
    if J < abs(j1 - j2) or J > j1 + j2 or (j1 + j2 + J) % 2:
        return 0, Fraction(0)
    if (j1 + m1) % 2 or (j2 + m2) % 2 or (J + M) % 2:
        return 0, Fraction(0)
    h = lambda x: x // 2
    pref = Fraction(
        (J + 1) * f(h(J + j1 - j2)) * f(h(J - j1 + j2)) * f(h(j1 + j2 - J)),
        f(h(j1 + j2 + J) + 1),
    )
    pref *= f(h(J + M)) * f(h(J - M)) * f(h(j1 - m1)) * f(h(j1 + m1)) * f(h(j2 - m2)) * f(h(j2 + m2))
    s = Fraction(0)
    for k in range(0, h(j1 + j2 + J) + 2):
        a = [k, h(j1 + j2 - J) - k, h(j1 - m1) - k, h(j2 + m2) - k, h(J - j2 + m1) + k, h(J - j1 - m2) + k]
        if min(a) < 0:
            continue
        den = 1
        for x in a:
            den *= f(x)
        s += Fraction((-1) ** k, den)
    sign = 0 if s == 0 else (1 if s > 0 else -1)
    return sign, pref * s * s


# ------------------------------------------------------------------------ jobs


def _beta_tensor(name="beta"):
    b = S.angle(name, D=2)
    return b, tensor_of([b])


def job_small_d(ss, tj):
    from tf_pwa import dfun

    b, bt = _beta_tensor()
    d = dfun.small_d_matrix(bt, tj).arr[0]
    n = tj + 1
    F = facts()

    def pay(kind, **kw):
        return lambda model: dict(kind=kind, twoj=tj, beta=model_angle(model, "beta"), **kw)

    ss.witness("small_d.reach[2j=%d]" % tj, F)
    for i in range(n):
        for k in range(i, n):
            e = T.add(*[T.mul(term_of(d[i, l]), term_of(d[k, l])) for l in range(n)])
            ss.prove(
                "small_d.orthogonal[2j=%d,%d,%d]" % (tj, i, k), F, far(e, T.ONE if i == k else T.ZERO),
                key="small_d.orthogonal", payload=pay("orth", i=i, k=k),
                describe="sum_l d[i,l] d[k,l] = delta_ik for all beta", want_smt2=(i == 0 and k == 0),
            )
    # d(0) = 1
    at0 = F + [T.eq(T.var("u_beta"), T.ZERO)]
    for i in range(n):
        for k in range(n):
            ss.prove(
                "small_d.identity_at_0[2j=%d,%d,%d]" % (tj, i, k), at0, far(term_of(d[i, k]), T.ONE if i == k else T.ZERO),
                key="small_d.identity_at_0", payload=lambda m, i=i, k=k: dict(kind="at0", twoj=tj, i=i, k=k, beta=0.0),
            )
    # generator equation  d/dbeta d = A d ,  beta = 4 atan(u), w = 1/(1+u^2)
    u, w = T.var("u_beta"), T.var("w_beta")
    A = jy_generator(tj)
    dw_du = T.mul(T.const(-2, "R"), u, w, w)
    du_dbeta_inv = T.mul(T.const(Fraction(1, 4), "R"), T.add(T.ONE, T.mul(u, u)))  # (1+u^2)/4
    cu, cw = {}, {}
    for i in range(n):
        for k in range(n):
            t = term_of(d[i, k])
            dd = T.mul(T.add(T.diff(t, u, cu), T.mul(T.diff(t, w, cw), dw_du)), du_dbeta_inv)
            rhs = T.add(*[T.mul(T.const(float(A[i, l]), "R"), term_of(d[l, k])) for l in range(n) if A[i, l] != 0]) if n > 1 else T.ZERO
            ss.prove(
                "small_d.generator_ode[2j=%d,%d,%d]" % (tj, i, k), F, far(dd, rhs),
                key="small_d.generator_ode", payload=pay("ode", i=i, k=k),
                describe="d/dbeta d^j = -i J_y d^j with J_y from sqrt((j-m)(j+m+1))/2 (oracle independent of the Wigner sum)",
            )
    # symmetries d_{m'm} = (-1)^{m-m'} d_{mm'} = d_{-m,-m'}
    for i in range(n):
        for k in range(n):
            sgn = -1 if (i - k) % 2 else 1
            ss.prove(
                "small_d.symmetry_T[2j=%d,%d,%d]" % (tj, i, k), F,
                far(term_of(d[i, k]), T.mul(T.const(sgn, "R"), term_of(d[k, i]))),
                key="small_d.symmetry", payload=pay("symT", i=i, k=k),
            )
            ss.prove(
                "small_d.symmetry_neg[2j=%d,%d,%d]" % (tj, i, k), F,
                far(term_of(d[i, k]), term_of(d[n - 1 - k, n - 1 - i])),
                key="small_d.symmetry", payload=pay("symN", i=i, k=k),
            )
    # mutated oracle: orthogonality to the wrong target must be refutable
    if n > 1:
        e = T.add(*[T.mul(term_of(d[0, l]), term_of(d[1, l])) for l in range(n)])
        ss.mutant("small_d.mutant_orth[2j=%d]" % tj, F, far(e, T.ONE))


def job_weights(ss, tj):
    from tf_pwa import dfun

    dfun.small_d_weight.cache_clear()
    w = dfun.small_d_weight(tj)
    n = tj + 1
    bad = []
    for l in range(n):
        for a in range(n):
            for b in range(n):
                sign, w2 = wigner_weight_exact(tj, a, b, l)
                ref = sign * math.sqrt(float(w2))
                if abs(float(w[l][a][b]) - ref) > 1e-12 * max(1.0, abs(ref)):
                    bad.append((l, a, b, float(w[l][a][b]), ref))
    ss.concrete(
        "small_d.weights_exact[2j=%d]" % tj, not bad, key="small_d.weights_exact",
        payload=dict(kind="weights", twoj=tj, bad=bad[:5]),
        describe="every entry of small_d_weight(2j) equals sign*sqrt(exact rational) from the textbook Wigner sum (%d entries)" % (n ** 3),
    )


def job_full_D(ss, tj):
    from tf_pwa import dfun

    a = S.angle("alpha", D=2)
    b = S.angle("beta", D=2)
    g = S.angle("gamma", D=2)
    D = dfun.D_matrix_conj(tensor_of([a]), tensor_of([b]), tensor_of([g]), tj).arr[0]
    d = dfun.small_d_matrix(tensor_of([b]), tj).arr[0]
    n = tj + 1
    F = facts()

    def pay(kind, **kw):
        return lambda m: dict(kind=kind, twoj=tj, alpha=model_angle(m, "alpha"), beta=model_angle(m, "beta"), gamma=model_angle(m, "gamma"), **kw)

    for i in range(n):
        for k in range(n):
            # oracle: e^{i m1 alpha} d e^{i m2 gamma}, m = index - j  (angle algebra of the engine)
            m1 = Fraction(2 * i - tj, 2)
            m2 = Fraction(2 * k - tj, 2)
            ph = a * m1 + g * m2
            c, s = ph.cos_sin()
            ref = SymComplex(c * d[i, k], s * d[i, k])
            ss.prove(
                "D.entry[2j=%d,%d,%d]" % (tj, i, k), F, far_c(D[i, k], ref),
                key="D.entry", payload=pay("D_entry", i=i, k=k),
                describe="D*_{m1 m2}(a,b,g) = exp(i m1 a) d_{m1 m2}(b) exp(i m2 g)",
            )
    if tj > 3:
        # direct unitarity queries for 2j = 4, 5 are only partly decided by nlsat within the limits (measured: 3 of 36 undecided);
        # for these spins unitarity follows from D.entry (D* = e^{i m1 a} d e^{i m2 g}, decided above) and small_d.orthogonal (2j <= 8)
        ss.note(name="D.unitary[2j=%d]" % tj, by_composition="D.entry + small_d.orthogonal")
    for i in range(n if tj <= 3 else 0):
        for k in range(i, n):
            acc = SymComplex(SymReal(T.ZERO), SymReal(T.ZERO))
            for l in range(n):
                acc = acc + D[i, l] * D[k, l].conjugate()
            tgt = 1.0 if i == k else 0.0
            ss.prove(
                "D.unitary[2j=%d,%d,%d]" % (tj, i, k), F, far_c(acc, tgt),
                key="D.unitary", payload=pay("D_unitary", i=i, k=k), describe="D D^dagger = 1 for all alpha, beta, gamma",
                want_smt2=(i == 0 and k == 0 and tj == 1),
            )
    if n > 1:
        acc = SymComplex(SymReal(T.ZERO), SymReal(T.ZERO))
        for l in range(n):
            acc = acc + D[0, l] * D[1, l].conjugate()
        ss.mutant("D.mutant_unitary[2j=%d]" % tj, F, far_c(acc, 1.0))


def job_group_y(ss, tj):
    from tf_pwa import dfun

    b1 = S.angle("b1", D=2)
    b2 = S.angle("b2", D=2)
    d1 = dfun.small_d_matrix(tensor_of([b1]), tj).arr[0]
    d2 = dfun.small_d_matrix(tensor_of([b2]), tj).arr[0]
    d12 = dfun.small_d_matrix(tensor_of([b1 + b2]), tj).arr[0]
    n = tj + 1
    F = facts()
    for i in range(n):
        for k in range(n):
            e = T.add(*[T.mul(term_of(d1[i, l]), term_of(d2[l, k])) for l in range(n)])
            ss.prove(
                "group.y_rotations[2j=%d,%d,%d]" % (tj, i, k), F, far(e, term_of(d12[i, k])),
                key="group.y_rotations", timeout=60,
                payload=lambda m, i=i, k=k: dict(kind="group_y", twoj=tj, i=i, k=k, b1=model_angle(m, "b1"), b2=model_angle(m, "b2")),
                describe="d(b1) d(b2) = d(b1+b2)",
            )


def job_gather(ss, tj):
    """Dfun_delta / Dfun_delta_v2 select exactly D_{la, lb-lc} (zero when |lb-lc| > j)."""
    from tf_pwa import dfun

    n = tj + 1
    j = tj / 2
    if tj % 2 == 0:
        j = tj // 2
    # opaque complex matrix: one fresh complex symbol per entry
    Dm = np.empty((1, n, n), dtype=object)
    for a in range(n):
        for b in range(n):
            Dm[0, a, b] = S.cplx("D_%d_%d" % (a, b))
    Dt = tensor_of(Dm, "complex128")

    def hel(tjx):
        return [x / 2 if tjx % 2 else x // 2 for x in range(-tjx, tjx + 1, 2)]

    la = hel(tj)
    count = 0
    bad = []
    for tjb in range(0, 4):
        for tjc in range(0, 4):
            if (tjb + tjc + tj) % 2:
                continue
            lb, lc = hel(tjb), hel(tjc)
            for sub_a in (la, la[::2] if len(la) > 1 else la):
                r2 = dfun.Dfun_delta_v2(Dt, j, tuple(sub_a), tuple(lb), tuple(lc)).arr
                r1 = dfun.Dfun_delta(Dt, j, tuple(sub_a), tuple(lb), tuple(lc)).arr
                for ia, xa in enumerate(sub_a):
                    for ib, xb in enumerate(lb):
                        for ic, xc in enumerate(lc):
                            delta = xb - xc
                            count += 1
                            if abs(delta) <= j:
                                exp = Dm[0, int(round(xa + j)), int(round(delta + j))]
                                exp_t = (exp.re.t, exp.im.t)
                            else:
                                exp_t = (T.ZERO, T.ZERO)
                            for which, r in (("v2", r2), ("v1", r1)):
                                got = re_im(r[0, ia, ib, ic])
                                if got[0] is not exp_t[0] or got[1] is not exp_t[1]:
                                    bad.append((which, tjb, tjc, xa, xb, xc))
    ss.concrete(
        "D.gather[2j=%d]" % tj, not bad, key="D.gather",
        payload=dict(kind="gather", twoj=tj, bad=[list(map(float, b[1:])) for b in bad[:3]]),
        describe="Dfun_delta and Dfun_delta_v2 on an opaque symbolic matrix return exactly the addressed entry D[la+j, lb-lc+j] or 0 (term identity; %d entries, jb,jc <= 3/2)" % count,
    )


def job_cg_table(ss, tj1):
    """table and sympy path against Racah's formula in exact arithmetic; orthonormality."""
    from tf_pwa import cg

    bad_t, bad_s, n_t, n_s = [], [], 0, 0
    for tj2 in range(0, 9):
        for J2 in range(abs(tj1 - tj2), tj1 + tj2 + 1, 2):
            for m1 in range(-tj1, tj1 + 1, 2):
                for m2 in range(-tj2, tj2 + 1, 2):
                    M = m1 + m2
                    if abs(M) > J2:
                        continue
                    sign, c2 = cg_exact_sq(tj1, m1, tj2, m2, J2, M)
                    ref = sign * math.sqrt(float(c2))
                    hf = lambda x: x / 2 if x % 2 else x // 2
                    args = (hf(tj1), hf(tj2), hf(m1), hf(m2), hf(J2), hf(M))
                    # the table path: the bundled table is defined for integer
                    # j1, j2 in 0..4 (it has no half-integer entries at all)
                    if tj1 % 2 == 0 and tj2 % 2 == 0:
                        n_t += 1
                        got = float(cg.get_cg_coef(*args))
                        if abs(got - ref) > 1e-9:
                            bad_t.append((args, got, ref))
                    # the sympy path only up to j <= 2 here (slow); thorough covers it in cg_d
                    if tj1 <= 4 and tj2 <= 4:
                        n_s += 1
                        got = float(cg.cg_coef(*args))
                        if abs(got - ref) > 1e-12:
                            bad_s.append((args, got, ref))
    ss.concrete(
        "cg.table_exact[2j1=%d]" % tj1, not bad_t, key="cg.table_exact",
        payload=dict(kind="cg_table", bad=[[list(map(float, a)), g, r] for a, g, r in bad_t[:3]]),
        describe="get_cg_coef (bundled table incl. the j1<j2 swap sign) equals Racah's formula evaluated in exact rational arithmetic wherever the table is defined (integer j1, j2 <= 4; all J, m1, m2): %d values" % n_t,
    )
    ss.concrete(
        "cg.sympy_exact[2j1=%d]" % tj1, not bad_s, key="cg.sympy_exact",
        payload=dict(kind="cg_sympy", bad=[[list(map(float, a)), g, r] for a, g, r in bad_s[:3]]),
        describe="cg_coef equals Racah's formula in exact arithmetic (j1,j2 <= 2): %d values" % n_s,
    )


def job_cg_d(ss, tj1, tj2):
    """sum C d^{j1} d^{j2} C = delta_{JJ'} d^J for all beta (real cg_coef + real small_d_matrix)."""
    from tf_pwa import cg, dfun

    b, bt = _beta_tensor()
    d1 = dfun.small_d_matrix(bt, tj1).arr[0]
    d2 = dfun.small_d_matrix(bt, tj2).arr[0]
    F = facts()
    hf = lambda x: x / 2 if x % 2 else x // 2
    Js = list(range(abs(tj1 - tj2), tj1 + tj2 + 1, 2))
    dJ = {J: dfun.small_d_matrix(bt, J).arr[0] for J in Js}
    C = {}
    for J in Js:
        for m1 in range(-tj1, tj1 + 1, 2):
            for m2 in range(-tj2, tj2 + 1, 2):
                M = m1 + m2
                if abs(M) <= J:
                    C[(m1, m2, J)] = float(cg.cg_coef(hf(tj1), hf(tj2), hf(m1), hf(m2), hf(J), hf(M)))
    for J in Js:
        for Jp in Js:
            for M in range(-J, J + 1, 2):
                for Mp in range(-Jp, Jp + 1, 2):
                    if J != Jp and (M, Mp) != (min(J, Jp) * 0 + M, Mp) and False:
                        continue
                    parts = []
                    for m1 in range(-tj1, tj1 + 1, 2):
                        m2 = M - m1
                        if abs(m2) > tj2:
                            continue
                        c1 = C.get((m1, m2, J), 0.0)
                        if c1 == 0:
                            continue
                        for m1p in range(-tj1, tj1 + 1, 2):
                            m2p = Mp - m1p
                            if abs(m2p) > tj2:
                                continue
                            c2 = C.get((m1p, m2p, Jp), 0.0)
                            if c2 == 0:
                                continue
                            parts.append(
                                T.mul(
                                    T.const(c1, "R"), T.const(c2, "R"),
                                    term_of(d1[(m1 + tj1) // 2, (m1p + tj1) // 2]),
                                    term_of(d2[(m2 + tj2) // 2, (m2p + tj2) // 2]),
                                )
                            )
                    lhs = T.add(*parts) if parts else T.ZERO
                    rhs = term_of(dJ[J][(M + J) // 2, (Mp + J) // 2]) if J == Jp else T.ZERO
                    ss.prove(
                        "cg.D_consistency[2j1=%d,2j2=%d,2J=%d,2J'=%d,%d,%d]" % (tj1, tj2, J, Jp, M, Mp), F, far(lhs, rhs),
                        key="cg.D_consistency",
                        payload=lambda m, J=J, Jp=Jp, M=M, Mp=Mp: dict(kind="cg_d", tj1=tj1, tj2=tj2, J=J, Jp=Jp, M=M, Mp=Mp, beta=model_angle(m, "beta")),
                        describe="CG coefficients couple d^{j1} x d^{j2} into delta_{JJ'} d^J for every beta",
                    )


def _su2_generic_element():
    """U = [[a, -conj(b)], [b, conj(a)]] with |a|^2 + |b|^2 = 1"""
    ar, ai, br, bi = S.real("ar"), S.real("ai"), S.real("br"), S.real("bi")
    S.assume(ar * ar + ai * ai + br * br + bi * bi == 1)
    a = SymComplex(ar, ai)
    b = SymComplex(br, bi)
    return a, b


def job_su2_euler(ss, case):
    from tf_pwa.angle import SU2M

    a, b = _su2_generic_element()
    if case == "beta0":
        S.assume(b.re == 0)
        S.assume(b.im == 0)
    elif case == "betapi":
        S.assume(a.re == 0)
        S.assume(a.im == 0)
    c = lambda z: tensor_of([z], "complex128")
    U = SU2M([[c(a), c(-b.conjugate())], [c(b), c(a.conjugate())]])
    ang = U.get_euler_angle()
    R = SU2M.Rotation_z(ang["gamma"]) * SU2M.Rotation_y(ang["beta"]) * SU2M.Rotation_z(ang["alpha"])
    F = facts()
    ss.witness("su2.reach[%s]" % case, F)

    def pay(m):
        return dict(kind="su2_euler", a=[float(m.get("ar", 0)), float(m.get("ai", 0))], b=[float(m.get("br", 0)), float(m.get("bi", 0))])

    # R = U entry by entry.  (gamma/2 + alpha/2 and gamma/2 - alpha/2 are the
    # phases of conj(a) and b exactly, so the rebuilt element has the same sign.)
    for i in range(2):
        for k in range(2):
            r = R["x"][i][k].arr[0]
            u = U["x"][i][k].arr[0]
            ss.prove(
                "su2.euler_rebuild[%s,%d,%d]" % (case, i, k), F, far_c(r, u, 0), timeout=60, key="su2.euler_rebuild",
                payload=pay, describe="Rz(gamma) Ry(beta) Rz(alpha) from get_euler_angle equals U for every SU(2) element U",
                want_smt2=(i == 0 and k == 0),
            )
    mi = (1, 0) if case == "betapi" else (1, 1)
    ss.mutant("su2.mutant[%s]" % case, F, far_c(R["x"][mi[0]][mi[1]].arr[0], -U["x"][mi[0]][mi[1]].arr[0], 0))


def job_su2_ops(ss):
    from tf_pwa.angle import SU2M

    a, b = _su2_generic_element()
    a2, b2 = SymComplex(S.real("cr"), S.real("ci")), SymComplex(S.real("dr"), S.real("di"))
    c = lambda z: tensor_of([z], "complex128")
    U = SU2M([[c(a), c(-b.conjugate())], [c(b), c(a.conjugate())]])
    F = facts()
    P = U * U.inv()
    for i in range(2):
        for k in range(2):
            ss.prove(
                "su2.inverse[%d,%d]" % (i, k), F, far_c(P["x"][i][k].arr[0], 1.0 if i == k else 0.0, 0), key="su2.inverse",
                payload=lambda m: dict(kind="su2_inv", a=[float(m.get("ar", 0)), float(m.get("ai", 0))], b=[float(m.get("br", 0)), float(m.get("bi", 0))]),
                describe="U * U.inv() = 1 on SU(2)",
            )
    # product is the matrix product (generic 2x2 complex matrices)
    X = [[S.cplx("x%d%d" % (i, k)) for k in range(2)] for i in range(2)]
    Y = [[S.cplx("y%d%d" % (i, k)) for k in range(2)] for i in range(2)]
    Z = SU2M([[c(X[0][0]), c(X[0][1])], [c(X[1][0]), c(X[1][1])]]) * SU2M([[c(Y[0][0]), c(Y[0][1])], [c(Y[1][0]), c(Y[1][1])]])
    for i in range(2):
        for k in range(2):
            ref = X[i][0] * Y[0][k] + X[i][1] * Y[1][k]
            ss.prove("su2.product[%d,%d]" % (i, k), [], far_c(Z["x"][i][k].arr[0], ref, 0), key="su2.product",
                     payload=lambda m: dict(kind="su2_prod", model={k_: float(v) for k_, v in m.items() if k_[0] in "xy"}))
    # rotations about one axis compose by adding angles; boost sandwich B(-w) Rz(a) B(w) = Rz(a)
    a1 = S.angle("a1", D=4)
    a2_ = S.angle("a2", D=4)
    F2 = facts()
    for name, f in (("z", SU2M.Rotation_z), ("y", SU2M.Rotation_y)):
        lhs = f(tensor_of([a1])) * f(tensor_of([a2_]))
        rhs = f(tensor_of([a1 + a2_]))
        for i in range(2):
            for k in range(2):
                ss.prove(
                    "su2.compose_%s[%d,%d]" % (name, i, k), F2, far_c(lhs["x"][i][k].arr[0], rhs["x"][i][k].arr[0], 0),
                    key="su2.compose",
                    payload=lambda m, name=name: dict(kind="su2_compose", axis=name, a1=model_angle(m, "a1", 4), a2=model_angle(m, "a2", 4)),
                    describe="R(a1) R(a2) = R(a1+a2) for rotations about one axis",
                )
    # boost sandwich: exp as uninterpreted positive function, exp(-x) exp(x) = 1 instantiated
    w = S.real("omega")
    Bp = SU2M.Boost_z(tensor_of([w]))
    Bm = SU2M.Boost_z(tensor_of([-w]))
    F3 = facts()
    W = Bm * SU2M.Rotation_z(tensor_of([a1])) * Bp
    ang = W.get_euler_angle()
    R = SU2M.Rotation_z(ang["gamma"]) * SU2M.Rotation_y(ang["beta"]) * SU2M.Rotation_z(ang["alpha"])
    F3 = facts()
    for i in range(2):
        for k in range(2):
            r = R["x"][i][k].arr[0]
            u = W["x"][i][k].arr[0]
            ss.prove(
                "su2.boost_sandwich_euler[%d,%d]" % (i, k), F3, far_c(r, u, 0), timeout=60, key="su2.boost_sandwich",
                payload=lambda m: dict(kind="su2_sandwich", omega=float(m.get("omega", 0)), a1=model_angle(m, "a1", 4)),
                describe="Euler angles of B_z(-w) R_z(a) B_z(w) (a pure rotation) reproduce it",
            )


def run_job(job):
    ss = Session(job)
    kind = job[0]
    if kind == "small_d":
        job_small_d(ss, job[1])
    elif kind == "weights":
        job_weights(ss, job[1])
    elif kind == "full_D":
        job_full_D(ss, job[1])
    elif kind == "group_y":
        job_group_y(ss, job[1])
    elif kind == "gather":
        job_gather(ss, job[1])
    elif kind == "cg_table":
        job_cg_table(ss, job[1])
    elif kind == "cg_d":
        job_cg_d(ss, job[1], job[2])
    elif kind == "su2_euler":
        job_su2_euler(ss, job[1])
    elif kind == "su2_ops":
        job_su2_ops(ss)
    else:
        raise ValueError(kind)
    return ss.records
