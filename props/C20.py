"""C20 — samplers, histograms and adaptive bins reproduce their targets (deterministic algebra)."""
from __future__ import annotations

from fractions import Fraction

import numpy as np

from symx import fork
from symx import scalar as S
from symx import term as T
from symx.harness import Session
from symx.npproxy import NumpyProxy
from symx.scalar import SymBool, SymReal

from .common import facts, far, simp, tensor_of, term_of

PID = "C20"
LEVEL = "model_checking"
CLAIM = (
    "Bounded symbolic verification of the deterministic algebra behind the samplers: LinearInterp (piecewise-linear inverse transform) "
    "with symbolic grid, node values and uniform variate - on every branch of its bin search z3 decides integral(solve(u)) = u * total, "
    "x_0 <= solve(u) <= x_n; BWGenerator with tan/arctan as mutually inverse uninterpreted functions; acceptance-rejection "
    "(single_sampling2 / multi_sampling) with symbolic weights and uniforms explored by path forking - every accepted event has weight "
    "<= the bound it was accepted with, the returned bound dominates every weight seen, the thinning ratio old/new lies in (0,1] and "
    "force=True returns exactly N; Hist1D / WeightedData arithmetic and Hist1D.histogram post-processing conserve sum w and sum w^2 "
    "(np.histogram replaced by a reference binning model). Statistical agreement of samples with a density is not claimed."
)
NOTE = (
    "statistical statements (the sample follows the density), InterpND / plane_2d (SciPy/NumPy C code with data dependent control flow), "
    "np.histogram itself and adaptive-bin populations are outside the claim; grids with <= 4 nodes, <= 2 proposed events per round, <= 3 rounds"
)
TECHNIQUE = "path-forking symbolic execution of the NumPy-based samplers on object arrays of symbolic reals (numpy proxy for digitize/where/histogram), z3 nlsat / LRA per path; random draws are nondeterministic stubs"
CLAIM_EXTRA = 'A populated histogram bin carries sqrt(sum of its squared weights) also when its weights cancel, and an empty bin carries mask_error.'
NOTE_EXTRA = ''
EXPLANATION = CLAIM + " " + CLAIM_EXTRA
FUNCTIONS = [
    "tf_pwa/generator/linear_interpolation.py:LinearInterp.cal_coeffs", "tf_pwa/generator/linear_interpolation.py:LinearInterp.integral", "tf_pwa/generator/linear_interpolation.py:LinearInterp.solve",
    "tf_pwa/generator/linear_interpolation.py:LinearInterp.__call__", "tf_pwa/generator/breit_wigner.py:BWGenerator.integral", "tf_pwa/generator/breit_wigner.py:BWGenerator.solve",
    "tf_pwa/generator/generator.py:single_sampling2", "tf_pwa/generator/generator.py:multi_sampling", "tf_pwa/generator/generator.py:GenTest.generate",
    "tf_pwa/histogram.py:Hist1D.histogram", "tf_pwa/histogram.py:Hist1D.__add__", "tf_pwa/histogram.py:Hist1D.__sub__", "tf_pwa/histogram.py:Hist1D.__mul__", "tf_pwa/histogram.py:Hist1D.get_count",
    "tf_pwa/histogram.py:Hist1D.scale_to",
]
ASSUMPTIONS = [
    "uniform variates are arbitrary reals in [0,1) (stubs); weights returned by the amplitude stub are arbitrary positive reals",
    "node values of the piecewise-linear density are strictly positive; bin slopes are exactly zero or exceed the code's absolute guard 1e-10 (a slope below it is flattened, which changes the integral by k dx^2/2: negligible except for bins ~1e5 wide and more - observation)",
    "tan / arctan are uninterpreted, mutually inverse on the principal branch",
    "np.histogram is replaced by a reference model: count_k = sum_i w_i [e_k <= m_i < e_{k+1}] (last bin closed)",
]
TRUSTED = []


def bounds(tier):
    return {"grid_nodes": [3] + ([4] if tier == "thorough" else []), "proposed_events_per_round": 2, "rounds": 3, "histogram_events": 3, "histogram_bins": 3}


def jobs(tier, seed):
    out = [("linear_interp", 3), ("bw_generator",), ("single_sampling", 2), ("multi_sampling",), ("hist",), ("hist_arith",)]
    if tier == "thorough":
        out += [("linear_interp", 4), ("single_sampling", 3)]
    return out


def _digitize(x, bins, right=False):
    """np.digitize for (possibly symbolic) scalars / arrays: number of bin edges <= x (forks)"""
    bins = list(np.asarray(bins, dtype=object).reshape(-1))

    def one(v):
        k = 0
        for b in bins:
            if v >= b:
                k += 1
            else:
                break
        return k

    if isinstance(x, np.ndarray):
        return np.array([one(v) for v in x.reshape(-1)], dtype=int).reshape(x.shape)
    return one(x)


def _where(c, a=None, b=None):
    if a is None:
        return np.where(c)
    ca = np.asarray(c, dtype=object) if not isinstance(c, np.ndarray) else c

    def pick(cc, x, y):
        if isinstance(cc, SymBool):
            k = S.known_truth(cc.t)
            if k is True:
                return x
            if k is False:
                return y
            xs = x if isinstance(x, SymReal) else SymReal(T.const(x))
            ys = y if isinstance(y, SymReal) else SymReal(T.const(y))
            return SymReal(T.ite(cc.t, xs.t, ys.t))
        return x if cc else y

    f = np.frompyfunc(pick, 3, 1)
    r = f(ca, a, b)
    return r


def _pay(kind, **kw):
    def f(m):
        return dict(kind=kind, model={k: float(v) for k, v in m.items() if not k.startswith(("sqrt#", "uf_"))}, **kw)

    return f


def job_linear_interp(ss, n):
    import tf_pwa.generator.linear_interpolation as li

    old = li.np
    # np.where on the slope guard must fork (k == 0 selects a different formula), digitize forks on the bin
    li.np = NumpyProxy(digitize=_digitize)
    try:
        def run():
            xs = [S.real("x%d" % i) for i in range(n)]
            ys = [S.real("y%d" % i) for i in range(n)]
            c = S.ctx()
            for i in range(n - 1):
                c.fact(T.lt(xs[i].t, xs[i + 1].t))
            for y in ys:
                c.fact(T.gt(y.t, T.ZERO))
            u = S.real("u")
            c.fact(T.le(T.ZERO, u.t))
            c.fact(T.lt(u.t, T.ONE))
            for i in range(n - 1):
                # the code flattens slopes with |k| <= 1e-10 (absolute guard): slopes are exactly zero or above the guard
                k = (ys[i + 1] - ys[i]) / (xs[i + 1] - xs[i])
                c.fact(T.bor(T.eq(k.t, T.ZERO), T.gt(abs(k).t, T.const(1e-10, "R"))))
            f = li.LinearInterp(np.array(xs, dtype=object), np.array(ys, dtype=object))
            s = f.solve(u)
            back = f.integral(s)
            dens = f(s)
            return f, xs, ys, u, s, back, dens

        ex = fork.Explorer(max_paths=300, max_depth=60, timeout_s=20, total_s=1500)
        npaths = 0
        for path in ex.run(run):
            npaths += 1
            tag = "n=%d,path=%d" % (n, npaths)
            if path.error is not None:
                ss._rec(kind="obligation", name="interp.path_error[%s]" % tag, key="interp.path", status="error", error="%s: %s" % (type(path.error).__name__, path.error))
                continue
            f, xs, ys, u, s, back, dens = path.result
            F = list(path.ctx.facts) + list(path.pc)
            pay = _pay("linear_interp", n=n)
            st = s.t if isinstance(s, SymReal) else T.const(float(s), "R")
            bt = back.t if isinstance(back, SymReal) else T.const(float(back), "R")
            tot = f.int_all.t if isinstance(f.int_all, SymReal) else T.const(float(f.int_all), "R")
            st, bt, tot = [x.t for x in simp(F, SymReal(st), SymReal(bt), SymReal(tot))]
            ss.prove("interp.cdf_inverse[%s]" % tag, F, far(bt, T.mul(u.t, tot), 0), key="interp.cdf_inverse", payload=pay, timeout=60,
                     describe="integral(solve(u)) = u * total integral", want_smt2=(npaths == 1))
            ss.prove("interp.in_range[%s]" % tag, F, T.bor(T.lt(st, xs[0].t), T.gt(st, xs[-1].t)), key="interp.in_range", payload=pay, timeout=60, describe="x_0 <= solve(u) <= x_n")
            # total integral = trapezoid sum (independent reference)
            ref = SymReal(T.ZERO)
            for i in range(n - 1):
                ref = ref + (ys[i] + ys[i + 1]) * (xs[i + 1] - xs[i]) / 2
            ss.prove("interp.total_integral[%s]" % tag, F, far(tot, ref.t, 0), key="interp.total", payload=pay, timeout=60, describe="total = sum of trapezoids")
            ss.prove("interp.density_positive[%s]" % tag, F, T.le((dens.t if isinstance(dens, SymReal) else T.const(float(dens), "R")), T.ZERO), key="interp.density_positive", payload=pay, timeout=60)
            if npaths == 1:
                ss.witness("interp.reach[n=%d]" % n, F)
                ss.mutant("interp.mutant[n=%d]" % n, F, far(bt, T.mul(u.t, u.t, tot), 0))
        ss.note(name="interp.paths[n=%d]" % n, states=npaths, transitions=ex.stats["forks"], stats=ex.stats)
        if ex.stats["truncated"] or ex.stats["unknown_branches"]:
            ss._rec(kind="obligation", name="interp.exploration_incomplete[n=%d]" % n, key="interp.explore", status="unknown", reason=str(ex.stats))
    finally:
        li.np = old


def job_bw_generator(ss):
    import tf_pwa.generator.breit_wigner as bwg

    class NP(NumpyProxy):
        @staticmethod
        def arctan(x):
            if isinstance(x, SymReal):
                if x.t.op == "uf" and x.t.args[0] == "tan_p":
                    return SymReal(x.t.args[1])
                return SymReal(T.uf("arctan_p", x.t))
            return np.arctan(x)

        @staticmethod
        def tan(x):
            if isinstance(x, SymReal):
                if x.t.op == "uf" and x.t.args[0] == "arctan_p":
                    return SymReal(x.t.args[1])
                return SymReal(T.uf("tan_p", x.t))
            return np.tan(x)

    old = bwg.np
    bwg.np = NP()
    try:
        m0, g0, lo, hi = S.real("m0"), S.real("g0"), S.real("lo"), S.real("hi")
        S.assume(g0 > 0)
        S.assume(lo < hi)
        u = S.real("u")
        S.assume(u >= 0)
        S.assume(u < 1)
        g = bwg.BWGenerator(m0, g0, lo, hi)
        x = g.solve(u)
        F = facts()
        k = g0 / 2
        # the argument of tan is (1-u) atan((lo-m0)/k) + u atan((hi-m0)/k): a convex combination of the end points
        A_lo = SymReal(T.uf("arctan_p", ((lo - m0) / k).t))
        A_hi = SymReal(T.uf("arctan_p", ((hi - m0) / k).t))
        arg = (1 - u) * A_lo + u * A_hi
        ref = k * SymReal(T.uf("tan_p", arg.t)) + m0
        pay = _pay("bw_generator")
        # congruence of tan_p: equal arguments
        xt = x.t
        inner = None
        for t in T.postorder([xt]):
            if t.op == "uf" and t.args[0] == "tan_p":
                inner = t.args[1]
        ss.concrete("bwgen.structure", inner is not None, key="bwgen", payload=dict(kind="bwgen_struct"), describe="solve(u) = k tan(.) + m0")
        if inner is not None:
            ss.prove("bwgen.argument_interpolates", F, far(inner, arg.t, 0), key="bwgen.argument", payload=pay, timeout=60,
                     describe="the angle passed to tan is (1-u) atan((lo-m0)/k) + u atan((hi-m0)/k): u=0 gives lo, u=1 gives hi, monotone in between")
            back = g.integral(x)
            bt = back.t
            ss.prove("bwgen.cdf_inverse", F, far(T.sub(bt, g.integral(lo).t), T.mul(u.t, term_of(g.int_all) if not isinstance(g.int_all, SymReal) else g.int_all.t), 0), key="bwgen.cdf_inverse", payload=pay, timeout=60,
                     describe="integral(solve(u)) - integral(lo) = u * total (tan/arctan inverse)")
    finally:
        bwg.np = old


def job_single_sampling(ss, N):
    from symx import symtf
    import tensorflow as tf
    from tf_pwa.generator.generator import single_sampling2

    for with_bound, with_imp in ((False, False), (True, False), (False, True), (True, True)):
        def run(with_bound=with_bound, with_imp=with_imp):
            symtf.STATE.symbolic_random = True
            symtf.reset_state()
            ws = [S.real("w%d" % i) for i in range(N)]
            c = S.ctx()
            for w in ws:
                c.fact(T.gt(w.t, T.ZERO))
            imp = None
            if with_imp:
                fs = [S.real("f%d" % i) for i in range(N)]
                for f in fs:
                    c.fact(T.gt(f.t, T.ZERO))
                imp = lambda d: tensor_of(fs)
                # the weight that decides acceptance is amp / importance
                ws_eff = [w / f for w, f in zip(ws, fs)]
            else:
                ws_eff = ws
            mw = None
            if with_bound:
                b = S.real("bound0")
                c.fact(T.gt(b.t, T.ZERO))
                mw = tensor_of(b)
            phsp = lambda n: {"idx": tf.convert_to_tensor(np.arange(n))}
            amp = lambda d: tensor_of(ws)
            data, new_mw = single_sampling2(phsp, amp, N, mw, imp)
            return data, new_mw, ws_eff

        ex = fork.Explorer(max_paths=100, max_depth=30, timeout_s=20, total_s=900)
        npaths = 0
        for path in ex.run(run):
            npaths += 1
            tag = "N=%d,bound=%s,imp=%s,path=%d" % (N, with_bound, with_imp, npaths)
            if path.error is not None:
                ss._rec(kind="obligation", name="ar.path_error[%s]" % tag, key="ar.path", status="error", error="%s: %s" % (type(path.error).__name__, path.error))
                continue
            data, new_mw, ws = path.result
            F = list(path.ctx.facts) + list(path.pc)
            mwt = term_of(new_mw.arr.reshape(-1)[0]) if hasattr(new_mw, "arr") else new_mw.t
            kept = [int(i) for i in np.asarray(data["idx"].arr).reshape(-1)]
            pay = _pay("single_sampling", N=N, with_bound=with_bound, with_imp=with_imp, kept=kept)
            for i in kept:
                ss.prove("ar.accepted_below_bound[%s,%d]" % (tag, i), F, T.gt(ws[i].t, mwt), key="ar.accepted_below_bound", payload=pay, split=False, timeout=60,
                         describe="an accepted event has weight <= the bound it was accepted with")
            for i in range(N):
                ss.prove("ar.bound_dominates[%s,%d]" % (tag, i), F, T.gt(ws[i].t, mwt), key="ar.bound_dominates", payload=pay, split=False, timeout=60, describe="returned bound >= every weight seen")
            if with_bound:
                ss.prove("ar.bound_monotone[%s]" % tag, F, T.lt(mwt, T.var("bound0")), key="ar.bound_monotone", payload=pay, split=False, timeout=60, describe="the bound never decreases")
        ss.note(name="ar.paths[N=%d,bound=%s,imp=%s]" % (N, with_bound, with_imp), states=npaths, transitions=ex.stats["forks"], stats=ex.stats)


def job_multi_sampling(ss):
    from symx import symtf
    import tensorflow as tf
    import tf_pwa.generator.generator as gen
    from symx import pybuiltins as PB

    N = 2

    def run():
        symtf.STATE.symbolic_random = True
        symtf.reset_state()
        c = S.ctx()
        calls = {"n": 0, "weights": []}

        def phsp(n):
            base = calls["n"] * 10
            return {"idx": tf.convert_to_tensor(np.arange(base, base + int(n)))}

        def amp(d):
            k = calls["n"]
            calls["n"] += 1
            n = int(d["idx"].shape[0])
            ws = [S.real("w%d_%d" % (k, i)) for i in range(n)]
            for w in ws:
                c.fact(T.gt(w.t, T.ZERO))
            calls["weights"].append(ws)
            return tensor_of(ws)

        ret, (a, mw) = gen.multi_sampling(phsp, amp, N, max_N=2, force=True, display=False)
        return ret, mw, calls

    ex = fork.Explorer(max_paths=150, max_depth=14, timeout_s=20, total_s=1200)
    npaths = done = 0
    for path in ex.run(run):
        npaths += 1
        if path.error is not None:
            if isinstance(path.error, fork.PathLimit):
                continue
            ss._rec(kind="obligation", name="ms.path_error[%d]" % npaths, key="ms.path", status="error", error="%s: %s" % (type(path.error).__name__, path.error))
            continue
        done += 1
        ret, mw, calls = path.result
        F = list(path.ctx.facts) + list(path.pc)
        kept = [int(i) for i in np.asarray(ret["idx"].arr).reshape(-1)]
        tag = "path=%d,rounds=%d" % (npaths, calls["n"])
        pay = _pay("multi_sampling", kept=kept)
        ss.concrete("ms.exact_count[%s]" % tag, len(kept) == N, key="ms.exact_count", payload=dict(kind="multi_count", kept=kept), describe="force=True returns exactly N events")
        mwt = term_of(mw.arr.reshape(-1)[0]) if hasattr(mw, "arr") else mw.t
        for i in kept:
            w = calls["weights"][i // 10][i % 10]
            ss.prove("ms.kept_below_final_bound[%s,%d]" % (tag, i), F, T.gt(w.t, mwt), key="ms.kept_below_bound", payload=pay, split=False, timeout=60,
                     describe="every event in the final sample has weight <= the final bound")
    ss.note(name="ms.paths", states=npaths, transitions=ex.stats["forks"], stats=ex.stats, completed=done)
    ss.concrete("ms.some_paths_complete", done > 0, key="ms.paths", payload=dict(kind="multi_paths"))


def _histogram_model(m, bins=10, weights=None, density=None, **_kw):
    """reference binning: count_k = sum_i w_i [e_k <= m_i < e_{k+1}] (last bin closed)"""
    edges = list(np.asarray(bins, dtype=float))
    m = list(np.asarray(m, dtype=object).reshape(-1))
    w = [1.0] * len(m) if weights is None else list(np.asarray(weights, dtype=object).reshape(-1))
    out = np.empty(len(edges) - 1, dtype=object)
    for k in range(len(edges) - 1):
        acc = SymReal(T.ZERO)
        for mi, wi in zip(m, w):
            lo = mi >= edges[k]
            hi = (mi <= edges[k + 1]) if k == len(edges) - 2 else (mi < edges[k + 1])
            cond = S.sbool(lo) & S.sbool(hi)
            wi_s = wi if isinstance(wi, SymReal) else SymReal(T.const(wi))
            acc = acc + SymReal(T.ite(cond.t, wi_s.t, T.ZERO))
        out[k] = acc
    from symx.npproxy import SymArray

    return out.view(SymArray), np.asarray(edges)


def job_hist(ss):
    import tf_pwa.histogram as hg

    old = hg.np
    hg.np = NumpyProxy(histogram=_histogram_model, where=_where)
    try:
        n = 3
        m = np.array([S.real("m%d" % i) for i in range(n)], dtype=object)
        w = np.array([S.real("w%d" % i) for i in range(n)], dtype=object)
        edges = np.array([0.0, 1.0, 2.0, 3.0])
        for x in m:
            S.assume(x >= 0)
            S.assume(x <= 3)
        h = hg.Hist1D.histogram(m, edges, weights=w, mask_error=0.0)
        F = facts()
        tot = h.get_count()
        tot = tot[()] if isinstance(tot, np.ndarray) else tot
        sw = sum(w[1:], w[0])
        sw2 = sum([x * x for x in w[1:]], w[0] * w[0])
        pay = _pay("hist")
        ss.prove("hist.sum_of_weights", F, far(tot.t, sw.t, 0), key="hist.sum_of_weights", payload=pay, timeout=60, describe="sum of bin contents = sum of weights (all events inside the range)")
        e2 = SymReal(T.ZERO)
        for e in h.error:
            e2 = e2 + e * e
        ss.prove("hist.sum_of_squared_weights", F, far(simp(F, e2).t, sw2.t, 0), key="hist.sum_of_squared_weights", payload=pay, timeout=90, describe="sum of squared bin errors = sum of squared weights")
        ss.witness("hist.reach", F)
        # per bin, with a non-zero mask error: a populated bin carries sqrt(sum of its squared weights) whatever the
        # sum of its weights is (signed weights may cancel), an empty bin carries the mask error
        h1 = hg.Hist1D.histogram(m, edges, weights=w, mask_error=1.0)
        pay1 = _pay("hist", mask_error=1.0)
        for k in range(3):
            inb = []
            for i in range(n):
                lo = S.sbool(m[i] >= edges[k])
                hi = S.sbool((m[i] <= edges[k + 1]) if k == 2 else (m[i] < edges[k + 1]))
                inb.append((lo & hi).t)
            ref2 = SymReal(T.ZERO)
            for i in range(n):
                ref2 = ref2 + SymReal(T.ite(inb[i], (w[i] * w[i]).t, T.ZERO))
            populated = T.bor(*inb)
            ek = h1.error[k]
            ss.prove("hist.bin_error_populated[%d]" % k, F + [populated], T.bor(far(simp(F + [populated], ek * ek).t, ref2.t, 0), T.lt(ek.t, T.ZERO)), key="hist.bin_error", payload=pay1, timeout=60,
                     describe="error^2 of a populated bin = sum of the squared weights of its events (also when the weights cancel)")
            ss.prove("hist.bin_error_empty[%d]" % k, F + [T.bnot(populated)], far(simp(F + [T.bnot(populated)], ek).t, T.ONE, 0), key="hist.bin_error", payload=pay1, timeout=60,
                     describe="an empty bin carries mask_error")
    finally:
        hg.np = old


def job_hist_arith(ss):
    import tf_pwa.histogram as hg

    class NP(NumpyProxy):
        @staticmethod
        def allclose(a, b, **k):
            return True

    old = hg.np
    hg.np = NP()
    try:
        nb = 3
        edges = np.array([0.0, 1.0, 2.0, 3.0])
        c1 = np.array([S.real("c%d" % i) for i in range(nb)], dtype=object)
        c2 = np.array([S.real("d%d" % i) for i in range(nb)], dtype=object)
        e1 = np.array([S.real("e%d" % i) for i in range(nb)], dtype=object)
        e2 = np.array([S.real("f%d" % i) for i in range(nb)], dtype=object)
        for x in list(e1) + list(e2):
            S.assume(x >= 0)
        h1, h2 = hg.Hist1D(edges, c1, e1), hg.Hist1D(edges, c2, e2)
        F = facts()
        pay = _pay("hist_arith")
        for nm, h, sgn in (("add", h1 + h2, 1), ("sub", h1 - h2, -1)):
            for i in range(nb):
                ss.prove("hist.%s.count[%d]" % (nm, i), F, far(h.count[i].t, (c1[i] + sgn * c2[i]).t, 0), key="hist.arith", payload=pay, timeout=30)
                ss.prove("hist.%s.error[%d]" % (nm, i), F, T.bor(far((h.error[i] * h.error[i]).t, (e1[i] * e1[i] + e2[i] * e2[i]).t, 0), T.lt(h.error[i].t, T.ZERO)), key="hist.arith", payload=pay, timeout=30,
                         describe="errors add in quadrature")
        k = 2.5
        h = h1 * k
        for i in range(nb):
            ss.prove("hist.mul.count[%d]" % i, F, far(h.count[i].t, (c1[i] * k).t, 0), key="hist.arith", payload=pay, timeout=30)
            ss.prove("hist.mul.error[%d]" % i, F, far(h.error[i].t, (e1[i] * k).t, 0), key="hist.arith", payload=pay, timeout=30)
        tot = h1.get_count()
        ss.prove("hist.get_count", F, far(tot.t, sum(c1[1:], c1[0]).t, 0), key="hist.arith", payload=pay, timeout=30)
    finally:
        hg.np = old


def run_job(job):
    ss = Session(job)
    globals()["job_" + job[0]](ss, *job[1:])
    return ss.records
