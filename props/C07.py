"""C07 — returned gradients and Hessians are the true derivatives of the returned NLL."""
from __future__ import annotations

from fractions import Fraction

import numpy as np

from symx import scalar as S
from symx import term as T
from symx.harness import Session
from symx.scalar import SymReal

from . import toy
from .C06 import _F, _pay, _setup, _weights_ok
from .common import facts, far, model_angle, simp, tensor_of, term_of

PID = "C07"
LEVEL = "model_checking"
CLAIM = (
    "Bounded symbolic verification: the real FCN / Model / BaseModel / Model_cfit / ModelCfitExtended / CombineFCN / GaussianConstr "
    "gradient, Hessian and Hessian-vector code and the VarsManager bound-transform wrappers (with the real Bound objects) run on a "
    "symbolic tensorflow substitute; per-event densities are uninterpreted functions with formal first and second partial derivatives "
    "(fresh reals, symmetric), weights, direction vectors, constraint parameters and the fit-space point are symbolic. z3 decides, per "
    "model and batch size, that the returned gradient / Hessian / Hessian-vector product equal the derivatives obtained by "
    "differentiating the NLL value the same object returned, that the value returned alongside equals the stand-alone NLL, and that "
    "the transformed versions obey the chain rule with y'(x), y''(x) of each bound type; the Hessian-vector product of the cfit "
    "likelihoods is compared with the second derivative of the cfit NLL itself; and variable.SumVar (the normalisation factors of "
    "the custom likelihood models) returns, for one to three factors, a local model with the value, gradient and Hessian of each "
    "factor. unsat = holds for all parameter points."
)
NOTE = (
    "TensorFlow's own autodiff is trusted (tapes are implemented by symbolic differentiation of the expression DAG and validated "
    "against real TensorFlow in the conformance step); densities above the clip of clip_log; N_data, N_mc <= 2-3, two parameters "
    "(+ fixed / bounded variants); the custom likelihood classes of model/custom.py are covered only through SumVar"
)
TECHNIQUE = "symbolic execution of the real gradient/Hessian assembly with uninterpreted densities carrying formal partial derivatives; oracle = DAG derivative of the returned value; z3 nlsat decides each component identity; sympy bound transforms translated node by node"
EXPLANATION = CLAIM
FUNCTIONS = [
    "tf_pwa/variable.py:SumVar.from_call_with_hess", "tf_pwa/variable.py:SumVar.__call__", "tf_pwa/model/model.py:FCN.get_grad_hessp", "tf_pwa/model/model.py:sum_gradient", "tf_pwa/model/model.py:sum_hessian", "tf_pwa/model/model.py:sum_grad_hessp", "tf_pwa/model/model.py:BaseModel.nll_grad_batch",
    "tf_pwa/model/model.py:BaseModel.grad_hessp_batch", "tf_pwa/model/model.py:BaseModel.nll_grad_hessian", "tf_pwa/model/model.py:Model.nll_grad_hessian",
    "tf_pwa/model/model.py:FCN.nll_grad", "tf_pwa/model/model.py:FCN.nll_grad_hessian", "tf_pwa/model/model.py:FCN.grad_hessp", "tf_pwa/model/model.py:FCN.grad",
    "tf_pwa/model/model.py:GaussianConstr.get_constrain_grad", "tf_pwa/model/model.py:GaussianConstr.get_constrain_hessian", "tf_pwa/model/model.py:CombineFCN.nll_grad",
    "tf_pwa/model/model.py:CombineFCN.nll_grad_hessian", "tf_pwa/model/model.py:CombineFCN.grad_hessp", "tf_pwa/model/cfit.py:Model_cfit.nll_grad_batch",
    "tf_pwa/model/cfit.py:Model_cfit.nll_grad_hessian", "tf_pwa/model/cfit.py:ModelCfitExtended.nll_grad_batch", "tf_pwa/model/cfit.py:ModelCfitExtended.nll_grad_hessian",
    "tf_pwa/variable.py:VarsManager.trans_fcn_grad", "tf_pwa/variable.py:VarsManager.trans_grad_hessp", "tf_pwa/variable.py:VarsManager.trans_f_grad_hess",
    "tf_pwa/variable.py:Bound.get_func", "tf_pwa/variable.py:Bound.get_x2y", "tf_pwa/variable.py:Bound.get_dydx", "tf_pwa/variable.py:Bound.get_d2ydx2",
]
ASSUMPTIONS = [
    "TensorFlow's GradientTape / ForwardAccumulator are trusted; the substitute implements them by symbolic differentiation, validated numerically against real TensorFlow on every run",
    "a tape differentiates through everything its target depends on (TensorFlow only through what was recorded while the tape was active)",
    "per-event densities are smooth uninterpreted functions with commuting mixed partials; densities above the 1e-6 clip",
    "sympy expressions of Bound are evaluated at symbolic points by substituting into the very expressions the real constructor built",
]
TRUSTED = ["sympy.diff / sympy.solve inside Bound.get_func are NOT trusted: y' and y'' are compared with the engine's own derivative of y(x)"]


def bounds(tier):
    return {"N_data": 2, "N_bg": [0, 1], "N_mc": 2, "parameters": 2, "batch": [1, 3], "bound_types": ["two-sided", "lower", "upper", "custom"], "models": ["default", "extended", "constraint", "cfit", "cfit_ext", "combine"]}


def jobs(tier, seed):
    out = [("grad", "default"), ("grad", "extended"), ("grad", "constraint"), ("cfit", False, 2, 1), ("cfit", True, 2, 1), ("cfit", False, 1, 2), ("cfit", True, 1, 2), ("cfit", False, 1, 1, True), ("cfit", True, 1, 1, True), ("combine",),
           ("bound", "two"), ("bound", "lower"), ("bound", "upper"), ("bound", "custom"), ("fixed",), ("sumvar", 1), ("sumvar", 2), ("sumvar", 3)]
    for kind in ("default", "extended", "constraint"):
        for cfg in SMALL:
            out.append(("hess", kind, cfg))
            out.append(("hessp", kind, cfg))
    return out


def _mk(kind, nd=2, nb=1, nm=2):
    from tf_pwa.model.model import FCN, Model

    pdf, th, w, wb, v, data, bg, mc = _setup(nd, nb, nm)
    _weights_ok(w, wb)
    kw = {}
    if kind == "constraint":
        mu, sg = S.real("mu"), S.real("sigma")
        S.assume(sg > 0)
        kw["gauss_constr"] = {"a": (mu, sg)}
    model = Model(pdf, extended=(kind == "extended"))
    return pdf, th, model, data, bg, mc, kw


def _value(fcn):
    return toy.scalar_term(fcn({}))


def _d(t, x):
    return T.diff(t, x.t)


def job_grad(ss, kind):
    from tf_pwa.model.model import FCN

    pdf, th, model, data, bg, mc, kw = _mk(kind)
    names = list(th)
    for batch in (1, 3):
        fcn = FCN(model, data, mc, bg=bg, batch=batch, **kw)
        val = _value(fcn)
        nll, g = fcn.nll_grad({})
        gt = toy.vector_terms(g)
        F = facts()
        sv = simp(F, SymReal(val), SymReal(toy.scalar_term(nll)), *[SymReal(x) for x in gt])
        val, nllv, gt = sv[0].t, sv[1].t, [x.t for x in sv[2:]]
        pay = _pay("grad", (2, 1, 2), model_kind=kind, batch=batch)
        ss.prove("grad.value_alongside[%s,b=%d]" % (kind, batch), F, far(nllv, val, 0), key="grad.value_alongside", payload=pay, ackermann=False, timeout=60)
        for k, n in enumerate(names):
            ss.prove("grad.is_derivative[%s,b=%d,%s]" % (kind, batch, n), F, far(gt[k], _d(val, th[n]), 0), key="grad.is_derivative", payload=pay, ackermann=False, timeout=60,
                     describe="FCN.nll_grad()[1][k] = d FCN() / d theta_k", want_smt2=(kind == "default" and batch == 1 and k == 0))
        g2 = toy.vector_terms(fcn.grad({}))
        g2 = [x.t for x in simp(F, *[SymReal(x) for x in g2])]
        for k, n in enumerate(names):
            ss.prove("grad.grad_method[%s,b=%d,%s]" % (kind, batch, n), F, far(g2[k], gt[k], 0), key="grad.grad_method", payload=pay, ackermann=False, timeout=60, describe="FCN.grad() = FCN.nll_grad()[1]")
    ss.mutant("grad.mutant[%s]" % kind, F, far(gt[0], T.neg(_d(val, th[names[0]])), 0), timeout=120)
    ss.witness("grad.reach[%s]" % kind, F)


SMALL = [(2, 0, 1), (1, 0, 2), (1, 1, 1)]


def job_hess(ss, kind, cfg=(2, 0, 1)):
    from tf_pwa.model.model import FCN

    pdf, th, model, data, bg, mc, kw = _mk(kind, *cfg)
    names = list(th)
    for batch in (1, 3):
        fcn = FCN(model, data, mc, bg=bg, batch=batch, **kw)
        val = _value(fcn)
        nll, g, h = fcn.nll_grad_hessian({}, batch=batch)
        gt = toy.vector_terms(g)
        ht = np.array(toy.vector_terms(h), dtype=object).reshape(len(names), len(names))
        F = facts()
        sv = simp(F, SymReal(val), SymReal(toy.scalar_term(nll)), *[SymReal(x) for x in gt], *[SymReal(x) for x in ht.reshape(-1)])
        val, nllv = sv[0].t, sv[1].t
        gt = [x.t for x in sv[2 : 2 + len(names)]]
        ht = np.array([x.t for x in sv[2 + len(names) :]], dtype=object).reshape(len(names), len(names))
        pay = _pay("hess", cfg, model_kind=kind, batch=batch)
        ss.prove("hess.value_alongside[%s,%s,b=%d]" % (kind, cfg, batch), F, far(nllv, val, 0), key="hess.value_alongside", payload=pay, ackermann=False, timeout=60)
        for k, n in enumerate(names):
            dk = _d(val, th[n])
            ss.prove("hess.gradient[%s,%s,b=%d,%s]" % (kind, cfg, batch, n), F, far(gt[k], dk, 0), key="hess.gradient", payload=pay, ackermann=False, timeout=60)
            for l, n2 in enumerate(names):
                ss.prove("hess.is_second_derivative[%s,%s,b=%d,%s,%s]" % (kind, cfg, batch, n, n2), F, far(ht[k, l], T.diff(dk, th[n2].t), 0), key="hess.is_second_derivative", payload=pay, ackermann=False, timeout=90,
                         describe="FCN.nll_grad_hessian()[2][k][l] = d2 FCN() / d theta_k d theta_l")
    ss.mutant("hess.mutant[%s,%s]" % (kind, cfg), F, far(ht[0, 1], T.neg(T.diff(_d(val, th[names[0]]), th[names[1]].t)), 0), timeout=120)


def job_hessp(ss, kind, cfg=(2, 0, 1)):
    from tf_pwa.model.model import FCN

    pdf, th, model, data, bg, mc, kw = _mk(kind, *cfg)
    names = list(th)
    p = [S.real("p_%d" % i) for i in range(len(names))]
    for batch in (1, 3):
        fcn = FCN(model, data, mc, bg=bg, batch=batch, **kw)
        val = _value(fcn)
        g, hp = fcn.grad_hessp({}, np.array(p, dtype=object), batch=batch)
        gt, hpt = toy.vector_terms(g), toy.vector_terms(hp)
        F = facts()
        from symx import symtf

        sv = simp(F, *[SymReal(symtf.resolve_bindings(x)) for x in [val] + gt + hpt])
        val = sv[0].t
        gt = [x.t for x in sv[1 : 1 + len(names)]]
        hpt = [x.t for x in sv[1 + len(names) :]]
        pay = _pay("hessp", cfg, model_kind=kind, batch=batch)
        for k, n in enumerate(names):
            dk = _d(val, th[n])
            ss.prove("hessp.gradient[%s,%s,b=%d,%s]" % (kind, cfg, batch, n), F, far(gt[k], dk, 0), key="hessp.gradient", payload=pay, ackermann=False, timeout=60)
            ref = T.add(*[T.mul(T.diff(dk, th[n2].t), p[l].t) for l, n2 in enumerate(names)])
            ss.prove("hessp.is_hessian_times_p[%s,%s,b=%d,%s]" % (kind, cfg, batch, n), F, far(hpt[k], ref, 0), key="hessp.is_hessian_times_p" + (".constraint" if kind == "constraint" else ""), payload=pay, ackermann=False, timeout=90,
                     describe="FCN.grad_hessp(x, p)[1] = (d2 FCN / d theta d theta) . p")


def job_cfit(ss, extended, nd=2, nm=1, with_hess=False):
    import tf_pwa.model.cfit as cf
    from tf_pwa.model.model import FCN

    pdf, th, w, wb, v, data, bg, mc = _setup(nd, 0, nm)
    _weights_ok(w, [])
    frac = S.real("frac")
    S.assume(frac > 0)
    S.assume(frac < 1)
    bgv = [S.real("bgd_%d" % i) for i in range(nd)]
    effv = [S.real("effd_%d" % i) for i in range(nd)]
    bgm = [S.real("bgm_%d" % i) for i in range(nm)]
    effm = [S.real("effm_%d" % i) for i in range(nm)]
    for x in bgv + effv + bgm + effm:
        S.assume(x > 0)
    data = toy.events(list(range(nd)), w, bg_value=bgv, eff_value=effv)
    mc = toy.events(list(range(200, 200 + nm)), v, bg_value=bgm, eff_value=effm)
    sv_ = sum(v[1:], v[0])
    Isig = sum([(v[j] / sv_) * effm[j] * _F("", 200 + j, th) for j in range(1, nm)], (v[0] / sv_) * effm[0] * _F("", 200, th))
    Ibg = sum([(v[j] / sv_) * bgm[j] for j in range(1, nm)], (v[0] / sv_) * bgm[0])
    for i in range(nd):
        S.assume(((1 - frac) * effv[i] * _F("", i, th) / Isig + frac * bgv[i] / Ibg) > 1e-6)
    kind = "cfit_ext" if extended else "cfit"
    model = (cf.ModelCfitExtended if extended else cf.Model_cfit)(pdf, w_bkg=frac)
    names = list(th)
    from symx import symtf

    for batch in (1, 3):
        fcn = FCN(model, data, mc, batch=batch)
        val = _value(fcn)
        nll, g = fcn.nll_grad({})
        nll2, g2, h = fcn.nll_grad_hessian({}, batch=batch)
        F = facts()
        allv = [val, toy.scalar_term(nll)] + toy.vector_terms(g) + [toy.scalar_term(nll2)] + toy.vector_terms(g2) + toy.vector_terms(h)
        sv = simp(F, *[SymReal(symtf.resolve_bindings(x)) for x in allv])
        ts = [x.t for x in sv]
        n = len(names)
        val, nllv, gt, nll2v, g2t, ht = ts[0], ts[1], ts[2 : 2 + n], ts[2 + n], ts[3 + n : 3 + 2 * n], np.array(ts[3 + 2 * n :], dtype=object).reshape(n, n)
        pay = _pay(kind, (nd, 0, nm), batch=batch)
        ss.prove("%s.value_alongside_grad[N=%d,%d,b=%d]" % (kind, nd, nm, batch), F, far(nllv, val, 0), key=kind + ".value", payload=pay, ackermann=False, timeout=60)
        ss.prove("%s.value_alongside_hess[N=%d,%d,b=%d]" % (kind, nd, nm, batch), F, far(nll2v, val, 0), key=kind + ".value", payload=pay, ackermann=False, timeout=60)
        for k, nme in enumerate(names):
            dk = _d(val, th[nme])
            ss.prove("%s.gradient[N=%d,%d,b=%d,%s]" % (kind, nd, nm, batch, nme), F, far(gt[k], dk, 0), key=kind + ".gradient", payload=pay, ackermann=False, timeout=90,
                     describe="hand-derived cfit chain rule through I_sig, I_bg equals the derivative of the returned NLL")
            ss.prove("%s.gradient_from_hessian_call[N=%d,%d,b=%d,%s]" % (kind, nd, nm, batch, nme), F, far(g2t[k], dk, 0), key=kind + ".gradient", payload=pay, ackermann=False, timeout=90)
            for l, n2 in enumerate(names if with_hess else []):
                ss.prove("%s.hessian[N=%d,%d,b=%d,%s,%s]" % (kind, nd, nm, batch, nme, n2), F, far(ht[k, l], T.diff(dk, th[n2].t), 0), key=kind + ".hessian", payload=pay, ackermann=False, timeout=120,
                         describe="cfit Hessian assembled from the Jacobian of (theta, I_sig, I_bg) equals the second derivative of the returned NLL")
    ss.mutant("%s.mutant[N=%d,%d]" % (kind, nd, nm), F, far(gt[0], T.neg(_d(val, th[names[0]])), 0))
    # Hessian-vector product of the same likelihood (used by the Newton-type minimisers with hessp)
    if with_hess:
        pv = [S.real("p_%d" % i) for i in range(len(names))]
        fcn = FCN(model, data, mc, batch=3)
        val = _value(fcn)
        g3, hp = fcn.grad_hessp({}, np.array(pv, dtype=object), batch=3)
        F = facts()
        allv = [val] + toy.vector_terms(g3) + toy.vector_terms(hp)
        ts = [x.t for x in simp(F, *[SymReal(symtf.resolve_bindings(x)) for x in allv])]
        n = len(names)
        val, g3t, hpt = ts[0], ts[1 : 1 + n], ts[1 + n : 1 + 2 * n]
        pay = _pay(kind, (nd, 0, nm), batch=3, hessp=True)
        for k, nme in enumerate(names):
            dk = _d(val, th[nme])
            ss.prove("%s.hessp.gradient[N=%d,%d,%s]" % (kind, nd, nm, nme), F, far(g3t[k], dk, 0), key=kind + ".hessp", payload=pay, ackermann=False, timeout=90,
                     describe="gradient returned by grad_hessp = derivative of the NLL this likelihood reports")
            ref = T.add(*[T.mul(T.diff(dk, th[n2].t), pv[l].t) for l, n2 in enumerate(names)])
            ss.prove("%s.hessp.product[N=%d,%d,%s]" % (kind, nd, nm, nme), F, far(hpt[k], ref, 0), key=kind + ".hessp", payload=pay, ackermann=False, timeout=120,
                     describe="Hessian-vector product returned by grad_hessp = (second derivative of the reported NLL) . p")


def job_combine(ss):
    from tf_pwa.model.model import FCN, CombineFCN, Model

    pdf, th, w, wb, v, data, bg, mc = _setup(1, 0, 1)
    _weights_ok(w, wb)
    model = Model(pdf)
    w2 = [S.real("x_%d" % i) for i in range(2)]
    v2 = [S.real("y_%d" % i) for i in range(1)]
    for x in w2:
        S.assume(x != 0)
    for x in v2:
        S.assume(x > 0)
    _weights_ok(w2, [])
    mu, sg = S.real("mu"), S.real("sigma")
    S.assume(sg > 0)
    data2 = toy.events(list(range(300, 302)), w2)
    mc2 = toy.events(list(range(400, 401)), v2)
    f1 = FCN(model, data, mc, bg=bg, batch=2)
    f2 = FCN(model, data2, mc2, batch=3)
    comb = CombineFCN(fcns=[f1, f2], gauss_constr={"b": (mu, sg)})
    names = list(th)
    p = [S.real("p_%d" % i) for i in range(len(names))]
    val = toy.scalar_term(comb({}))
    nll, g = comb.nll_grad({})
    nll2, g2, h = comb.nll_grad_hessian({})
    g3, hp = comb.grad_hessp({}, np.array(p, dtype=object), batch=2)
    F = facts()
    from symx import symtf

    allv = [val, toy.scalar_term(nll)] + toy.vector_terms(g) + toy.vector_terms(g2) + toy.vector_terms(h) + toy.vector_terms(g3) + toy.vector_terms(hp)
    ts = [x.t for x in simp(F, *[SymReal(symtf.resolve_bindings(x)) for x in allv])]
    n = len(names)
    val, nllv = ts[0], ts[1]
    gt, g2t = ts[2 : 2 + n], ts[2 + n : 2 + 2 * n]
    ht = np.array(ts[2 + 2 * n : 2 + 2 * n + n * n], dtype=object).reshape(n, n)
    g3t = ts[2 + 2 * n + n * n : 2 + 3 * n + n * n]
    hpt = ts[2 + 3 * n + n * n :]
    pay = _pay("combine", (1, 0, 1))
    ss.prove("combine.value_alongside", F, far(nllv, val, 0), key="combine", payload=pay, ackermann=False, timeout=60)
    for k, nme in enumerate(names):
        dk = _d(val, th[nme])
        ss.prove("combine.gradient[%s]" % nme, F, far(gt[k], dk, 0), key="combine.gradient", payload=pay, ackermann=False, timeout=90)
        ss.prove("combine.gradient_hess_call[%s]" % nme, F, far(g2t[k], dk, 0), key="combine.gradient", payload=pay, ackermann=False, timeout=90)
        ss.prove("combine.gradient_hessp_call[%s]" % nme, F, far(g3t[k], dk, 0), key="combine.gradient", payload=pay, ackermann=False, timeout=90)
        for l, n2 in enumerate(names):
            ss.prove("combine.hessian[%s,%s]" % (nme, n2), F, far(ht[k, l], T.diff(dk, th[n2].t), 0), key="combine.hessian", payload=pay, ackermann=False, timeout=120)
        ref = T.add(*[T.mul(T.diff(dk, th[n2].t), p[l].t) for l, n2 in enumerate(names)])
        ss.prove("combine.hessp[%s]" % nme, F, far(hpt[k], ref, 0), key="hessp.is_hessian_times_p.constraint", payload=pay, ackermann=False, timeout=120,
                 describe="CombineFCN.grad_hessp with a Gaussian constraint = Hessian . p")


# ---------------------------------------------------------------- bound transforms


class _SympyProxy:
    """stands for a sympy expression of Bound: evalf(subs={x: v}) substitutes v"""

    def __init__(self, expr):
        self.expr = expr

    def evalf(self, subs=None, **kw):
        from symx.sympy_bridge import translate

        (sym, val), = list(subs.items())
        if isinstance(val, SymReal):
            return translate(self.expr, {sym: val})
        return self.expr.evalf(subs=subs, **kw)

    def subs(self, *a, **k):
        return self.expr.subs(*a, **k)


def _d_dx(term, name, D=1):
    """d/dx of a term depending on the Weierstrass leaf x = 2 D atan(u), w = 1/(1+u^2)"""
    u, w = T.var("u_" + name), T.var("w_" + name)
    dw_du = T.mul(T.const(-2, "R"), u, w, w)
    du_dx = T.mul(T.const(Fraction(1, 2 * D), "R"), T.add(T.ONE, T.mul(u, u)))
    return T.mul(T.add(T.diff(term, u), T.mul(T.diff(term, w), dw_du)), du_dx)


def _bound(kind):
    from tf_pwa.variable import Bound

    if kind == "two":
        return Bound(-1.5, 2.0)
    if kind == "lower":
        return Bound(0.5, None)
    if kind == "upper":
        return Bound(None, 3.0)
    return Bound(0.0, 1.0, func="a+(b-a)*x**2/(1+x**2)")


def job_bound(ss, kind):
    """chain rule through the bound transform: trans_fcn_grad / trans_f_grad_hess / trans_grad_hessp.
    The wrapped likelihood is an arbitrary smooth function G(y_a, y_b) given with its
    true first and second partial derivatives (stub with that contract), so the
    identity is decided for every likelihood; trans_fcn_grad is additionally run on the real FCN."""
    from symx import pybuiltins as PB
    from symx import symtf
    from symx.sympy_bridge import translate
    import sympy as sy
    import tf_pwa.variable as var
    from tf_pwa.model.model import FCN, Model

    var.float = PB.sym_float
    try:
        pdf, th, w, wb, v, data, bg, mc = _setup(2, 0, 1)
        _weights_ok(w, [])
        vm = pdf.vm
        b = _bound(kind)
        bf = b.f
        for attr in ("f", "df", "df2", "inv"):
            setattr(b, attr, _SympyProxy(getattr(b, attr)))
        vm.bnd_dic["a"] = b
        if kind == "two":
            xa = S.angle("xa", D=1)
        else:
            xa = S.real("xa")
        xb = S.real("xb")
        xs = np.array([xa, xb], dtype=object)
        p = np.array([S.real("p_0"), S.real("p_1")], dtype=object)
        ya = translate(bf, {sy.Symbol("x"): xa})

        def tm(x):
            return x.t if isinstance(x, SymReal) else T.const(float(x), "R")

        def G(yv, idx=()):
            name = "G" + "".join("," + str(i) for i in sorted(idx))
            return SymReal(T.uf(name, tm(yv[0]), tm(yv[1])))

        def stub_grad(yv):
            return G(yv), np.array([G(yv, (0,)), G(yv, (1,))], dtype=object)

        def stub_hess(yv):
            H = np.array([[G(yv, (0, 0)), G(yv, (0, 1))], [G(yv, (0, 1)), G(yv, (1, 1))]], dtype=object)
            return G(yv), np.array([G(yv, (0,)), G(yv, (1,))], dtype=object), H

        def stub_hessp(yv, pv):
            H = stub_hess(yv)[2]
            return np.array([G(yv, (0,)), G(yv, (1,))], dtype=object), np.array([H[0, 0] * pv[0] + H[0, 1] * pv[1], H[1, 0] * pv[0] + H[1, 1] * pv[1]], dtype=object)

        val, grad = vm.trans_fcn_grad(stub_grad)(xs)
        val2, grad2, hess = vm.trans_f_grad_hess(stub_hess)(xs)
        grad3, hp = vm.trans_grad_hessp(stub_hessp)(xs, p)
        F = facts()
        allv = [toy.scalar_term(val)] + toy.vector_terms(grad) + [toy.scalar_term(val2)] + toy.vector_terms(grad2) + toy.vector_terms(hess) + toy.vector_terms(grad3) + toy.vector_terms(hp)
        ts = [x.t for x in simp(F, *[SymReal(x) for x in allv])]
        valt, gt, val2t, g2t = ts[0], ts[1:3], ts[3], ts[4:6]
        ht = np.array(ts[6:10], dtype=object).reshape(2, 2)
        g3t, hpt = ts[10:12], ts[12:14]

        def dx(t, k):
            if k == 0:
                return _d_dx(t, "xa") if kind == "two" else T.diff(t, xa.t)
            return T.diff(t, xb.t)

        if kind == "two":
            pay = lambda m: dict(kind="bound", bound=kind, model={k_: float(v_) for k_, v_ in m.items()}, xa=model_angle(m, "xa", 1))
        else:
            pay = lambda m: dict(kind="bound", bound=kind, model={k_: float(v_) for k_, v_ in m.items()}, xa=float(m.get("xa", 0.3)))
        ss.witness("bound.reach[%s]" % kind, F)
        ref_val = T.uf("G", ya.t, xb.t)
        ss.prove("bound.x2y_applied[%s]" % kind, F, far(valt, ref_val, 0), key="bound.x2y", payload=pay, ackermann=False, timeout=60, describe="the wrapped function is evaluated at y = y(x)")
        ss.prove("bound.value_alongside[%s]" % kind, F, far(val2t, valt, 0), key="bound.value", payload=pay, ackermann=False, timeout=60)
        for k in range(2):
            dk = dx(ref_val, k)
            ss.prove("bound.trans_fcn_grad[%s,%d]" % (kind, k), F, far(gt[k], dk, 0), key="bound.chain_rule_grad", payload=pay, ackermann=False, timeout=90,
                     describe="gradient returned by trans_fcn_grad = d G(y(x)) / d x_k for every smooth G", want_smt2=(k == 0 and kind == "lower"))
            ss.prove("bound.trans_f_grad_hess.grad[%s,%d]" % (kind, k), F, far(g2t[k], dk, 0), key="bound.chain_rule_grad", payload=pay, ackermann=False, timeout=90)
            ss.prove("bound.trans_grad_hessp.grad[%s,%d]" % (kind, k), F, far(g3t[k], dk, 0), key="bound.chain_rule_grad", payload=pay, ackermann=False, timeout=90)
            for l in range(2):
                ss.prove("bound.trans_f_grad_hess.hess[%s,%d,%d]" % (kind, k, l), F, far(ht[k, l], dx(dk, l), 0), key="bound.chain_rule_hess", payload=pay, ackermann=False, timeout=120,
                         describe="Hessian returned by trans_f_grad_hess = d2 G(y(x)) / dx_k dx_l (includes the G' y'' term)")
            ref = T.add(*[T.mul(dx(dk, l), p[l].t) for l in range(2)])
            ss.prove("bound.trans_grad_hessp.hessp[%s,%d]" % (kind, k), F, far(hpt[k], ref, 0), key="bound.chain_rule_hessp", payload=pay, ackermann=False, timeout=120,
                     describe="Hessian-vector product in fit space = (d2 G(y(x))/dx dx) . p")
        ss.mutant("bound.mutant[%s]" % kind, F, far(ht[0, 0], T.mul(dx(ya.t, 0), dx(ya.t, 0), T.uf("G,0,0", ya.t, xb.t)), 0), timeout=60)
        # the same wrapper around the real likelihood (gradient only)
        model = Model(pdf)
        fcn = FCN(model, data, mc, batch=3)
        valr, gradr = vm.trans_fcn_grad(fcn.nll_grad)(xs)
        F = facts()
        tsr = [x.t for x in simp(F, *[SymReal(symtf.resolve_bindings(x)) for x in [toy.scalar_term(valr)] + toy.vector_terms(gradr)])]
        for k in range(2):
            ss.prove("bound.real_fcn.trans_fcn_grad[%s,%d]" % (kind, k), F, far(tsr[1 + k], dx(tsr[0], k), 0), key="bound.chain_rule_grad", payload=pay, ackermann=False, timeout=90,
                     describe="trans_fcn_grad around the real FCN.nll_grad")
    finally:
        del var.float


def job_sumvar(ss, nf):
    """variable.SumVar (the normalisation factors of the custom likelihood models, model/custom.py): the local
    second-order model returned by SumVar.__call__ has the value, gradient and Hessian of every factor"""
    import tensorflow as tf
    from symx import symtf
    from tf_pwa.variable import SumVar

    symtf.STATE.var_leaves = True
    symtf.reset_state()
    names = ["a", "b"]
    th = {n: S.real("th_" + n) for n in names}
    var = []
    for n in names:
        v = tf.Variable(1.0, dtype=tf.float64)
        v.assign(tensor_of(th[n]))
        var.append(v)

    def fun():
        args = [term_of(v.read_value().arr.reshape(-1)[0] if hasattr(v, "read_value") else v.arr.reshape(-1)[0]) for v in var]
        return [tensor_of(SymReal(T.uf("N%d" % k, *args))) for k in range(nf)]

    sv = SumVar.from_call_with_hess(fun, var)
    # TensorFlow's tapes only differentiate through operations recorded while they are active: the gradient and Hessian
    # stored in the SumVar were computed before the tapes below were opened and are constants for them (the substitute's
    # tapes differentiate through everything a value depends on, so this is made explicit here)
    sv.grad = tf.nest.map_structure(tf.stop_gradient, sv.grad)
    sv.hess = tf.nest.map_structure(tf.stop_gradient, sv.hess)
    with tf.GradientTape(persistent=True) as t0:
        with tf.GradientTape(persistent=True) as t1:
            out = sv()
        g = [t1.gradient(o, var, unconnected_gradients="zero") for o in out]
    H = [[t0.gradient(gi, var, unconnected_gradients="zero") for gi in gk] for gk in g]
    F = facts()
    res = lambda x: symtf.resolve_bindings(T.strip_stopgrad(term_of(x.arr.reshape(-1)[0] if hasattr(x, "arr") else x)))
    leaf = lambda k, *idx: T.uf("N%d" % k + "".join(",%d" % i for i in sorted(idx)), *[th[n].t for n in names])
    pay = lambda m: dict(kind="sumvar", nf=nf, model={k_: float(v_) for k_, v_ in m.items() if not k_.startswith("sqrt#")})
    for k in range(nf):
        ss.prove("sumvar.value[nf=%d,%d]" % (nf, k), F, far(res(out[k]), leaf(k), 0), key="sumvar.value", payload=pay, ackermann=False, timeout=60, describe="SumVar()[k] has the value of factor k")
        for i in range(2):
            ss.prove("sumvar.gradient[nf=%d,%d,%d]" % (nf, k, i), F, far(res(g[k][i]), leaf(k, i), 0), key="sumvar.gradient", payload=pay, ackermann=False, timeout=60, describe="... and its gradient")
            for j in range(2):
                ss.prove("sumvar.hessian[nf=%d,%d,%d,%d]" % (nf, k, i, j), F, far(res(H[k][i][j]), leaf(k, i, j), 0), key="sumvar.hessian", payload=pay, ackermann=False, timeout=60,
                         describe="... and its Hessian (the second-order term of factor k only)")
    ss.mutant("sumvar.mutant[nf=%d]" % nf, F, far(res(H[0][0][0]), T.mul(T.const(2, "R"), leaf(0, 0, 0)), 0))


def job_fixed(ss):
    """a fixed parameter and a tied pair: gradients are taken with respect to the free set only"""
    from tf_pwa.model.model import FCN, Model

    pdf, th, w, wb, v, data, bg, mc = _setup(2, 0, 2, pars=("a", "b", "c"))
    _weights_ok(w, [])
    vm = pdf.vm
    vm.set_fix("c")
    model = Model(pdf)
    fcn = FCN(model, data, mc, batch=3)
    val = _value(fcn)
    nll, g = fcn.nll_grad({})
    gt = toy.vector_terms(g)
    F = facts()
    from symx import symtf

    ts = [x.t for x in simp(F, *[SymReal(symtf.resolve_bindings(x)) for x in [val] + gt])]
    names = list(vm.trainable_vars)
    ss.concrete("fixed.gradient_length", len(gt) == len(names) == 2, key="fixed", payload=dict(kind="fixed"), describe="gradient has one entry per free parameter")
    for k, n in enumerate(names):
        ss.prove("fixed.gradient[%s]" % n, F, far(ts[1 + k], T.diff(ts[0], th[n].t), 0), key="fixed.gradient", payload=_pay("fixed", (2, 0, 2)), timeout=60)


def run_job(job):
    import tf_pwa.model.cfit as mc_
    import tf_pwa.model.model as mm
    import tf_pwa.variable as var
    from symx.npproxy import NumpyProxy

    ss = Session(job)
    saved = [(m_, m_.__dict__.get("np")) for m_ in (mm, mc_, var)]
    for m_, _ in saved:
        m_.np = NumpyProxy()
    try:
        globals()["job_" + job[0]](ss, *job[1:])
    finally:
        for m_, old in saved:
            m_.np = old
        if "float" in mm.__dict__:
            del mm.__dict__["float"]
    return ss.records
