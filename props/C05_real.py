"""C05: replays / conformance on the real code."""
import itertools

import numpy as np

from props import amptools as AT

OPTS = {"cached_amp": dict(amp_model="cached_amp", preprocessor="cached_amp"), "cached_shape": dict(amp_model="cached_shape", preprocessor="cached_shape"),
        "base_factor": dict(amp_model="base_factor", preprocessor="cached_angle")}


def _np(x):
    return np.asarray(x.numpy() if hasattr(x, "numpy") else x)


def _setp(amp, params=None):
    params = dict(params or {})
    if params.pop("__cartesian__", False):
        amp.vm.rp2xy_all()
    allp = {n: 0.3 + 0.07 * i for i, n in enumerate(sorted(amp.vm.variables)) if not n.endswith(("_mass", "_width"))}
    if params:
        allp.update(params)
    amp.set_params(allp)


def _ref_einsum(expr, arrs):
    return np.einsum(expr, *arrs)


def conformance(tier):
    import tensorflow as tf
    from tf_pwa.einsum import einsum

    out = {}
    rng = np.random.RandomState(3)
    for k, (expr, shapes) in enumerate([("ab,bc->ac", [(2, 2), (2, 2)]), ("...a,...ab,b->...", [(3, 2), (3, 2, 2), (2,)]), ("ia,ib,iab->i", [(2, 1), (2, 2), (1, 1, 2)])]):
        arrs = [rng.uniform(-1, 1, size=s) for s in shapes]
        out["einsum%d" % k] = _np(einsum(expr, *[tf.convert_to_tensor(a) for a in arrs])).reshape(-1).tolist()
    for name in ("CFG3", "CFG_SPIN"):
        for st, o in OPTS.items():
            amp, config = AT.build_model(getattr(AT, name), **o)
            _setp(amp)
            data = AT.phsp_data(config, 2)
            out["%s_%s" % (name, st)] = _np(amp(data)).tolist()
    return out


def replay(p):
    import tensorflow as tf

    kind = p["kind"]
    try:
        if kind == "einsum":
            import tf_pwa.einsum as E
            from tf_pwa.einsum import einsum

            from props import ordset

            # the iteration order of the sets inside the routine is part of the counterexample
            ordset.install(E)
            ordset.set_ranking(p.get("ranking"))
            errs = []
            for seed in range(5):
                rng = np.random.RandomState(seed)
                arrs = [rng.uniform(-1, 1, size=tuple(s)) for s in p["shapes"]]
                try:
                    got = _np(einsum(p["expr"], *[tf.convert_to_tensor(a) for a in arrs]))
                except Exception as e:
                    return {"reproduced": False, "error": "declined on the real code: %s" % e}
                # reference: broadcast size-1 axes explicitly, then numpy's einsum
                ins, out = p["expr"].split("->")
                ins = ins.split(",")
                dims = {}
                for s, a in zip(ins, arrs):
                    names = _names(s, a.ndim)
                    for c, n in zip(names, a.shape):
                        dims[c] = max(dims.get(c, 1), n)
                full = []
                for s, a in zip(ins, arrs):
                    names = _names(s, a.ndim)
                    full.append(np.broadcast_to(a, tuple(dims[c] for c in names)))
                ref = np.einsum(p["expr"], *full)
                if got.shape != ref.shape:
                    return {"reproduced": True, "got_shape": list(got.shape), "expected_shape": list(ref.shape)}
                errs.append(float(np.max(np.abs(got - ref))) if ref.size else 0.0)
            err = max(errs)
            return {"reproduced": bool(err > 1e-9), "error_magnitude": err}
        if kind == "strategy":
            cfg = p["cfg"]
            amp0, config0 = AT.build_model(getattr(AT, cfg))
            _setp(amp0, p.get("params"))
            d0 = _np(amp0(AT.phsp_data(config0, 2)))
            amp1, config1 = AT.build_model(getattr(AT, cfg), **OPTS[p["strategy"]])
            _setp(amp1, p.get("params"))
            d1 = _np(amp1(AT.phsp_data(config1, 2)))
            err = float(np.max(np.abs(d0 - d1)))
            return {"reproduced": bool(err > 1e-9), "error_magnitude": err}
        if kind == "cached_int":
            from tf_pwa.experimental import opt_int

            cfg = p["cfg"]
            amp, config = AT.build_model(getattr(AT, cfg))
            data = AT.phsp_data(config, 2)
            w = np.array(p["weights"], dtype=np.float64)
            amp.vm.rp2xy_all()
            for i_, nm_ in enumerate(AT.coupling_names(amp.vm)):
                amp.vm.set(nm_, [0.75, -0.5, 1.25, 0.625][i_ % 4])
            index, mat = opt_int.build_int_matrix(amp.decay_group, data, weight=tf.convert_to_tensor(w))
            _setp(amp, p.get("params"))
            pm = opt_int.build_params_matrix(amp.decay_group)
            tot = float(np.real(np.sum(_np(pm) * np.array([[complex(_np(x)) for x in row] for row in mat]))))
            ref = float(np.sum(w * _np(amp(data))))
            err = abs(tot - ref)
            return {"reproduced": bool(err > 1e-9 * max(1.0, abs(ref))), "error_magnitude": err, "cached_integral": tot, "sum_w_f": ref, "weights": w.tolist()}
    except Exception as e:
        return {"reproduced": False, "error": "%s: %s" % (type(e).__name__, str(e)[:300])}
    return {"reproduced": False, "error": "no replay for %s" % kind}


def _names(s, ndim):
    if "..." in s:
        k = ndim - (len(s) - 3)
        ell = ["E%d" % (8 - k + i) for i in range(k)]
        i = s.index("...")
        return list(s[:i]) + ell + list(s[i + 3 :])
    return list(s)
