"""C02: replays / conformance on the real code."""
import numpy as np

from props import amptools as AT
from props.C02 import events, get_cfg, variant_cfg


def _np(x):
    return np.asarray(x.numpy() if hasattr(x, "numpy") else x)


def _setp(amp, params=None):
    params = dict(params or {})
    if params.pop("__cartesian__", False):
        amp.vm.rp2xy_all()
    allp = {n: 0.3 + 0.07 * i for i, n in enumerate(sorted(amp.vm.variables)) if not n.endswith(("_mass", "_width"))}
    if params:
        allp.update({k: v for k, v in params.items() if k in amp.vm.variables})
    amp.set_params(allp)


def conformance(tier):
    out = {}
    for name in ("CFG_SPIN", "CFG_HALF", "CFG4S"):
        cfg = get_cfg(name)
        n = len(cfg["decay"]["A"])
        for tag, perm, opts in (("base", tuple(range(n)), ()), ("rev_align", tuple(range(n))[::-1], ("align_ref",)), ("cm", tuple(range(n)), ("center_mass",))):
            amp, config = AT.build_model(variant_cfg(name, perm, opts))
            amp.vm.rp2xy_all()
            _setp(amp)
            out["%s_%s" % (name, tag)] = _np(amp(AT.data_of(config, events(config, 0)))).tolist()
    return out


def replay(p):
    kind = p["kind"]
    try:
        cfg = p["cfg"]
        amp0, config0 = AT.build_model(get_cfg(cfg))
        amp1, config1 = AT.build_model(variant_cfg(cfg, tuple(p["perm"]), tuple(p["opts"])))
        if kind == "names":
            amp0.vm.rp2xy_all()
            amp1.vm.rp2xy_all()
            return {"reproduced": set(AT.coupling_names(amp0.vm)) != set(AT.coupling_names(amp1.vm))}
        _setp(amp0, p.get("params"))
        _setp(amp1, p.get("params"))
        # the same values by name, whatever is fixed in either configuration
        vals = {n: float(_np(v)) for n, v in amp0.vm.variables.items()}
        amp1.set_params({n: v for n, v in vals.items() if n in amp1.vm.variables})
        p4 = events(config0, p.get("seed", 0))
        d0 = _np(amp0(AT.data_of(config0, p4)))
        d1 = _np(amp1(AT.data_of(config1, p4)))
        err = float(np.max(np.abs(d1 - d0) / np.abs(d0)))
        return {"reproduced": bool(err > 1e-6), "error_magnitude": err, "density": d0.tolist(), "density_variant": d1.tolist()}
    except Exception as e:
        return {"reproduced": False, "error": "%s: %s" % (type(e).__name__, str(e)[:300])}
