"""C10 — phase-space events are physical, exactly counted and Lorentz-invariant flat."""
from __future__ import annotations

from fractions import Fraction

import numpy as np

from symx import fork
from symx import scalar as S
from symx import term as T
from symx.harness import Session
from symx.scalar import SymReal

from .common import facts, far, lemma, simp, tensor_of, term_of

PID = "C10"
LEVEL = "model_checking"
CLAIM = (
    "Bounded symbolic verification of tf_pwa.phasespace.PhaseSpaceGenerator with tf.random.uniform replaced by a stub returning "
    "arbitrary reals in [0,1): for symbolic parent / daughter / intermediate masses and symbolic uniform variates z3 decides that "
    "every generated particle is on its mass shell and the momenta add up to the parent at rest (n = 2, 3 directly; larger n by the "
    "decided per-step lemmas: a boost preserves mass, is linear, and maps the mother at rest onto the recoil momentum); that every "
    "factor q_i of the acceptance weight is bounded by the factor q_i^max the real set_decay multiplied into w_max and that the "
    "importance factor lies in [0,1] (hence weight <= 1; the exact product statement is posed as well); that weight x proposal "
    "density of the masses is proportional to prod q_i (derivative of importance / Jacobian with respect to every variate is zero) and "
    "the angles are affine in their variates; and, with the unweighting step stubbed to keep an arbitrary number of events, that "
    "generate() returns exactly the requested number on every path with at most 3 refills and always requests at least one more event."
)
NOTE = (
    "statistical flatness is reduced to the density identity (accepted density = proposal density x acceptance weight; the LIPS "
    "measure prod q_i dM_i dOmega_i is the trusted lemma); masses with positive Q-value and intermediate masses inside their ranges; "
    "n <= 4 for symbolic momentum composition, n <= 6 for the weight lemmas; ChainGenerator nesting by the same per-step lemmas"
)
TECHNIQUE = "symbolic execution of phasespace.py on a symbolic tensorflow substitute with nondeterministic random stubs; z3 nlsat for kinematic identities and factor-wise weight bounds; path-forking integer reasoning (z3 LIA/NIA) for the refill loop"
CLAIM_EXTRA = "Nested cascades (ChainGenerator; depth 1-3, sibling and mixed structures): with the sub-generators as stubs returning symbolic four-vectors and the boost kernel uninterpreted, every final momentum is its own rest-frame momentum boosted by each ancestor system's momentum as produced in that ancestor's mother frame, innermost first (order and frames of the boosts). With masses given as Python floats that are not representable in single precision, energy conservation, the mass shells (2-body) and get_p with a float parent and a tensor daughter hold to 1e-9 (no intermediate result passes through float32)."
NOTE_EXTRA = "ChainGenerator: structure of the boosts decided with an uninterpreted boost (the boost algebra is C11's), sub-generators stubbed; six cascade structures"
EXPLANATION = CLAIM + " " + CLAIM_EXTRA
FUNCTIONS = [
    "tf_pwa/phasespace.py:ChainGenerator.generate", "tf_pwa/phasespace.py:_get_generator", "tf_pwa/phasespace.py:_restruct_pi", 
    "tf_pwa/phasespace.py:get_p", "tf_pwa/phasespace.py:PhaseSpaceGenerator.set_decay", "tf_pwa/phasespace.py:PhaseSpaceGenerator.get_mass_range",
    "tf_pwa/phasespace.py:PhaseSpaceGenerator.generate_mass", "tf_pwa/phasespace.py:PhaseSpaceGenerator.mass_importances", "tf_pwa/phasespace.py:PhaseSpaceGenerator.get_weight",
    "tf_pwa/phasespace.py:PhaseSpaceGenerator.generate_momentum", "tf_pwa/phasespace.py:PhaseSpaceGenerator.generate_momentum_i", "tf_pwa/phasespace.py:PhaseSpaceGenerator.generate",
    "tf_pwa/phasespace.py:PhaseSpaceGenerator.flatten_mass", "tf_pwa/angle.py:LorentzVector.rest_vector", "tf_pwa/angle.py:LorentzVector.boost", "tf_pwa/angle.py:LorentzVector.neg",
]
ASSUMPTIONS = [
    "tf.random.uniform returns arbitrary reals in (0,1) (nondeterministic stub; the end point 0, drawn with probability 2^-53, puts an intermediate mass exactly on threshold where get_p divides 0 by 0 for massless daughters: observation, outside the claim); cos/sin of the azimuth 2 pi u are uninterpreted with cos^2+sin^2=1",
    "Lorentz-invariant phase space has the measure prod_i q_i dM_i dOmega_i (trusted mathematical lemma); accepted density = proposal density x acceptance probability",
    "masses are non-negative with positive Q-value; intermediate masses inside [sum of their daughters, parent minus the rest]",
    "boost velocities satisfy the code's guard beta^2 > 1e-14 (daughter systems not produced exactly at rest)",
    "cal_max_weight (SciPy optimiser) and the seed interface are outside the claim",
]
TRUSTED = []


def bounds(tier):
    return {"n_body_momentum": [2, 3], "n_body_weight_lemmas": [3, 4, 5] + ([6] if tier == "thorough" else []), "n_body_flatness": [3, 4, 5], "refills": 3}


def jobs(tier, seed):
    out = [("momentum", 2), ("step",), ("step_lemmas",), ("monotone",), ("weight", 3), ("weight", 4), ("weight", 5), ("flat", 3), ("flat", 4), ("flat", 5), ("count",), ("angles",), ("concrete", 2), ("concrete", 3), ("cascade", "depth1"), ("cascade", "depth2"), ("cascade", "depth2b"), ("cascade", "siblings"), ("cascade", "depth3"), ("cascade", "mixed")]
    if tier == "thorough":
        out += [("weight", 6), ("flat", 6)]
    return out


def _sym_random():
    from symx import symtf

    symtf.STATE.symbolic_random = True
    symtf.reset_state()


def _open_variates():
    """variates strictly inside (0,1): u = 0 exactly (probability 2^-53 per draw) puts an intermediate
    mass on its threshold, where two massless daughters give 0/0 in get_p; stated as an assumption"""
    from symx import symtf

    for v in symtf.STATE.random_log:
        S.ctx().fact(T.lt(T.ZERO, v))


def _masses(n):
    m0 = S.real("M")
    ms = [S.real("m%d" % (i + 1)) for i in range(n)]
    for x in ms:
        S.assume(x >= 0)
    q = m0
    for x in ms:
        q = q - x
    S.assume(q > 0)  # positive Q-value, written as the code computes it
    return m0, ms


def _pay(kind, **kw):
    def f(m):
        return dict(kind=kind, model={k: float(v) for k, v in m.items() if not k.startswith(("sqrt#", "uf_"))}, **kw)

    return f


def job_momentum(ss, n):
    from tf_pwa.phasespace import PhaseSpaceGenerator

    _sym_random()
    m0, ms = _masses(n)
    gen = PhaseSpaceGenerator(m0, ms)
    mass = gen.generate_mass(1)
    ps = gen.generate_momentum(mass, 1)
    _open_variates()
    F = facts()
    pay = _pay("momentum", n=n)
    ss.witness("ps.reach[n=%d]" % n, F)
    vals = []
    for p in ps:
        vals += [SymReal(term_of(e)) for e in p.arr.reshape(-1)]
    vals = simp(F, *vals)
    P = [vals[4 * i : 4 * i + 4] for i in range(len(ps))]
    for k, p in enumerate(P):
        m2 = p[0] * p[0] - p[1] * p[1] - p[2] * p[2] - p[3] * p[3]
        ss.prove("ps.on_shell[n=%d,%d]" % (n, k), F, far(m2.t, (ms[k] * ms[k]).t, 0), key="ps.on_shell", payload=pay, timeout=60, describe="E^2 - |p|^2 = m_k^2 for the k-th returned particle")
        ss.prove("ps.energy_positive[n=%d,%d]" % (n, k), F, T.lt(p[0].t, T.ZERO), key="ps.on_shell", payload=pay, timeout=60)
    tot = [sum([p[i] for p in P[1:]], P[0][i]) for i in range(4)]
    tgt = [m0.t, T.ZERO, T.ZERO, T.ZERO]
    for i in range(4):
        ss.prove("ps.momentum_sum[n=%d,%d]" % (n, i), F, far(tot[i].t, tgt[i], 0), key="ps.momentum_sum", payload=pay, timeout=60, describe="sum of momenta = (M, 0, 0, 0)")
    ss.mutant("ps.mutant[n=%d]" % n, F, far(tot[0].t, T.add(m0.t, T.ONE), 0))


def _flat_leaves(tree):
    if isinstance(tree, (list, tuple)):
        out = []
        for t in tree:
            out += _flat_leaves(t)
        return out
    return [tree]


from .C10_real import CASCADES  # noqa: E402  (shared with the replay, which runs without the solver stack)


def job_cascade(ss, shape):
    """ChainGenerator for nested cascades: the momentum returned for a final particle is the momentum its own
    sub-generator produced (rest frame of its mother system), boosted successively by the momentum of every ancestor
    system *as that ancestor was produced in its own mother's rest frame*, innermost first.  Sub-generators are stubs
    returning symbolic four-vectors (PhaseSpaceGenerator is decided by the other jobs) and the boost kernel is an
    uninterpreted recorder (decided under C11), so the obligation is about the order and the frames of the boosts."""
    import tf_pwa.phasespace as phsp

    M, mi = CASCADES[shape]

    def Rv(a, b):
        at = [term_of(e) for e in a.arr.reshape(-1)]
        bt = [term_of(e) for e in b.arr.reshape(-1)]
        return tensor_of([[SymReal(T.uf("R%d" % i, *at, *bt)) for i in range(4)]])

    def Neg(a):
        at = [term_of(e) for e in a.arr.reshape(-1)]
        return tensor_of([[SymReal(T.uf("N%d" % i, *at)) for i in range(4)]])

    class LVProxy:
        def __getattr__(self, k):
            return getattr(LV, k)

        rest_vector = staticmethod(Rv)
        neg = staticmethod(Neg)

    LV = phsp.LorentzVector
    phsp.LorentzVector = LVProxy()
    old_gen = phsp.PhaseSpaceGenerator.generate
    raw_by_gen = {}
    counter = [0]

    def fake_generate(self, N, *a, **k):
        counter[0] += 1
        out = [tensor_of([[S.real("g%d_%d_%d" % (counter[0], j, c)) for c in range(4)]]) for j in range(len(self.m_mass))]
        raw_by_gen[id(self)] = out
        return out

    phsp.PhaseSpaceGenerator.generate = fake_generate
    try:
        gen = phsp.ChainGenerator(M, mi)
        out = gen.generate(1)
    finally:
        phsp.LorentzVector = LV
        phsp.PhaseSpaceGenerator.generate = old_gen

    def node(path):
        t = (M, mi)
        for i in path:
            t = t[1][i]
        return t

    # generators serve the nodes they are registered for
    ok = len(gen.idxs) == len(gen.gen) == len(raw_by_gen)
    raw = {}
    for idx, g in zip(gen.idxs, gen.gen):
        n = node(idx)
        exp_m = [x[0] if isinstance(x, (tuple, list)) else x for x in n[1]]
        ok = ok and float(g.m0) == float(n[0]) and [float(x) for x in g.m_mass] == [float(x) for x in exp_m]
        raw[tuple(idx)] = raw_by_gen.get(id(g))
    pay0 = dict(kind="cascade", shape=shape, model={})
    ss.concrete("ps.cascade.generators[%s]" % shape, bool(ok), key="ps.cascade.generators", payload=pay0, describe="one sub-generator per decaying system, with that system's mass and its daughters' (fixed) masses")
    if not ok:
        return

    def expected(path):
        """path = index path of a final particle in the structure"""
        v = raw[path[:-1]][path[-1]]
        for k in range(len(path) - 1, 0, -1):
            anc = path[:k]  # the decaying ancestor system; its momentum as produced in its mother's frame:
            p_anc = raw[anc[:-1]][anc[-1]]
            v = Rv(Neg(p_anc), v)
        return v

    def walk(tree, res, path):
        for i, t in enumerate(tree[1]):
            if isinstance(t, (tuple, list)):
                yield from walk(t, res[i], path + (i,))
            else:
                yield path + (i,), res[i]

    pay = _pay("cascade", shape=shape)
    n = 0
    for path, got in walk((M, mi), out, ()):
        n += 1
        e = expected(path)
        gt = [term_of(x) for x in got.arr.reshape(-1)]
        et = [term_of(x) for x in e.arr.reshape(-1)]
        ss.prove("ps.cascade.frames[%s,%s]" % (shape, ".".join(map(str, path))), [], T.bor(*[T.ne(x, y) for x, y in zip(gt, et)]), key="ps.cascade.frames", payload=pay, timeout=60, ackermann=True,
                 describe="final momentum = own rest-frame momentum boosted by each ancestor system's momentum (as produced in that ancestor's mother frame), innermost first; boost kernel uninterpreted")
    ss.note(name="ps.cascade", states=n, transitions=n)
    if len(raw) > 1:
        # a deliberately wrong order (outermost boost first) must be told apart
        path = max((p for p, _ in walk((M, mi), out, ())), key=len)
        v = raw[path[:-1]][path[-1]]
        for k in range(1, len(path)):
            anc = path[:k]
            v = Rv(Neg(raw[anc[:-1]][anc[-1]]), v)
        got = dict(walk((M, mi), out, ()))[path]
        if len(path) > 2:
            ss.mutant("ps.cascade.mutant_order[%s]" % shape, [], T.bor(*[T.ne(term_of(x), term_of(y)) for x, y in zip(got.arr.reshape(-1), v.arr.reshape(-1))]))


def job_concrete(ss, n):
    """the same kinematic clauses with the masses given as plain Python floats that are not representable in single
    precision (5.279, 0.139, 0.494: the usual way to call the generator): energy-momentum conservation and the mass
    shells to 1e-9, i.e. no intermediate result may pass through single precision"""
    from tf_pwa.phasespace import PhaseSpaceGenerator, get_p

    _sym_random()
    M = 5.279
    if n == 3:
        # the call made for the first split of a 3-body decay: parent mass a Python float, the mass of the daughter
        # system a tensor (symbolic here), the third mass a Python float
        m12 = S.real("m12")
        S.assume(m12 > 0.278)
        S.assume(m12 < M - 0.494)
        q = SymReal(term_of(get_p(M, tensor_of([m12]), 0.494).arr.reshape(-1)[0]))
        F = facts()
        q = simp(F, q)
        lam = (M * M - (m12 + 0.494) * (m12 + 0.494)) * (M * M - (m12 - 0.494) * (m12 - 0.494))
        ss.prove("ps.concrete.get_p[float parent, tensor daughter]", F, T.bor(far((q * q * (4 * M * M)).t, lam.t, Fraction(1, 10**9)), T.lt(q.t, T.ZERO)), key="ps.concrete.energy_sum",
                 payload=_pay("concrete", n=3), timeout=120, describe="4 M^2 q^2 = lambda(M^2, m12^2, m3^2) to 1e-9 with the parent mass a Python float (no single-precision rounding)")
        ss.witness("ps.concrete.reach[n=3]", F)
        return
    ms = [0.139, 0.494]
    gen = PhaseSpaceGenerator(M, ms)
    mass = gen.generate_mass(1)
    ps = gen.generate_momentum(mass, 1)
    _open_variates()
    F = facts()
    pay = _pay("concrete", n=n)
    vals = []
    for p in ps:
        vals += [SymReal(term_of(e)) for e in p.arr.reshape(-1)]
    vals = simp(F, *vals)
    P = [vals[4 * i : 4 * i + 4] for i in range(len(ps))]
    tol = Fraction(1, 10**9)
    Etot = sum([p[0] for p in P[1:]], P[0][0])
    ss.prove("ps.concrete.energy_sum[n=%d]" % n, F, far(Etot.t, T.const(M, "R"), tol), key="ps.concrete.energy_sum", payload=pay, timeout=120,
             describe="sum of energies = parent mass to 1e-9 for Python-float masses (double precision throughout)")
    for k, p in enumerate(P):
        m2 = p[0] * p[0] - p[1] * p[1] - p[2] * p[2] - p[3] * p[3]
        ss.prove("ps.concrete.on_shell[n=%d,%d]" % (n, k), F, far(m2.t, T.const(ms[k] * ms[k], "R"), tol), key="ps.concrete.on_shell", payload=pay, timeout=120)
    ss.witness("ps.concrete.reach[n=%d]" % n, F)


def job_step(ss):
    """one step of the sequential decay with symbolic (m0, m1, m2): the new particle and the
    recoil system are on shell and add up to (m0,0,0,0) - the induction step for any n"""
    import tf_pwa.phasespace as phsp

    _sym_random()
    m0, m1, m2 = S.real("M"), S.real("m1"), S.real("m2")
    S.assume(m1 >= 0)
    S.assume(m2 >= 0)
    S.assume(m0 - m1 - m2 > 0)
    gen = phsp.PhaseSpaceGenerator(3.0, [1.0, 1.0])
    ps = gen.generate_momentum_i(tensor_of([m0]), tensor_of([m1]), tensor_of([m2]), 1, [])
    _open_variates()
    F = facts()
    pay = _pay("step_i")
    vals = simp(F, *[SymReal(term_of(e)) for p in ps for e in p.arr.reshape(-1)])
    new, rec = vals[:4], vals[4:8]
    m2n = new[0] * new[0] - new[1] * new[1] - new[2] * new[2] - new[3] * new[3]
    m2r = rec[0] * rec[0] - rec[1] * rec[1] - rec[2] * rec[2] - rec[3] * rec[3]
    ss.prove("ps.step.new_on_shell", F, far(m2n.t, (m2 * m2).t, 0), key="ps.step", payload=pay, timeout=60)
    ss.prove("ps.step.recoil_on_shell", F, far(m2r.t, (m1 * m1).t, 0), key="ps.step", payload=pay, timeout=60)
    for i in range(1, 4):
        ss.prove("ps.step.momentum_balance[%d]" % i, F, far((new[i] + rec[i]).t, T.ZERO, 0), key="ps.step", payload=pay, timeout=60)
    ss.prove("ps.step.energy_conservation", F, far((new[0] + rec[0]).t, m0.t, 0), key="ps.step", payload=pay, timeout=120,
             describe="sqrt(q^2+m1^2) + sqrt(q^2+m2^2) = m0 with q = get_p(m0, m1, m2)", want_smt2=True)
    ss.witness("ps.step.reach", F)


def job_step_lemmas(ss):
    """per-step facts that make the n-body statements inductive"""
    from tf_pwa.angle import LorentzVector as lv

    # the recoil system at rest (M1,0,0,0) boosted by rest_vector(p_boost, .) gets momentum -p and energy E
    M1 = S.real("M1")
    S.assume(M1 > 0)
    px, py, pz = S.real("px"), S.real("py"), S.real("pz")
    E = (px * px + py * py + pz * pz + M1 * M1).sqrt()
    pb = tensor_of([[E, px, py, pz]])
    from tf_pwa.angle import Vector3

    b2 = Vector3.norm2(-lv.boost_vector(pb)).arr.reshape(-1)[0]
    S.assume(b2 > 1.0e-14)
    rest = tensor_of([[M1, SymReal(T.ZERO), SymReal(T.ZERO), SymReal(T.ZERO)]])
    r = lv.rest_vector(pb, rest).arr[0]
    F = facts()
    tgt = [E, -px, -py, -pz]
    pay = _pay("step")
    for i in range(4):
        ss.prove("ps.step.rest_to_recoil[%d]" % i, F, far(term_of(r[i]), tgt[i].t, 0), key="ps.step", payload=pay, timeout=60,
                 describe="rest_vector(p_boost, (M1,0,0,0)) = (E, -p): the daughters' total momentum becomes the recoil momentum")
    # linearity of the boost
    a4 = [S.real("a%d" % i) for i in range(4)]
    b4 = [S.real("b%d" % i) for i in range(4)]
    ra = lv.rest_vector(pb, tensor_of([a4])).arr[0]
    rb = lv.rest_vector(pb, tensor_of([b4])).arr[0]
    rab = lv.rest_vector(pb, tensor_of([[x + y for x, y in zip(a4, b4)]])).arr[0]
    for i in range(4):
        ss.prove("ps.step.boost_linear[%d]" % i, F, far(term_of(rab[i]), T.add(term_of(ra[i]), term_of(rb[i])), 0), key="ps.step", payload=pay, timeout=60, describe="rest_vector(p, a + b) = rest_vector(p, a) + rest_vector(p, b)")
    # (a boost preserves the invariant mass: decided under C11, boost.mass_invariant)


def job_monotone(ss):
    """get_p(M, a, b) grows with M and falls with a (b fixed), on the physical region"""
    import tf_pwa.phasespace as phsp

    M, Mx, a, ax, b = S.real("M"), S.real("Mx"), S.real("a"), S.real("ax"), S.real("b")
    for x in (a, ax, b):
        S.assume(x >= 0)
    S.assume(M > 0)
    S.assume(M >= a + b)
    S.assume(Mx >= M)
    S.assume(ax <= a)
    q = SymReal(term_of(phsp.get_p(tensor_of([M]), tensor_of([a]), tensor_of([b])).arr[0]))
    qx = SymReal(term_of(phsp.get_p(tensor_of([Mx]), tensor_of([ax]), tensor_of([b])).arr[0]))
    F = facts()
    q, qx = simp(F, q, qx)
    pay = _pay("monotone")
    ss.prove("ps.get_p.monotone", F, T.gt(q.t, qx.t), key="ps.get_p.monotone", payload=pay, timeout=400, describe="q(M,a,b) <= q(M',a',b) for M' >= M, a' <= a", want_smt2=True)
    ss.prove("ps.get_p.nonnegative", F, T.lt(q.t, T.ZERO), key="ps.get_p.monotone", payload=pay, timeout=60)
    # value: 4 M^2 q^2 = lambda(M^2, a^2, b^2)
    lam = (M * M - (a + b) * (a + b)) * (M * M - (a - b) * (a - b))
    ss.prove("ps.get_p.value", F, far((4 * M * M * q * q).t, lam.t, 0), key="ps.get_p.value", payload=pay, timeout=60)
    ss.witness("ps.get_p.reach", F)
    ss.mutant("ps.get_p.mutant", F, T.lt(q.t, qx.t))


def job_weight(ss, n):
    """weight = importance * prod_i q_i / w_max; every factor's arguments are ordered against the arguments
    set_decay used for w_max, so q_i <= q_i^max by the monotonicity lemma (ps.get_p.monotone)"""
    import tf_pwa.phasespace as phsp

    _sym_random()
    m0, ms = _masses(n)
    calls = []
    real_get_p = phsp.get_p

    def rec_get_p(M, ma, mb):
        r = real_get_p(M, ma, mb)
        calls.append((M, ma, mb, r))
        return r

    phsp.get_p = rec_get_p
    try:
        gen = phsp.PhaseSpaceGenerator(m0, ms)
        max_calls = list(calls)
        del calls[:]
        mass = gen.generate_mass(1)
        w = gen.get_weight(mass)
        w_calls = list(calls)
        w_noimp = gen.get_weight(mass, importances=False)
        imp = gen.mass_importances(mass)
    finally:
        phsp.get_p = real_get_p
    _open_variates()
    F = facts()
    pay = _pay("weight", n=n)
    sc = lambda x: SymReal(term_of(x.arr.reshape(-1)[0] if hasattr(x, "arr") else x))
    ss.concrete("ps.weight.factor_count[n=%d]" % n, len(max_calls) == len(w_calls) == n - 1, key="ps.weight.structure", payload=dict(kind="weight_struct", n=n),
                describe="set_decay and get_weight multiply the same number (n-1) of two-body momenta")
    qs, qmax = [], []
    for i, ((M, ma, mb, r), (Mx, max_, mbx, rx)) in enumerate(zip(w_calls, max_calls)):
        Mt, at, bt, Mxt, axt, bxt = sc(M), sc(ma), sc(mb), sc(Mx), sc(max_), sc(mbx)
        ss.prove("ps.weight.parent_below_max[n=%d,%d]" % (n, i), F, T.gt(Mt.t, Mxt.t), key="ps.weight.ordering", payload=pay, timeout=60, describe="parent mass of factor i <= the maximal one used in w_max")
        ss.prove("ps.weight.daughter_above_min[n=%d,%d]" % (n, i), F, T.lt(at.t, axt.t), key="ps.weight.ordering", payload=pay, timeout=60, describe="daughter-system mass of factor i >= the minimal one used in w_max")
        ss.prove("ps.weight.same_bachelor[n=%d,%d]" % (n, i), F, far(bt.t, bxt.t, 0), key="ps.weight.ordering", payload=pay, timeout=60)
        ss.prove("ps.weight.physical[n=%d,%d]" % (n, i), F, T.bor(T.lt(Mt.t, (at + bt).t), T.le(Mt.t, T.ZERO), T.lt(axt.t, T.ZERO)), key="ps.weight.ordering", payload=pay, timeout=60, describe="factor i is evaluated at or above its threshold")
        q, qm = simp(F, sc(r), sc(rx))
        qs.append(q)
        qmax.append(qm)
    prod = qs[0]
    for q in qs[1:]:
        prod = prod * q
    pm = qmax[0]
    for q in qmax[1:]:
        pm = pm * q
    wn = simp(F, sc(w_noimp))
    ss.prove("ps.weight.is_product[n=%d]" % n, F, far(wn.t, (prod / pm).t, 0), key="ps.weight.is_product", payload=pay, timeout=120, describe="get_weight(importances=False) = prod q_i / prod q_i^max")
    impv = simp(F, sc(imp)) if not isinstance(imp, float) else SymReal(T.const(imp, "R"))
    ss.prove("ps.weight.importance_in_unit_interval[n=%d]" % n, F, T.bor(T.lt(impv.t, T.ZERO), T.gt(impv.t, T.ONE)), key="ps.weight.importance", payload=pay, timeout=120,
             describe="0 <= importance factor <= 1")
    wv = simp(F, sc(w))
    ss.prove("ps.weight.with_importance[n=%d]" % n, F, far(wv.t, (impv * wn).t, 0), key="ps.weight.is_product", payload=pay, timeout=120)
    ss.witness("ps.weight.reach[n=%d]" % n, F)


def job_flat(ss, n):
    """accepted density / prod q_i is constant: importance(ms(u)) / prod_i (d ms_i / d u_i) does not depend on u"""
    import tf_pwa.phasespace as phsp
    from symx import symtf

    _sym_random()
    m0, ms = _masses(n)
    gen = phsp.PhaseSpaceGenerator(m0, ms)
    mass = gen.generate_mass(1)
    us = list(symtf.STATE.random_log)
    imp = gen.mass_importances(mass)
    _open_variates()
    F = facts()
    pay = _pay("flat", n=n)
    mt = [term_of(x.arr.reshape(-1)[0]) for x in mass]
    ss.concrete("ps.flat.one_variate_per_mass[n=%d]" % n, len(us) == len(mt) == n - 2, key="ps.flat.structure", payload=dict(kind="flat_struct", n=n))
    jac = T.ONE
    for i, (m, u) in enumerate(zip(mt, us)):
        d = T.diff(m, u)
        jac = T.mul(jac, d)
        # triangular Jacobian: ms_i does not depend on later variates
        for k in range(i + 1, len(us)):
            ss.prove("ps.flat.triangular[n=%d,%d,%d]" % (n, i, k), F, T.ne(T.diff(m, us[k]), T.ZERO), key="ps.flat.triangular", payload=pay, timeout=60)
        ss.prove("ps.flat.jacobian_positive[n=%d,%d]" % (n, i), F, T.le(d, T.ZERO), key="ps.flat.jacobian_positive", payload=pay, timeout=60, describe="d m_i / d u_i > 0 (proposal is a monotone map of the variate)")
    it = term_of(imp.arr.reshape(-1)[0]) if hasattr(imp, "arr") else (imp.t if isinstance(imp, SymReal) else T.const(float(imp), "R"))
    dens = T.div(it, jac)  # importance x proposal density (proposal density = 1 / Jacobian)
    for k, u in enumerate(us):
        ss.prove("ps.flat.density_constant[n=%d,d/du%d]" % (n, k), F, T.cross_ne(T.diff(dens, u), T.ZERO), key="ps.flat.density_constant", payload=pay, timeout=120,
                 describe="importance factor x proposal density of the intermediate masses is the same for every mass configuration, so accepted events follow prod q_i (flat LIPS)")
    # masses stay inside their ranges
    lo_prev = ms[-1]
    for i, m in enumerate(mt):
        a, b = gen.mass_range[i]
        ss.prove("ps.flat.mass_in_range[n=%d,%d]" % (n, i), F, T.bor(T.gt(m, term_of(b) if not isinstance(b, SymReal) else b.t), T.lt(m, (a.t if isinstance(a, SymReal) else term_of(a)))), key="ps.flat.mass_in_range", payload=pay, timeout=60)
    if len(us) >= 2:
        ss.mutant("ps.flat.mutant[n=%d]" % n, F, T.cross_ne(T.diff(T.div(T.ONE, jac), us[0]), T.ZERO))


def job_angles(ss):
    import tf_pwa.phasespace as phsp
    from symx import symtf

    _sym_random()
    m0, ms = _masses(2)
    gen = phsp.PhaseSpaceGenerator(m0, ms)
    n0 = len(symtf.STATE.random_log)
    p = gen.generate_momentum([], 1)
    us = list(symtf.STATE.random_log)[n0:]
    F = facts()
    pa = [SymReal(term_of(e)) for e in p[0].arr.reshape(-1)]
    pa = simp(F, *pa)
    q = simp(F, SymReal(term_of(phsp.get_p(tensor_of([m0]), tensor_of([ms[0]]), tensor_of([ms[1]])).arr[0])))
    pay = _pay("angles")
    ss.concrete("ps.angles.two_variates", len(us) == 2, key="ps.angles", payload=dict(kind="angles"))
    # cos(theta) = pz/q = 2 u - 1 : affine with range [-1, 1)
    ss.prove("ps.angles.cos_theta_affine", F, far(pa[3].t, T.mul(q.t, T.sub(T.mul(T.const(2, "R"), us[0]), T.ONE)), 0), key="ps.angles", payload=pay, timeout=60, describe="p_z = q (2u - 1): cos(theta) uniform in [-1, 1)")
    c = T.uf("cos", T.mul(T.const(2 * np.pi, "R"), us[1]))
    ss.prove("ps.angles.phi_affine", F, far(T.mul(pa[1].t, pa[1].t), T.mul(q.t, q.t, T.sub(T.ONE, T.ipow(T.sub(T.mul(T.const(2, "R"), us[0]), T.ONE), 2)), c, c), 0), key="ps.angles", payload=pay, timeout=60,
             describe="p_x = q sin(theta) cos(2 pi u'): phi = 2 pi u' uniform in [0, 2 pi)")


class _Len:
    """array stand-in that only has a (symbolic) length"""

    def __init__(self, n):
        self.n = n if isinstance(n, SymReal) else SymReal(T.const(int(n), "I"))

    @property
    def shape(self):
        return (self.n,)

    def __getitem__(self, k):
        assert isinstance(k, slice) and k.start is None and k.step is None
        stop = k.stop if isinstance(k.stop, SymReal) else SymReal(T.const(int(k.stop), "I"))
        return _Len(self.n.minimum(stop))


def job_count(ss):
    """refill loop of generate(): returned length == n_iter; progress of every refill"""
    import tf_pwa.phasespace as phsp
    from symx import pybuiltins as PB

    class TFProxy:
        def __getattr__(self, k):
            import tensorflow as tf

            return getattr(tf, k)

        @staticmethod
        def concat(vals, axis):
            return _Len(vals[0].n + vals[1].n)

    saved = {k: phsp.__dict__.get(k) for k in ("tf", "int", "min")}
    phsp.tf, phsp.int, phsp.min = TFProxy(), PB.sym_int, PB.sym_min
    try:
        def run():
            n_iter = T.var("n_iter", "I")
            c = S.ctx()
            c.fact(T.le(T.IONE, n_iter))
            c.fact(T.le(n_iter, T.const(1000, "I")))
            gen = phsp.PhaseSpaceGenerator(3.0, [0.5, 0.5, 0.5])
            log = {"requests": [], "kept": []}
            k = [0]

            def generate_mass(n):
                log["requests"].append(n if isinstance(n, SymReal) else SymReal(T.const(int(n), "I")))
                return [_Len(n)]

            def flatten_mass(ms, importances=True):
                k[0] += 1
                kept = T.var("kept_%d" % k[0], "I")
                c.fact(T.le(T.IZERO, kept))
                c.fact(T.le(kept, ms[0].n.t))
                log["kept"].append(kept)
                return [_Len(SymReal(kept))]

            gen.generate_mass = generate_mass
            gen.flatten_mass = flatten_mass
            gen.generate_momentum = lambda mass_f, n=None: mass_f[0].n
            out = gen.generate(SymReal(n_iter))
            return out, n_iter, log

        ex = fork.Explorer(max_paths=40, max_depth=8, timeout_s=20, total_s=900)
        npaths = 0
        for path in ex.run(run):
            npaths += 1
            if path.error is not None:
                if isinstance(path.error, fork.PathLimit):
                    ss.note(name="count.path_cut", states=1, detail="path cut at the refill bound")
                    continue
                ss._rec(kind="obligation", name="ps.count.path_error[%d]" % npaths, key="ps.count", status="error", error="%s: %s" % (type(path.error).__name__, path.error))
                continue
            out, n_iter, log = path.result
            F = list(path.ctx.facts) + list(path.pc)
            pay = lambda m, nref=len(log["kept"]): dict(kind="count", n_iter=int(m.get("n_iter", 1)), kept=[int(m.get("kept_%d" % (i + 1), 0)) for i in range(nref)])
            ss.prove("ps.count.exact[path=%d,refills=%d]" % (npaths, len(log["kept"]) - 1), F, T.ne(out.t, n_iter), key="ps.count.exact", payload=pay, split=False, timeout=60,
                     describe="generate(n) returns exactly n events whatever the unweighting keeps", want_smt2=(npaths == 1))
            for i, r in enumerate(log["requests"][1:]):
                ss.prove("ps.count.progress[path=%d,refill=%d]" % (npaths, i + 1), F, T.lt(r.t, T.IONE), key="ps.count.progress", payload=pay, split=False, timeout=60,
                         describe="every refill requests at least one new event (the loop makes progress)")
        ss.note(name="count.paths", states=npaths, transitions=ex.stats["forks"], stats=ex.stats)
    finally:
        for k, v in saved.items():
            if v is None:
                phsp.__dict__.pop(k, None)
            else:
                phsp.__dict__[k] = v


def run_job(job):
    ss = Session(job)
    globals()["job_" + job[0]](ss, *job[1:])
    return ss.records
