"""Translate SymPy expressions (as built by the real tf-pwa constructors) into
symbolic scalars of the engine, node by node."""
from __future__ import annotations

from fractions import Fraction

import sympy

from . import term as T
from .scalar import OutOfEncoding, SymComplex, SymReal


def translate(expr, mapping, cache=None):
    """mapping: {sympy Symbol (or its name): SymReal / SymComplex / number}"""
    if cache is None:
        cache = {}
    key = expr
    if key in cache:
        return cache[key]
    r = _tr(expr, mapping, cache)
    cache[key] = r
    return r


def _num(x):
    return SymReal(T.const(x, "R"))


def _tr(e, mp, cache):
    if e.is_Symbol:
        if e in mp:
            v = mp[e]
        elif e.name in mp:
            v = mp[e.name]
        else:
            raise OutOfEncoding("unmapped sympy symbol %s" % e)
        if isinstance(v, (SymReal, SymComplex)):
            return v
        return _num(v)
    if e.is_Integer:
        return _num(Fraction(int(e)))
    if e.is_Rational:
        return _num(Fraction(int(e.p), int(e.q)))
    if e.is_Float:
        return _num(Fraction(float(e)))
    if e is sympy.I:
        return SymComplex(_num(0), _num(1))
    if e is sympy.pi:
        import math

        return _num(Fraction(math.pi))
    if e.is_Add:
        acc = None
        for a in e.args:
            v = translate(a, mp, cache)
            acc = v if acc is None else acc + v
        return acc
    if e.is_Mul:
        acc = None
        for a in e.args:
            v = translate(a, mp, cache)
            acc = v if acc is None else acc * v
        return acc
    if e.is_Pow:
        base = translate(e.base, mp, cache)
        ex = e.exp
        if ex.is_Integer:
            return base ** int(ex)
        if ex.is_Rational and int(ex.q) == 2:
            r = base.sqrt()
            return r ** int(ex.p)
        if ex.is_Float and float(ex) == int(float(ex)):
            return base ** int(float(ex))
        if ex.is_Float and float(ex) * 2 == int(float(ex) * 2):
            return base.sqrt() ** int(float(ex) * 2)
        exv = translate(ex, mp, cache)
        return base ** exv
    if isinstance(e, sympy.sin):
        return translate(e.args[0], mp, cache).sin()
    if isinstance(e, sympy.cos):
        return translate(e.args[0], mp, cache).cos()
    if isinstance(e, sympy.tan):
        return translate(e.args[0], mp, cache).tan()
    if isinstance(e, sympy.asin):
        return translate(e.args[0], mp, cache).arcsin()
    if isinstance(e, sympy.exp):
        return translate(e.args[0], mp, cache).exp()
    if isinstance(e, sympy.log):
        return translate(e.args[0], mp, cache).log()
    if isinstance(e, sympy.Abs):
        return abs(translate(e.args[0], mp, cache))
    if isinstance(e, sympy.conjugate):
        return translate(e.args[0], mp, cache).conjugate()
    raise OutOfEncoding("sympy node %s" % type(e).__name__)
