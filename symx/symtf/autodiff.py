"""GradientTape / ForwardAccumulator by symbolic differentiation of the DAG.

TensorFlow's autodiff itself is trusted (the properties concern tf-pwa's own
assembly of gradients).  Differences from TensorFlow that are part of the
stated assumptions: a tape differentiates through everything the target
depends on, whether or not it was computed while the tape was recording.
"""
from __future__ import annotations

import numpy as np

from .. import term as T
from ..scalar import OutOfEncoding, SymComplex, SymReal


def _flatten_sources(sources):
    if isinstance(sources, dict):
        keys = list(sources)
        flat = []
        spec = []
        for k in keys:
            f, s = _flatten_sources(sources[k])
            flat.extend(f)
            spec.append((k, s, len(f)))
        return flat, ("dict", spec)
    if isinstance(sources, (list, tuple)):
        flat = []
        spec = []
        for e in sources:
            f, s = _flatten_sources(e)
            flat.extend(f)
            spec.append((s, len(f)))
        return flat, ("list" if isinstance(sources, list) else "tuple", spec)
    return [sources], None


def _unflatten(flat, spec):
    if spec is None:
        return flat[0]
    kind, items = spec
    out = []
    pos = 0
    if kind == "dict":
        d = {}
        for k, s, n in items:
            d[k] = _unflatten(flat[pos : pos + n], s)
            pos += n
        return d
    for s, n in items:
        out.append(_unflatten(flat[pos : pos + n], s))
        pos += n
    return out if kind == "list" else tuple(out)


def _target_terms(target):
    from . import Tensor, _arr

    if isinstance(target, (list, tuple)):
        ts = []
        for t in target:
            ts.extend(_target_terms(t))
        return ts
    a = _arr(target)
    out = []
    for e in a.reshape(-1):
        if isinstance(e, SymComplex):
            raise OutOfEncoding("gradient of a complex target")
        if isinstance(e, SymReal):
            out.append(e.t)
        else:
            out.append(T.const(float(e), "R"))
    return out


def _source_leaf(e):
    if isinstance(e, SymReal):
        t = e.t
        if t.op == "toreal":
            t = t.args[0]
        if t.op == "var":
            return t
    return None


def _grad_of_sum(total, deps, src, unconnected):
    """gradient of the scalar term `total` w.r.t. the tensor/variable src"""
    from . import Tensor, _arr, float64

    a = _arr(src)
    dt = getattr(src, "_dtype", float64)
    if a.dtype != object:
        raise OutOfEncoding(
            "gradient with respect to a concrete (non-symbolic) source %r = %r; symbolise the variable first" % (getattr(src, "name", None), a.reshape(-1)[:3].tolist())
        )
    out = np.empty(a.shape, dtype=object)
    connected = False
    cache = {}
    for idx in np.ndindex(*a.shape):
        leaf = _source_leaf(a[idx])
        if leaf is None:
            raise OutOfEncoding("gradient source %r is not a symbolic leaf" % (a[idx],))
        if leaf in deps:
            connected = True
            out[idx] = SymReal(T.diff(total, leaf, cache))
        else:
            out[idx] = SymReal(T.ZERO)
    if not connected and unconnected != "zero":
        return None
    return Tensor(out, dt)


class GradientTape:
    def __init__(self, persistent=False, watch_accessed_variables=True):
        self._persistent = persistent
        self._used = False

    def __enter__(self):
        return self

    def __exit__(self, *exc):
        return False

    def watch(self, x):
        pass

    def stop_recording(self):
        import contextlib

        return contextlib.nullcontext()

    def reset(self):
        self._used = False

    def gradient(self, target, sources, output_gradients=None, unconnected_gradients="none"):
        if self._used and not self._persistent:
            raise RuntimeError(
                "A non-persistent GradientTape can only be used to compute one set of gradients (or jacobians)"
            )
        self._used = True
        if output_gradients is not None:
            raise OutOfEncoding("output_gradients")
        unconnected = getattr(unconnected_gradients, "value", unconnected_gradients)
        terms = _target_terms(target)
        total = T.add(*terms) if terms else T.ZERO
        deps = set(T.free_vars(total))
        flat, spec = _flatten_sources(sources)
        res = [_grad_of_sum(total, deps, s, unconnected) for s in flat]
        return _unflatten(res, spec)

    def jacobian(self, target, sources, unconnected_gradients="none", **kw):
        from . import Tensor, _arr, float64

        if self._used and not self._persistent:
            raise RuntimeError("A non-persistent GradientTape can only be used to compute one set of gradients")
        self._used = True
        unconnected = getattr(unconnected_gradients, "value", unconnected_gradients)
        ta = _arr(target)
        flat, spec = _flatten_sources(sources)
        res = []
        for s in flat:
            sa = _arr(s)
            out = np.empty(ta.shape + sa.shape, dtype=object)
            any_conn = False
            for tidx in np.ndindex(*ta.shape):
                e = ta[tidx]
                tt = e.t if isinstance(e, SymReal) else T.const(float(e), "R")
                deps = set(T.free_vars(tt))
                g = _grad_of_sum(tt, deps, s, "zero")
                if any(l in deps for l in [_source_leaf(x) for x in sa.reshape(-1)]):
                    any_conn = True
                out[tidx] = g.arr if g.arr.ndim else g.arr[()]
            if not any_conn and unconnected != "zero":
                res.append(None)
            else:
                res.append(Tensor(out, float64))
        return _unflatten(res, spec)

    def batch_jacobian(self, *a, **k):
        raise OutOfEncoding("batch_jacobian")


class ForwardAccumulator:
    def __init__(self, primals, tangents):
        pf, _ = _flatten_sources(primals)
        tf_, _ = _flatten_sources(tangents)
        if len(pf) != len(tf_):
            raise ValueError("primals and tangents must have the same structure")
        self._pairs = list(zip(pf, tf_))

    def __enter__(self):
        return self

    def __exit__(self, *exc):
        return False

    def jvp(self, primals, unconnected_gradients="none"):
        from . import Tensor, _arr, float64

        unconnected = getattr(unconnected_gradients, "value", unconnected_gradients)
        flat, spec = _flatten_sources(primals)
        leaves = []
        for p, tg in self._pairs:
            pa, ta = _arr(p), _arr(tg)
            if pa.dtype != object:
                raise OutOfEncoding("ForwardAccumulator over a concrete primal")
            ta = np.broadcast_to(ta, pa.shape)
            for idx in np.ndindex(*pa.shape):
                leaf = _source_leaf(pa[idx])
                if leaf is None:
                    raise OutOfEncoding("ForwardAccumulator primal %r is not a symbolic leaf" % (pa[idx],))
                tv = ta[idx]
                leaves.append((leaf, tv.t if isinstance(tv, SymReal) else T.const(float(tv), "R")))
        res = []
        caches = {leaf: {} for leaf, _ in leaves}
        for y in flat:
            if y is None:
                res.append(None)
                continue
            ya = _arr(y)
            out = np.empty(ya.shape, dtype=object)
            conn = False
            for idx in np.ndindex(*ya.shape):
                e = ya[idx]
                if not isinstance(e, SymReal):
                    out[idx] = SymReal(T.ZERO)
                    continue
                deps = set(T.free_vars(e.t))
                parts = []
                for leaf, tv in leaves:
                    if leaf in deps:
                        conn = True
                        parts.append(T.mul(T.diff(e.t, leaf, caches[leaf]), tv))
                out[idx] = SymReal(T.add(*parts) if parts else T.ZERO)
            if not conn and unconnected != "zero":
                res.append(None)
            else:
                res.append(Tensor(out, getattr(y, "_dtype", float64)))
        return _unflatten(res, spec)
