"""A substitute for the ``tensorflow`` module: the subset of the TensorFlow API
that tf-pwa uses, implemented with numpy on arrays that are either native
(float/complex/int/bool: *float mode*) or ``dtype=object`` arrays of symbolic
scalars (symx.scalar).  ``install()`` places it in ``sys.modules``.

The same code serves both modes; float mode is diffed against the real
TensorFlow by the conformance step of every check.
"""
from __future__ import annotations

import builtins
import itertools
import sys
import types

import numpy as np

from .. import scalar as S
from .. import term as T
from ..scalar import OutOfEncoding, SymBool, SymComplex, SymReal

__version__ = "2.99.0-symtf"

_py_range = builtins.range
_py_abs = builtins.abs
_py_pow = builtins.pow
_py_bool = builtins.bool
_py_complex = builtins.complex


class _State:
    var_leaves = False  # tf.Variable(value) becomes a fresh differentiation leaf bound to value
    bindings = {}  # leaf Term -> value Term
    leaf_counter = 0
    symbolic_random = False
    rng = np.random.RandomState(0)
    random_log = []  # fresh random symbols, in creation order
    random_counter = 0
    taint_hook = None


STATE = _State()

# ---------------------------------------------------------------------- dtypes


class DType:
    def __init__(self, name, np_dtype):
        self.name = name
        self.as_numpy_dtype = np_dtype
        self._np = np.dtype(np_dtype) if np_dtype is not object else None

    @property
    def is_complex(self):
        return self.name.startswith("complex")

    @property
    def is_floating(self):
        return self.name.startswith("float")

    @property
    def is_integer(self):
        return self.name.startswith("int") or self.name.startswith("uint")

    @property
    def is_bool(self):
        return self.name == "bool"

    @property
    def real_dtype(self):
        return {"complex128": float64, "complex64": float32}.get(self.name, self)

    @property
    def min(self):
        return np.finfo(self._np).min if self.is_floating else np.iinfo(self._np).min

    @property
    def max(self):
        return np.finfo(self._np).max if self.is_floating else np.iinfo(self._np).max

    def __eq__(self, o):
        if isinstance(o, DType):
            return self.name == o.name
        if isinstance(o, str):
            return self.name == o
        try:
            return self._np is not None and np.dtype(o) == self._np
        except TypeError:
            return False

    def __ne__(self, o):
        return not self == o

    def __hash__(self):
        return hash(self.name)

    def __repr__(self):
        return "tf." + self.name

    __str__ = lambda self: "<dtype: '%s'>" % self.name


float64 = DType("float64", np.float64)
float32 = DType("float32", np.float32)
float16 = DType("float16", np.float16)
complex128 = DType("complex128", np.complex128)
complex64 = DType("complex64", np.complex64)
int32 = DType("int32", np.int32)
int64 = DType("int64", np.int64)
int8 = DType("int8", np.int8)
uint8 = DType("uint8", np.uint8)
bool = DType("bool", np.bool_)
string = DType("string", object)
double = float64
_ALL_DT = [float64, float32, float16, complex128, complex64, int32, int64, int8, uint8, bool]


def as_dtype(d):
    if d is None:
        return None
    if isinstance(d, DType):
        return d
    if isinstance(d, str):
        for x in _ALL_DT:
            if x.name == d:
                return x
    if d is float:
        return float64
    if d is int:
        return int64
    if d is _py_complex:
        return complex128
    if d is _py_bool:
        return bool
    nd = np.dtype(d)
    for x in _ALL_DT:
        if x._np == nd:
            return x
    if nd == object:
        return float64
    raise TypeError("unknown dtype %r" % (d,))


dtypes = types.SimpleNamespace(
    as_dtype=as_dtype, DType=DType, float64=float64, float32=float32, complex128=complex128,
    complex64=complex64, int32=int32, int64=int64, bool=bool, string=string,
)


class TensorShape(tuple):
    def as_list(self):
        return list(self)

    @property
    def rank(self):
        return len(self)

    @property
    def ndims(self):
        return len(self)

    def __getitem__(self, k):
        r = tuple.__getitem__(self, k)
        if isinstance(k, slice):
            return TensorShape(r)
        return r

    def num_elements(self):
        return int(np.prod(self, dtype=np.int64))

    def is_fully_defined(self):
        return True

    def __add__(self, o):
        return TensorShape(tuple(self) + tuple(o))


def _infer_dtype(a):
    if a.dtype != object:
        if a.dtype.kind == "U" or a.dtype.kind == "S":
            return string
        return as_dtype(a.dtype)
    kind = 0
    for x in a.flat:
        if isinstance(x, (SymComplex, _py_complex, np.complexfloating)):
            return complex128
        if isinstance(x, (SymBool, _py_bool, np.bool_)):
            kind = max(kind, 1)
        elif isinstance(x, SymReal) and x.t.sort == "I":
            kind = max(kind, 2)
        elif isinstance(x, (int, np.integer)):
            kind = max(kind, 2)
        else:
            kind = max(kind, 3)
    return {0: float64, 1: bool, 2: int64, 3: float64}[kind]


# ---------------------------------------------------------------------- Tensor


_UFUNC_BINOPS = {
    "add": lambda a, b: add(a, b), "subtract": lambda a, b: subtract(a, b), "multiply": lambda a, b: multiply(a, b),
    "true_divide": lambda a, b: divide(a, b), "divide": lambda a, b: divide(a, b), "power": lambda a, b: pow(a, b),
    "floor_divide": lambda a, b: _bin(lambda x, y: x // y, a, b), "remainder": lambda a, b: _bin(lambda x, y: x % y, a, b),
    "less": lambda a, b: less(a, b), "less_equal": lambda a, b: less_equal(a, b), "greater": lambda a, b: greater(a, b),
    "greater_equal": lambda a, b: greater_equal(a, b), "equal": lambda a, b: equal(a, b), "not_equal": lambda a, b: not_equal(a, b),
    "matmul": lambda a, b: matmul(a, b), "maximum": lambda a, b: maximum(a, b), "minimum": lambda a, b: minimum(a, b),
}


class Tensor:
    __array_priority__ = 100000

    def __array_ufunc__(self, ufunc, method, *inputs, **kwargs):
        """numpy operators with a Tensor operand give a Tensor (as TensorFlow's
        reflected operators do); other numpy ufuncs see the underlying array
        and give a numpy array (as with TensorFlow's __array__ protocol)."""
        if method != "__call__" or kwargs.get("out") is not None:
            return NotImplemented
        name = ufunc.__name__
        if name in _UFUNC_BINOPS and len(inputs) == 2:
            return _UFUNC_BINOPS[name](*inputs)
        raw = [i.arr if isinstance(i, Tensor) else i for i in inputs]
        return getattr(ufunc, method)(*raw, **kwargs)

    def __init__(self, arr, dtype=None):
        if isinstance(arr, Tensor):
            dtype = dtype or arr._dtype
            arr = arr.arr
        if not isinstance(arr, np.ndarray):
            arr = _arr(arr)
        self.arr = arr
        self._dtype = dtype if dtype is not None else _infer_dtype(arr)

    # --- basic attributes
    @property
    def shape(self):
        return TensorShape(self.arr.shape)

    @property
    def dtype(self):
        return self._dtype

    @property
    def ndim(self):
        return self.arr.ndim

    @property
    def is_symbolic(self):
        return self.arr.dtype == object

    def get_shape(self):
        return self.shape

    def numpy(self):
        a = self.arr
        if a.dtype == object:
            try:
                return _concretize(a, self._dtype)
            except S.Concretization:
                # symbolic content: the numpy view of a symbolic tensor is its object array
                return a[()] if a.ndim == 0 else a
        if a.ndim == 0:
            return a[()]
        return a

    def __array__(self, dtype=None, copy=None):
        a = self.arr
        if dtype is not None and a.dtype == object and np.dtype(dtype) != object:
            return _concretize(a, self._dtype).astype(dtype)
        if dtype is not None:
            return a.astype(dtype)
        return a

    def __len__(self):
        if self.arr.ndim == 0:
            raise TypeError("len() of a 0-d tensor")
        return self.arr.shape[0]

    def __iter__(self):
        if self.arr.ndim == 0:
            raise TypeError("iteration over a 0-d tensor")
        for i in _py_range(self.arr.shape[0]):
            yield Tensor(_oa(self.arr[i]), self._dtype)

    def __getitem__(self, k):
        k = _index(k)
        return Tensor(_oa(self.arr[k]), self._dtype)

    def __hash__(self):
        return id(self)

    def ref(self):
        return _Ref(self)

    def __repr__(self):
        return "symtf.Tensor(%r, dtype=%s)" % (self.arr, self._dtype.name)

    def _scalar(self):
        if self.arr.size != 1:
            raise ValueError("only size-1 tensors can be converted to Python scalars")
        return self.arr.reshape(()).item() if self.arr.dtype != object else self.arr.reshape(())[()]

    def __bool__(self):
        v = self._scalar()
        return _py_bool(v)

    def __float__(self):
        v = self._scalar()
        if isinstance(v, SymReal):
            return _sym_float(v)
        return float(v)

    def __int__(self):
        return int(self._scalar())

    def __index__(self):
        v = self._scalar()
        if isinstance(v, SymReal):
            return v.__index__()
        return int(v)

    def __complex__(self):
        return _py_complex(self._scalar())

    # --- arithmetic
    def __add__(self, o):
        return add(self, o)

    def __radd__(self, o):
        return add(o, self)

    def __sub__(self, o):
        return subtract(self, o)

    def __rsub__(self, o):
        return subtract(o, self)

    def __mul__(self, o):
        return multiply(self, o)

    def __rmul__(self, o):
        return multiply(o, self)

    def __truediv__(self, o):
        return divide(self, o)

    def __rtruediv__(self, o):
        return divide(o, self)

    def __floordiv__(self, o):
        return _bin(lambda a, b: a // b, self, o)

    def __rfloordiv__(self, o):
        return _bin(lambda a, b: a // b, o, self)

    def __mod__(self, o):
        return _bin(lambda a, b: a % b, self, o)

    def __rmod__(self, o):
        return _bin(lambda a, b: a % b, o, self)

    def __pow__(self, o):
        return pow(self, o)

    def __rpow__(self, o):
        return pow(o, self)

    def __neg__(self):
        return Tensor(-self.arr, self._dtype)

    def __pos__(self):
        return self

    def __abs__(self):
        return abs(self)

    def __matmul__(self, o):
        return matmul(self, o)

    def __rmatmul__(self, o):
        return matmul(o, self)

    def __lt__(self, o):
        return _cmp(lambda a, b: a < b, self, o)

    def __le__(self, o):
        return _cmp(lambda a, b: a <= b, self, o)

    def __gt__(self, o):
        return _cmp(lambda a, b: a > b, self, o)

    def __ge__(self, o):
        return _cmp(lambda a, b: a >= b, self, o)

    def __eq__(self, o):
        if o is None:
            return False
        return _cmp(lambda a, b: a == b, self, o)

    def __ne__(self, o):
        if o is None:
            return True
        return _cmp(lambda a, b: a != b, self, o)

    def __and__(self, o):
        return _cmp(lambda a, b: a & b, self, o)

    __rand__ = __and__

    def __or__(self, o):
        return _cmp(lambda a, b: a | b, self, o)

    __ror__ = __or__

    def __invert__(self):
        return Tensor(_oa(~self.arr), bool)

    # tf.experimental.numpy-ish helpers occasionally used
    def astype(self, d):
        return cast(self, d)

    @property
    def T(self):
        return Tensor(self.arr.T, self._dtype)

    def set_shape(self, shape):
        pass


class _Ref:
    def __init__(self, t):
        self._t = t

    def deref(self):
        return self._t

    def __hash__(self):
        return id(self._t)

    def __eq__(self, o):
        return isinstance(o, _Ref) and o._t is self._t


_var_counter = itertools.count()


class Variable(Tensor):
    def __init__(self, initial_value=None, trainable=True, name=None, dtype=None, shape=None, **kw):
        if callable(initial_value):
            initial_value = initial_value()
        dt = as_dtype(dtype)
        a = _arr(initial_value)
        if dt is not None:
            a = _cast_arr(a, dt)
        elif a.dtype != object and a.dtype.kind == "f" and a.dtype != np.float64 and not isinstance(initial_value, (Tensor, np.ndarray, np.generic)):
            a = a.astype(np.float64)
        Tensor.__init__(self, a, dt)
        if dt is None and type(initial_value) is float:
            self._dtype = float32  # tf default for python floats
            self.arr = self.arr.astype(np.float32) if self.arr.dtype != object else self.arr
        self._trainable = trainable
        self._name = name if name is not None else "Variable_%d" % next(_var_counter)
        if STATE.var_leaves:
            self.arr = _leafify(self.arr, self._name)

    @property
    def name(self):
        return self._name + ":0"

    @property
    def trainable(self):
        return self._trainable

    def assign(self, value, **kw):
        a = _arr(value)
        a = _cast_arr(a, self._dtype)
        if a.shape != self.arr.shape:
            a = np.broadcast_to(a, self.arr.shape).copy()
        if STATE.var_leaves:
            a = _leafify(a, self._name)
        self.arr = a
        return self

    def assign_add(self, delta, **kw):
        return self.assign(add(Tensor(self.arr, self._dtype), delta))

    def assign_sub(self, delta, **kw):
        return self.assign(subtract(Tensor(self.arr, self._dtype), delta))

    def value(self):
        return Tensor(self.arr, self._dtype)

    def read_value(self):
        return Tensor(self.arr, self._dtype)

    def __repr__(self):
        return "<symtf.Variable %s %r>" % (self._name, self.arr)

    def __hash__(self):
        return id(self)


def _leafify(a, name):
    """every element that is not already a bare symbolic variable becomes a
    fresh leaf bound (in STATE.bindings and as a fact) to its value"""
    if a.dtype != object and a.dtype.kind not in "fiu":
        return a
    out = np.empty(a.shape, dtype=object)
    for idx in np.ndindex(*a.shape):
        e = a[idx]
        if isinstance(e, SymComplex):
            return a
        if isinstance(e, SymReal):
            t = e.t
            if t.op == "var" and t not in STATE.bindings:
                out[idx] = e
                continue
        else:
            t = T.const(float(e), "R")
        STATE.leaf_counter += 1
        leaf = T.var("V%d!%s" % (STATE.leaf_counter, name.replace(":", "_")))
        STATE.bindings[leaf] = T.to_real(t)
        S.ctx().fact(T.eq(leaf, T.to_real(t)))
        out[idx] = SymReal(leaf)
    return out


def resolve_bindings(*terms):
    """substitute variable leaves by the values they are bound to (transitively)"""
    res = list(terms)
    for _ in _py_range(50):
        fv = set(T.free_vars(*res))
        m = {l: v for l, v in STATE.bindings.items() if l in fv}
        if not m:
            break
        res = T.substitute(res, m)
    return res[0] if len(res) == 1 else res


def reset_state():
    STATE.bindings = {}
    STATE.leaf_counter = 0
    STATE.random_log = []
    STATE.random_counter = 0


class TensorSpec:
    def __init__(self, shape=None, dtype=float32, name=None):
        self.shape = shape
        self.dtype = dtype
        self.name = name


class Module:
    pass


# ------------------------------------------------------------------ conversion


def _oa(x):
    """ensure ndarray (0-d object results of indexing come back as scalars)"""
    if isinstance(x, np.ndarray):
        return x
    if isinstance(x, (SymReal, SymComplex, SymBool)):
        a = np.empty((), dtype=object)
        a[()] = x
        return a
    return np.asarray(x)


def _arr(x, dtype=None):
    if isinstance(x, Tensor):
        a = x.arr
    elif isinstance(x, np.ndarray):
        a = x
        if a.dtype == object and a.size and any(isinstance(e, Tensor) for e in a.reshape(-1)):
            # numpy array of 0-d tensors (e.g. list-of-tensors arithmetic done by numpy)
            parts = [_arr(e) if isinstance(e, Tensor) else _oa(e) for e in a.reshape(-1)]
            if all(p.ndim == 0 for p in parts):
                b = np.empty(a.shape, dtype=object)
                flat = b.reshape(-1)
                for i, p in enumerate(parts):
                    flat[i] = p[()]
                a = b
            else:
                a = _arr([_arr(e) for e in a.reshape(-1)]).reshape(a.shape + parts[0].shape)
    elif isinstance(x, (SymReal, SymComplex, SymBool)):
        a = _oa(x)
    elif isinstance(x, (list, tuple)):
        if any(isinstance(e, (Tensor, list, tuple, np.ndarray, SymReal, SymComplex, SymBool)) for e in x):
            parts = [_arr(e) for e in x]
            shp = parts[0].shape if parts else ()
            for p in parts:
                if p.shape != shp:
                    # TensorFlow packs a list into one tensor: all shapes must match
                    raise ValueError("Shapes of all inputs must match: values[0].shape = %r != %r" % (list(shp), list(p.shape)))
            if any(p.dtype == object for p in parts):
                a = np.empty((len(parts),) + tuple(shp), dtype=object)
                for i, p in enumerate(parts):
                    if p.ndim == 0:
                        a[i] = p[()]
                    else:
                        a[i] = p.astype(object) if p.dtype != object else p
            else:
                a = np.stack(parts) if parts else np.zeros((0,))
        else:
            a = np.asarray(x)
            if a.dtype.kind == "f" and a.dtype != np.float64:
                a = a.astype(np.float64)
    elif isinstance(x, float):
        a = np.asarray(x, dtype=np.float64)
    elif x is None:
        raise ValueError("None values not supported.")
    else:
        a = np.asarray(x)
    if dtype is not None:
        a = _cast_arr(a, as_dtype(dtype))
    return a


_EVAL_UFS = None


def _eval_term(t):
    """numeric value of a term whose free variables are all bound leaves
    (symbolic-then-evaluate: used by the float conformance of gradient code)"""
    import math as _m

    global _EVAL_UFS
    if _EVAL_UFS is None:
        _EVAL_UFS = {"log": _m.log, "exp": _m.exp, "sin": _m.sin, "cos": _m.cos, "tan": _m.tan, "tanh": _m.tanh, "arctan": _m.atan}
    r = resolve_bindings(t)
    return T.evaluate(r, {}, ufs=_EVAL_UFS)


def _sym_float(x):
    if x.t.op == "const":
        return float(x.t.args[0])
    try:
        return float(_eval_term(x.t))
    except T.EvalError:
        return float(x)  # raises Concretization


def _concretize(a, dt):
    npd = dt.as_numpy_dtype if dt is not None and dt.as_numpy_dtype is not object else np.float64
    out = np.empty(a.shape, dtype=npd)
    flat = out.reshape(-1)
    for i, x in enumerate(a.reshape(-1)):
        if isinstance(x, SymComplex):
            flat[i] = _py_complex(_sym_float(x.re), _sym_float(x.im))
        elif isinstance(x, SymReal):
            flat[i] = _sym_float(x) if npd not in (np.int32, np.int64) else int(x)
        elif isinstance(x, SymBool):
            flat[i] = _py_bool(x)
        else:
            flat[i] = x
    if out.ndim == 0:
        return out[()]
    return out


def _ew(fn, *arrs, nout=1):
    """elementwise application with broadcasting on object arrays"""
    f = np.frompyfunc(fn, len(arrs), nout)
    r = f(*arrs)
    if nout == 1:
        return _oa(r) if isinstance(r, np.ndarray) else _oa(r)
    return tuple(_oa(x) for x in r)


def _cast_scalar(x, dt):
    if dt.is_complex:
        if isinstance(x, SymComplex):
            return x
        if isinstance(x, SymReal):
            return SymComplex(x, SymReal(T.ZERO))
        if isinstance(x, SymBool):
            return SymComplex(x._num(), SymReal(T.ZERO))
        return _py_complex(x)
    if dt.is_floating:
        if isinstance(x, SymComplex):
            return x.re
        if isinstance(x, SymReal):
            return SymReal(T.to_real(x.t), x.ang)
        if isinstance(x, SymBool):
            return x._num()
        if isinstance(x, (_py_complex, np.complexfloating)):
            return float(x.real)
        return float(x)
    if dt.is_integer:
        if isinstance(x, SymComplex):
            x = x.re
        if isinstance(x, SymReal):
            if x.t.sort == "I":
                return x
            if x.t.op == "const":
                return SymReal(T.const(int(x.t.args[0]), "I"))
            # truncation toward zero
            t = x.t
            return SymReal(T.ite(T.ge(t, T.ZERO), T.floor(t), T.neg(T.floor(T.neg(t)))))
        if isinstance(x, SymBool):
            return SymReal(T.ite(x.t, T.IONE, T.IZERO))
        if isinstance(x, (_py_complex, np.complexfloating)):
            return int(x.real)
        return int(x)
    if dt.is_bool:
        if isinstance(x, SymBool):
            return x
        if isinstance(x, SymReal):
            return S.sbool(x != 0)
        return _py_bool(x)
    raise TypeError(dt)


def _cast_arr(a, dt):
    if dt is None:
        return a
    if a.dtype != object:
        if dt.as_numpy_dtype is object:
            return a
        if a.dtype == dt._np:
            return a
        if a.dtype.kind == "c" and not dt.is_complex:
            a = a.real
        return a.astype(dt._np)
    return _ew(lambda x: _cast_scalar(x, dt), a)


def convert_to_tensor(value, dtype=None, dtype_hint=None, name=None):
    dt = as_dtype(dtype)
    if isinstance(value, Tensor) and not isinstance(value, Variable):
        if dt is None or dt == value._dtype:
            return value
        if dt is not None and value._dtype != dt:
            raise ValueError(
                "Tensor conversion requested dtype %s for Tensor with dtype %s" % (dt.name, value._dtype.name)
            )
    if isinstance(value, Variable):
        return Tensor(value.arr, value._dtype)
    a = _arr(value)
    if dt is not None:
        a = _cast_arr(a, dt)
        return Tensor(a, dt)
    if a.dtype != object and not _has_np(value):
        # TensorFlow's defaults for plain Python numbers (dtype_hint is honoured for them, as in TensorFlow)
        hint = as_dtype(dtype_hint)
        if hint is not None and a.dtype.kind in "fi" and getattr(hint, "name", "").startswith(("float", "complex")):
            return Tensor(_cast_arr(a, hint), hint)
        if a.dtype.kind == "f":
            return Tensor(a.astype(np.float32), float32)
        if a.dtype.kind == "i":
            return Tensor(a.astype(np.int32), int32)
    return Tensor(a)


def _has_np(v):
    if isinstance(v, (np.ndarray, np.generic, Tensor, SymReal, SymComplex)):
        return True
    if isinstance(v, (list, tuple)):
        return any(_has_np(e) for e in v)
    return False


def constant(value, dtype=None, shape=None, name=None):
    t = convert_to_tensor(value, dtype)
    if shape is not None:
        t = Tensor(np.broadcast_to(t.arr, tuple(shape)).copy(), t._dtype)
    return t


def identity(x, name=None):
    return _t(x)


def _t(x):
    if isinstance(x, Variable):
        return Tensor(x.arr, x._dtype)
    if isinstance(x, Tensor):
        return x
    return convert_to_tensor(x)


def _index(k):
    if isinstance(k, tuple):
        return tuple(_index(i) for i in k)
    if isinstance(k, Tensor):
        a = k.arr
        if a.dtype == object:
            return _concretize(a, k._dtype)
        if a.ndim == 0:
            return a[()]
        return a
    if isinstance(k, slice):
        f = lambda v: v if v is None else int(v)
        return slice(f(k.start), f(k.stop), f(k.step))
    if isinstance(k, SymReal):
        return k.__index__()
    return k


# ------------------------------------------------------------- binary dtype rule


def _result_dtype(x, y, ax, ay):
    """TensorFlow requires equal dtypes except that Python scalars / numpy
    arrays adapt to the tensor operand."""
    tx = isinstance(x, Tensor)
    ty = isinstance(y, Tensor)
    if tx and ty:
        if x._dtype != y._dtype:
            if ax.dtype == object or ay.dtype == object:
                # symbolic mode: promote (the float-mode conformance run is
                # where TensorFlow's dtype strictness is reproduced)
                for d in (complex128, complex64, float64, float32, int64, int32):
                    if x._dtype == d or y._dtype == d:
                        return d
            raise TypeError(
                "cannot compute Op as input #1 was expected to be a %s tensor but is a %s tensor"
                % (x._dtype.name, y._dtype.name)
            )
        return x._dtype
    if tx:
        return _adapt(x._dtype, ay, y)
    if ty:
        return _adapt(y._dtype, ax, x)
    return None


def _adapt(dt, other_arr, other):
    # python complex with a real tensor is an error in TF; numpy complex arrays too.
    od = _infer_dtype(other_arr)
    if od.is_complex and not dt.is_complex:
        raise TypeError("cannot convert a complex value to %s" % dt.name)
    if od.is_floating and dt.is_integer and isinstance(other, (float, np.floating, np.ndarray, list, tuple)):
        if other_arr.dtype != object and np.any(other_arr != np.floor(other_arr)):
            raise TypeError("cannot convert a float value to %s" % dt.name)
    return dt


def _bin(fn, x, y, cmp=False):
    ax, ay = _arr(x), _arr(y)
    dt = _result_dtype(x, y, ax, ay)
    if dt is not None and not cmp:
        if not isinstance(x, Tensor):
            ax = _cast_arr(ax, dt)
        if not isinstance(y, Tensor):
            ay = _cast_arr(ay, dt)
    elif dt is not None and cmp:
        if not isinstance(x, Tensor):
            ax = _cast_arr(ax, dt)
        if not isinstance(y, Tensor):
            ay = _cast_arr(ay, dt)
    if ax.dtype == object or ay.dtype == object:
        r = _ew(fn, ax, ay)
    else:
        with np.errstate(all="ignore"):
            r = _oa(fn(ax, ay))
    if cmp:
        return Tensor(r, bool)
    if dt is None:
        return Tensor(r)
    if r.dtype != object and dt.as_numpy_dtype is not object and r.dtype != dt._np:
        r = r.astype(dt._np)
    return Tensor(r, dt)


def _cmp(fn, x, y):
    return _bin(fn, x, y, cmp=True)


def add(x, y, name=None):
    return _bin(lambda a, b: a + b, x, y)


def subtract(x, y, name=None):
    return _bin(lambda a, b: a - b, x, y)


def multiply(x, y, name=None):
    return _bin(lambda a, b: a * b, x, y)


def divide(x, y, name=None):
    return _bin(lambda a, b: a / b, x, y)


truediv = divide


def pow(x, y, name=None):
    def f(a, b):
        if isinstance(a, (SymReal, SymComplex)) or isinstance(b, (SymReal, SymComplex)):
            if not isinstance(a, (SymReal, SymComplex)):
                a = S.lift(a)
            return a ** b
        return a ** b

    ax, ay = _arr(x), _arr(y)
    if ax.dtype != object and ay.dtype != object:
        return _bin(lambda a, b: np.power(a, b), x, y)
    return _bin(f, x, y)


def maximum(x, y, name=None):
    def f(a, b):
        if isinstance(a, SymReal) or isinstance(b, SymReal):
            return S.lift(a).maximum(b)
        return a if a >= b else b

    ax, ay = _arr(x), _arr(y)
    if ax.dtype != object and ay.dtype != object:
        return _bin(np.maximum, x, y)
    return _bin(f, x, y)


def minimum(x, y, name=None):
    def f(a, b):
        if isinstance(a, SymReal) or isinstance(b, SymReal):
            return S.lift(a).minimum(b)
        return a if a <= b else b

    ax, ay = _arr(x), _arr(y)
    if ax.dtype != object and ay.dtype != object:
        return _bin(np.minimum, x, y)
    return _bin(f, x, y)


def equal(x, y, name=None):
    return _cmp(lambda a, b: a == b, x, y)


def not_equal(x, y, name=None):
    return _cmp(lambda a, b: a != b, x, y)


def less(x, y, name=None):
    return _cmp(lambda a, b: a < b, x, y)


def less_equal(x, y, name=None):
    return _cmp(lambda a, b: a <= b, x, y)


def greater(x, y, name=None):
    return _cmp(lambda a, b: a > b, x, y)


def greater_equal(x, y, name=None):
    return _cmp(lambda a, b: a >= b, x, y)


def logical_and(x, y, name=None):
    return _cmp(lambda a, b: a & b, x, y)


def logical_or(x, y, name=None):
    return _cmp(lambda a, b: a | b, x, y)


def logical_not(x, name=None):
    return Tensor(_oa(~_arr(x)), bool)


# -------------------------------------------------------------------- unary ops


def _un(npfn, meth, x, out_dtype=None):
    x = _t(x)
    a = x.arr
    if a.dtype == object:
        def f(e):
            if isinstance(e, (SymReal, SymComplex)):
                return getattr(e, meth)()
            return npfn(e)
        r = _ew(f, a)
    else:
        with np.errstate(all="ignore"):
            r = _oa(npfn(a))
    return Tensor(r, out_dtype or x._dtype)


def sqrt(x, name=None):
    return _un(np.sqrt, "sqrt", x)


def exp(x, name=None):
    return _un(np.exp, "exp", x)


def log(x, name=None):
    return _un(np.log, "log", x)


def sin(x, name=None):
    return _un(np.sin, "sin", x)


def cos(x, name=None):
    return _un(np.cos, "cos", x)


def tan(x, name=None):
    return _un(np.tan, "tan", x)


def tanh(x, name=None):
    return _un(np.tanh, "tanh", x)


def atan(x, name=None):
    return _un(np.arctan, "arctan", x)


def acos(x, name=None):
    return _un(np.arccos, "arccos", x)


def asin(x, name=None):
    return _un(np.arcsin, "arcsin", x)


def acosh(x, name=None):
    x = _t(x)
    if x.arr.dtype == object:
        raise OutOfEncoding("acosh of a symbolic value")
    return Tensor(np.arccosh(x.arr), x._dtype)


def square(x, name=None):
    x = _t(x)
    return multiply(x, x)


def floor(x, name=None):
    return _un(np.floor, "floor", x)


def sign(x, name=None):
    return _un(np.sign, "sign", x)


def abs(x, name=None):
    x = _t(x)
    a = x.arr
    if a.dtype == object:
        r = _ew(lambda e: e.__abs__() if isinstance(e, (SymReal, SymComplex)) else _py_abs(e), a)
    else:
        r = np.abs(a)
    return Tensor(r, x._dtype.real_dtype)


def negative(x, name=None):
    return -_t(x)


def real(x, name=None):
    x = _t(x)
    a = x.arr
    if not x._dtype.is_complex:
        return x
    if a.dtype == object:
        r = _ew(lambda e: e.real if isinstance(e, (SymComplex, SymReal)) else _py_complex(e).real, a)
    else:
        r = _oa(a.real)
    return Tensor(r, x._dtype.real_dtype)


def imag(x, name=None):
    x = _t(x)
    a = x.arr
    if not x._dtype.is_complex:
        return zeros_like(x)
    if a.dtype == object:
        r = _ew(lambda e: e.imag if isinstance(e, (SymComplex, SymReal)) else _py_complex(e).imag, a)
    else:
        r = _oa(a.imag)
    return Tensor(r, x._dtype.real_dtype)


def conj(x, name=None):
    x = _t(x)
    a = x.arr
    if a.dtype == object:
        r = _ew(lambda e: e.conjugate(), a)
    else:
        r = np.conj(a)
    return Tensor(r, x._dtype)


def angle(x, name=None):
    x = _t(x)
    a = x.arr
    if a.dtype == object:
        def f(e):
            if isinstance(e, SymComplex):
                return e.angle()
            if isinstance(e, SymReal):
                return SymReal(T.ZERO).arctan2(e)
            return float(np.angle(e))
        r = _ew(f, a)
    else:
        r = _oa(np.angle(a))
    return Tensor(r, x._dtype.real_dtype)


def atan2(y, x, name=None):
    def f(a, b):
        if isinstance(a, SymReal) or isinstance(b, SymReal):
            return S.lift(a).arctan2(S.lift(b))
        return np.arctan2(a, b)

    ay, ax = _arr(y), _arr(x)
    if ay.dtype != object and ax.dtype != object:
        return _bin(np.arctan2, y, x)
    return _bin(f, y, x)


def is_nan(x, name=None):
    x = _t(x)
    a = x.arr
    if a.dtype == object:
        return Tensor(np.zeros(a.shape, dtype=np.bool_), bool)
    return Tensor(np.isnan(a), bool)


def is_finite(x, name=None):
    x = _t(x)
    a = x.arr
    if a.dtype == object:
        return Tensor(np.ones(a.shape, dtype=np.bool_), bool)
    return Tensor(np.isfinite(a), bool)


def complex(re, im, name=None):
    tr, ti = _t(re), _t(im)
    if tr._dtype != ti._dtype:
        raise TypeError("tf.complex: real and imag have different types: %s %s" % (tr._dtype, ti._dtype))
    if tr._dtype not in (float32, float64):
        raise TypeError("tf.complex requires float inputs, got %s" % tr._dtype)
    a, b = tr.arr, ti.arr
    odt = complex128 if tr._dtype == float64 else complex64
    if a.dtype == object or b.dtype == object:
        def f(x, y):
            if isinstance(x, SymReal) or isinstance(y, SymReal):
                return SymComplex(S.lift(x), S.lift(y))
            return _py_complex(x, y)
        return Tensor(_ew(f, a, b), odt)
    return Tensor((a + 1j * b).astype(odt._np), odt)


def cast(x, dtype, name=None):
    dt = as_dtype(dtype)
    if isinstance(x, Tensor):
        if x._dtype == dt:
            return _t(x)
        return Tensor(_cast_arr(x.arr, dt), dt)
    # TensorFlow converts first (a Python float becomes a float32 tensor,
    # losing precision) and casts afterwards
    t = convert_to_tensor(x)
    return Tensor(_cast_arr(t.arr, dt), dt)


def stop_gradient(x, name=None):
    x = _t(x)
    a = x.arr
    if a.dtype != object:
        return x

    def f(e):
        if isinstance(e, SymReal):
            return SymReal(T.stopgrad(e.t), e.ang)
        if isinstance(e, SymComplex):
            return SymComplex(SymReal(T.stopgrad(e.re.t)), SymReal(T.stopgrad(e.im.t)))
        return e

    return Tensor(_ew(f, a), x._dtype)


def where(condition, x=None, y=None, name=None):
    c = _arr(condition)
    if x is None and y is None:
        if c.dtype == object:
            c = _concretize(c, bool)
        return Tensor(np.argwhere(c).astype(np.int64), int64)
    ax, ay = _arr(x), _arr(y)
    dt = None
    if isinstance(x, Tensor):
        dt = x._dtype
    elif isinstance(y, Tensor):
        dt = y._dtype
    if isinstance(x, Tensor) and isinstance(y, Tensor) and x._dtype != y._dtype:
        raise TypeError("tf.where: x and y have different dtypes")
    if dt is not None:
        if not isinstance(x, Tensor):
            ax = _cast_arr(ax, dt)
        if not isinstance(y, Tensor):
            ay = _cast_arr(ay, dt)
    if c.dtype != object:
        if ax.dtype != object and ay.dtype != object:
            return Tensor(np.where(c, ax, ay), dt)
        return Tensor(_oa(np.where(c, ax.astype(object), ay.astype(object))), dt)

    def f(cc, a, b):
        if isinstance(cc, SymBool):
            kt = S.known_truth(cc.t)
            if kt is True:
                return a
            if kt is False:
                return b
            if isinstance(a, (SymComplex, _py_complex, np.complexfloating)) or isinstance(b, (SymComplex, _py_complex, np.complexfloating)):
                a, b = SymComplex._co(a), SymComplex._co(b)
                return SymComplex(
                    SymReal(T.ite(cc.t, a.re.t, b.re.t)), SymReal(T.ite(cc.t, a.im.t, b.im.t))
                )
            if isinstance(a, (SymBool, _py_bool, np.bool_)) and isinstance(b, (SymBool, _py_bool, np.bool_)):
                return SymBool(T.ite(cc.t, S.sbool(a).t, S.sbool(b).t))
            return SymReal(T.ite(cc.t, S.lift(a).t, S.lift(b).t))
        return a if cc else b

    return Tensor(_ew(f, c, ax, ay), dt)


def clip_by_value(t, clip_value_min, clip_value_max, name=None):
    return minimum(maximum(t, clip_value_min), clip_value_max)


# ------------------------------------------------------------------ shape ops


def shape(x, out_type=None, name=None):
    return Tensor(np.asarray(_arr(x).shape, dtype=np.int32), int32)


def size(x, name=None):
    return Tensor(np.asarray(_arr(x).size, dtype=np.int32), int32)


def rank(x, name=None):
    return Tensor(np.asarray(_arr(x).ndim, dtype=np.int32), int32)


def _dt_of(x, default=None):
    if isinstance(x, Tensor):
        return x._dtype
    return default


def _shape_arg(shape):
    if isinstance(shape, Tensor):
        shape = shape.numpy()
    if isinstance(shape, (int, np.integer)):
        return (int(shape),)
    return tuple(int(_index(s)) for s in shape)


def reshape(tensor, shape, name=None):
    x = _t(tensor)
    return Tensor(x.arr.reshape(_shape_arg(shape)), x._dtype)


def expand_dims(input, axis, name=None):
    x = _t(input)
    return Tensor(np.expand_dims(x.arr, int(axis)), x._dtype)


def squeeze(input, axis=None, name=None):
    x = _t(input)
    if axis is not None and not isinstance(axis, int):
        axis = tuple(axis)
    return Tensor(_oa(np.squeeze(x.arr, axis=axis)), x._dtype)


def transpose(a, perm=None, conjugate=False, name=None):
    x = _t(a)
    r = np.transpose(x.arr, None if perm is None else [int(p) for p in _index(perm)] if not isinstance(perm, (list, tuple)) else list(perm))
    t = Tensor(r, x._dtype)
    return conj(t) if conjugate else t


def tile(input, multiples, name=None):
    x = _t(input)
    return Tensor(np.tile(x.arr, _shape_arg(multiples)), x._dtype)


def _common_dtype(ts):
    dts = [t._dtype for t in ts if isinstance(t, Tensor)]
    if dts:
        for d in dts[1:]:
            if d != dts[0]:
                raise TypeError("Tensors in list have different dtypes: %s vs %s" % (dts[0].name, d.name))
        return dts[0]
    return None


def stack(values, axis=0, name=None):
    if isinstance(values, Tensor):
        values = list(values)
    dt = _common_dtype(values)
    parts = [_arr(v) if dt is None or isinstance(v, Tensor) else _cast_arr(_arr(v), dt) for v in values]
    shp = parts[0].shape
    for p in parts:
        if p.shape != shp:
            raise ValueError("Shapes of all inputs must match: %r vs %r" % (shp, p.shape))
    if any(p.dtype == object for p in parts):
        parts = [p.astype(object) if p.dtype != object else p for p in parts]
    return Tensor(np.stack(parts, axis=axis), dt)


def unstack(value, num=None, axis=0, name=None):
    x = _t(value)
    a = np.moveaxis(x.arr, axis, 0)
    return [Tensor(_oa(a[i]), x._dtype) for i in _py_range(a.shape[0])]


def concat(values, axis, name=None):
    dt = _common_dtype(values)
    parts = [_arr(v) if dt is None or isinstance(v, Tensor) else _cast_arr(_arr(v), dt) for v in values]
    if any(p.dtype == object for p in parts):
        parts = [p.astype(object) if p.dtype != object else p for p in parts]
    return Tensor(np.concatenate(parts, axis=int(axis)), dt)


def split(value, num_or_size_splits, axis=0, name=None):
    x = _t(value)
    if isinstance(num_or_size_splits, (int, np.integer)):
        parts = np.split(x.arr, num_or_size_splits, axis=axis)
    else:
        idx = np.cumsum(list(num_or_size_splits))[:-1]
        parts = np.split(x.arr, idx, axis=axis)
    return [Tensor(p, x._dtype) for p in parts]


def gather(params, indices, validate_indices=None, axis=None, batch_dims=0, name=None):
    x = _t(params)
    idx = _arr(indices)
    if idx.dtype == object:
        idx = _concretize(idx, int64)
        idx = np.asarray(idx)
    idx = np.asarray(idx).astype(np.int64)
    if axis is None:
        axis = 0
    n = x.arr.shape[axis]
    if idx.size and (idx.min() < 0 or idx.max() >= n):
        raise IndexError("tf.gather: index out of range [0, %d)" % n)
    return Tensor(np.take(x.arr, idx, axis=int(axis)), x._dtype)


def gather_nd(params, indices, batch_dims=0, name=None):
    x = _t(params)
    idx = np.asarray(_index(_t(indices))).astype(np.int64)
    k = idx.shape[-1]
    r = x.arr[tuple(idx[..., i] for i in _py_range(k))]
    return Tensor(_oa(r), x._dtype)


def scatter_nd(indices, updates, shape, name=None):
    idx = np.asarray(_index(_t(indices))).astype(np.int64)
    u = _t(updates)
    out = np.zeros(_shape_arg(shape), dtype=u.arr.dtype if u.arr.dtype != object else object)
    if out.dtype == object:
        out[...] = 0.0
    k = idx.shape[-1]
    flat_idx = idx.reshape(-1, k)
    flat_u = u.arr.reshape((flat_idx.shape[0],) + out.shape[k:])
    for i in _py_range(flat_idx.shape[0]):
        key = tuple(flat_idx[i])
        out[key] = out[key] + flat_u[i]
    return Tensor(out, u._dtype)


def pad(tensor, paddings, mode="CONSTANT", constant_values=0, name=None):
    x = _t(tensor)
    p = [tuple(int(v) for v in row) for row in np.asarray(_index(_t(paddings)) if isinstance(paddings, Tensor) else paddings)]
    if mode.upper() != "CONSTANT":
        raise OutOfEncoding("tf.pad mode %s" % mode)
    a = x.arr
    if a.dtype == object:
        shp = tuple(s + lo + hi for s, (lo, hi) in zip(a.shape, p))
        out = np.empty(shp, dtype=object)
        out[...] = _cast_scalar(constant_values, x._dtype) if not x._dtype.is_complex else 0j
        sl = tuple(slice(lo, lo + s) for s, (lo, hi) in zip(a.shape, p))
        out[sl] = a
        return Tensor(out, x._dtype)
    return Tensor(np.pad(a, p, mode="constant", constant_values=constant_values), x._dtype)


def boolean_mask(tensor, mask, axis=None, name=None):
    x = _t(tensor)
    m = _arr(mask)
    if m.dtype == object:
        m = np.asarray(_ew(lambda e: _py_bool(e), m), dtype=np.bool_)  # forks on symbolic masks
    m = np.asarray(m, dtype=np.bool_)
    axis = 0 if axis is None else int(axis)
    if axis == 0:
        return Tensor(x.arr[m], x._dtype)
    idx = (slice(None),) * axis + (m,)
    return Tensor(x.arr[idx], x._dtype)


def broadcast_to(input, shape, name=None):
    x = _t(input)
    return Tensor(np.broadcast_to(x.arr, _shape_arg(shape)), x._dtype)


def broadcast_static_shape(a, b):
    return TensorShape(np.broadcast_shapes(tuple(a), tuple(b)))


def range(start, limit=None, delta=1, dtype=None, name=None):
    f = lambda v: v if v is None else (_index(_t(v)) if isinstance(v, Tensor) else v)
    start, limit, delta = f(start), f(limit), f(delta)
    if limit is None:
        start, limit = 0, start
    a = np.arange(start, limit, delta)
    dt = as_dtype(dtype)
    if dt is None:
        dt = int32 if a.dtype.kind == "i" else float32
    return Tensor(a.astype(dt._np), dt)


def eye(num_rows, num_columns=None, batch_shape=None, dtype=float32, name=None):
    dt = as_dtype(dtype)
    return Tensor(np.eye(int(num_rows), None if num_columns is None else int(num_columns)).astype(dt._np), dt)


def zeros(shape, dtype=float32, name=None):
    dt = as_dtype(dtype)
    return Tensor(np.zeros(_shape_arg(shape), dtype=dt._np), dt)


def ones(shape, dtype=float32, name=None):
    dt = as_dtype(dtype)
    return Tensor(np.ones(_shape_arg(shape), dtype=dt._np), dt)


def fill(dims, value, name=None):
    v = _t(value)
    return Tensor(np.broadcast_to(v.arr, _shape_arg(dims)).copy(), v._dtype)


def zeros_like(input, dtype=None, name=None):
    x = _t(input)
    dt = as_dtype(dtype) or x._dtype
    return Tensor(np.zeros(x.arr.shape, dtype=dt._np), dt)


def ones_like(input, dtype=None, name=None):
    x = _t(input)
    dt = as_dtype(dtype) or x._dtype
    return Tensor(np.ones(x.arr.shape, dtype=dt._np), dt)


# ------------------------------------------------------------------ reductions


def _axis(axis):
    if axis is None:
        return None
    if isinstance(axis, Tensor):
        axis = axis.numpy()
    if isinstance(axis, (list, tuple, np.ndarray)):
        return tuple(int(a) for a in axis)
    return int(axis)


def _reduce_in(x):
    if isinstance(x, (list, tuple)):
        return stack([_t(e) for e in x]) if x and all(isinstance(e, Tensor) for e in x) else _t(x)
    return _t(x)


def _osum(a, axis, keepdims):
    """sum of an object array that keeps the left-to-right order and yields a
    proper zero for empty reductions"""
    if a.size == 0 or (axis is not None and any(a.shape[i] == 0 for i in (axis if isinstance(axis, tuple) else (axis,)))):
        shp = np.sum(np.zeros(a.shape), axis=axis, keepdims=keepdims).shape
        out = np.empty(shp, dtype=object)
        out[...] = 0.0
        return out
    return _oa(np.sum(a, axis=axis, keepdims=keepdims))


def reduce_sum(input_tensor, axis=None, keepdims=False, name=None):
    x = _reduce_in(input_tensor)
    a = x.arr
    ax = _axis(axis)
    if a.dtype == object:
        r = _osum(a, ax, keepdims)
    else:
        r = _oa(np.sum(a, axis=ax, keepdims=keepdims))
        if r.dtype != a.dtype and a.dtype != np.bool_:
            r = r.astype(a.dtype)
    return Tensor(r, x._dtype)


def reduce_mean(input_tensor, axis=None, keepdims=False, name=None):
    x = _reduce_in(input_tensor)
    a = x.arr
    ax = _axis(axis)
    if a.dtype == object:
        s = _osum(a, ax, keepdims)
        n = a.size // max(s.size, 1)
        r = _ew(lambda e: e / n, s)
    else:
        r = _oa(np.mean(a, axis=ax, keepdims=keepdims))
    return Tensor(r, x._dtype)


def reduce_prod(input_tensor, axis=None, keepdims=False, name=None):
    x = _reduce_in(input_tensor)
    r = _oa(np.prod(x.arr, axis=_axis(axis), keepdims=keepdims))
    return Tensor(r, x._dtype)


def _omax(a, axis, keepdims, pick):
    if axis is None:
        flat = a.reshape(-1)
        r = flat[0]
        for e in flat[1:]:
            r = pick(r, e)
        out = _oa(r)
        if keepdims:
            out = out.reshape((1,) * a.ndim)
        return out
    if isinstance(axis, tuple):
        out = a
        for k in sorted([ax % a.ndim for ax in axis], reverse=True):
            out = _omax(out, k, keepdims, pick)
        return out
    m = np.moveaxis(a, axis, 0)
    r = m[0]
    for i in _py_range(1, m.shape[0]):
        r = _ew(pick, _oa(r), _oa(m[i]))
    r = _oa(r)
    if keepdims:
        r = np.expand_dims(r, axis)
    return r


def _pick_max(a, b):
    if isinstance(a, SymReal) or isinstance(b, SymReal):
        return S.lift(a).maximum(b)
    return a if a >= b else b


def _pick_min(a, b):
    if isinstance(a, SymReal) or isinstance(b, SymReal):
        return S.lift(a).minimum(b)
    return a if a <= b else b


def reduce_max(input_tensor, axis=None, keepdims=False, name=None):
    x = _reduce_in(input_tensor)
    a = x.arr
    if a.dtype == object:
        return Tensor(_omax(a, _axis(axis), keepdims, _pick_max), x._dtype)
    return Tensor(_oa(np.max(a, axis=_axis(axis), keepdims=keepdims)), x._dtype)


def reduce_min(input_tensor, axis=None, keepdims=False, name=None):
    x = _reduce_in(input_tensor)
    a = x.arr
    if a.dtype == object:
        return Tensor(_omax(a, _axis(axis), keepdims, _pick_min), x._dtype)
    return Tensor(_oa(np.min(a, axis=_axis(axis), keepdims=keepdims)), x._dtype)


def reduce_any(input_tensor, axis=None, keepdims=False, name=None):
    x = _reduce_in(input_tensor)
    a = x.arr
    if a.dtype == object:
        return Tensor(_omax(a, _axis(axis), keepdims, lambda p, q: S.sbool(p) | S.sbool(q)), bool)
    return Tensor(_oa(np.any(a, axis=_axis(axis), keepdims=keepdims)), bool)


def reduce_all(input_tensor, axis=None, keepdims=False, name=None):
    x = _reduce_in(input_tensor)
    a = x.arr
    if a.dtype == object:
        return Tensor(_omax(a, _axis(axis), keepdims, lambda p, q: S.sbool(p) & S.sbool(q)), bool)
    return Tensor(_oa(np.all(a, axis=_axis(axis), keepdims=keepdims)), bool)


def cumsum(x, axis=0, exclusive=False, reverse=False, name=None):
    x = _t(x)
    if exclusive or reverse:
        raise OutOfEncoding("cumsum exclusive/reverse")
    return Tensor(np.cumsum(x.arr, axis=int(axis)), x._dtype)


def argmax(input, axis=None, output_type=int64, name=None):
    x = _t(input)
    if x.arr.dtype == object:
        raise OutOfEncoding("argmax of symbolic values")
    return Tensor(_oa(np.argmax(x.arr, axis=0 if axis is None else int(axis))), int64)


def argmin(input, axis=None, output_type=int64, name=None):
    x = _t(input)
    if x.arr.dtype == object:
        raise OutOfEncoding("argmin of symbolic values")
    return Tensor(_oa(np.argmin(x.arr, axis=0 if axis is None else int(axis))), int64)


def matmul(a, b, transpose_a=False, transpose_b=False, adjoint_a=False, adjoint_b=False, name=None):
    ta, tb = _t(a), _t(b)
    if ta._dtype != tb._dtype:
        raise TypeError("matmul: dtypes differ: %s vs %s" % (ta._dtype, tb._dtype))
    x, y = ta.arr, tb.arr
    if x.ndim < 2 or y.ndim < 2:
        raise ValueError("matmul: rank must be >= 2")
    if adjoint_a:
        x = _arr(conj(ta))
        transpose_a = True
    if adjoint_b:
        y = _arr(conj(tb))
        transpose_b = True
    if transpose_a:
        x = np.swapaxes(x, -1, -2)
    if transpose_b:
        y = np.swapaxes(y, -1, -2)
    if x.dtype == object or y.dtype == object:
        x = x.astype(object)
        y = y.astype(object)
        r = _omatmul(x, y)
    else:
        r = np.matmul(x, y)
    return Tensor(_oa(r), ta._dtype)


def _is_zero(e):
    if isinstance(e, SymReal):
        return e.t.op == "const" and e.t.args[0] == 0
    if isinstance(e, SymComplex):
        return _is_zero(e.re) and _is_zero(e.im)
    if isinstance(e, (SymBool,)):
        return False
    return e == 0


def _omatmul(x, y):
    """object matmul that skips structurally zero products (keeps DAGs small)"""
    bshape = np.broadcast_shapes(x.shape[:-2], y.shape[:-2])
    xb = np.broadcast_to(x, bshape + x.shape[-2:])
    yb = np.broadcast_to(y, bshape + y.shape[-2:])
    n, k = x.shape[-2], x.shape[-1]
    k2, m = y.shape[-2], y.shape[-1]
    if k != k2:
        raise ValueError("matmul: incompatible shapes %r %r" % (x.shape, y.shape))
    out = np.empty(bshape + (n, m), dtype=object)
    for idx in np.ndindex(*bshape):
        xm, ym = xb[idx], yb[idx]
        for i in _py_range(n):
            for j in _py_range(m):
                acc = None
                for l in _py_range(k):
                    p, q = xm[i, l], ym[l, j]
                    if _is_zero(p) or _is_zero(q):
                        continue
                    v = p * q
                    acc = v if acc is None else acc + v
                out[idx + (i, j)] = 0.0 if acc is None else acc
    return out


def tensordot(a, b, axes, name=None):
    ta, tb = _t(a), _t(b)
    return Tensor(_oa(np.tensordot(ta.arr, tb.arr, axes=axes)), ta._dtype)


def einsum(equation, *inputs, **kw):
    ts = [_t(i) for i in inputs]
    dt = _common_dtype(ts)
    arrs = [t.arr for t in ts]
    if any(a.dtype == object for a in arrs):
        r = _oeinsum(equation, [a.astype(object) for a in arrs])
    else:
        r = np.einsum(equation, *arrs)
    return Tensor(_oa(r), dt)


def _oeinsum(equation, arrs):
    """reference einsum on object arrays by explicit nested sums (explicit
    '->' form, single-letter indices and '...')"""
    eq = equation.replace(" ", "")
    if "->" in eq:
        lhs, out = eq.split("->")
    else:
        lhs = eq
        letters = [c for c in lhs.replace(",", "").replace(".", "")]
        out = "".join(sorted(c for c in set(letters) if letters.count(c) == 1))
        if "..." in lhs:
            out = "..." + out
    ins = lhs.split(",")
    if len(ins) != len(arrs):
        raise ValueError("einsum: operand count mismatch")
    # expand ellipsis to upper-case letters
    pool = [c for c in "ABCDEFGHIJKLMNOPQRSTUVWXYZ" if c not in eq]
    nell = 0
    for s, a in zip(ins, arrs):
        if "..." in s:
            nell = max(nell, a.ndim - (len(s) - 3))
    ell = "".join(pool[:nell])
    new_ins = []
    for s, a in zip(ins, arrs):
        if "..." in s:
            k = a.ndim - (len(s) - 3)
            s = s.replace("...", ell[nell - k :] if k else "")
        if len(s) != a.ndim:
            raise ValueError("einsum: subscript %r does not match rank %d" % (s, a.ndim))
        new_ins.append(s)
    out = out.replace("...", ell)
    dims = {}
    for s, a in zip(new_ins, arrs):
        for c, n in zip(s, a.shape):
            if c in dims and dims[c] != n:
                if dims[c] == 1:
                    dims[c] = n
                elif n != 1:
                    raise ValueError("einsum: size mismatch for index %s" % c)
            else:
                dims.setdefault(c, n)
    for c in out:
        if c not in dims:
            raise ValueError("einsum: output index %s not in inputs" % c)
    sum_idx = [c for c in dims if c not in out]
    res = np.empty(tuple(dims[c] for c in out), dtype=object)
    for oidx in np.ndindex(*res.shape):
        env = dict(zip(out, oidx))
        acc = None
        for sidx in np.ndindex(*[dims[c] for c in sum_idx]):
            env.update(zip(sum_idx, sidx))
            term = None
            zero = False
            for s, a in zip(new_ins, arrs):
                e = a[tuple(env[c] if a.shape[i] != 1 else 0 for i, c in enumerate(s))]
                if _is_zero(e):
                    zero = True
                    break
                term = e if term is None else term * e
            if zero:
                continue
            acc = term if acc is None else acc + term
        res[oidx] = 0.0 if acc is None else acc
    return res


def norm(tensor, ord="euclidean", axis=None, keepdims=None, name=None):
    x = _t(tensor)
    if ord not in ("euclidean", 2):
        raise OutOfEncoding("norm ord %r" % (ord,))
    sq = multiply(x, conj(x)) if x._dtype.is_complex else multiply(x, x)
    return sqrt(real(reduce_sum(sq, axis=axis, keepdims=_py_bool(keepdims))))


# ---------------------------------------------------------------- namespaces


def _polyval(coeffs, x, name=None):
    x = _t(x)
    if len(coeffs) == 0:
        return zeros_like(x)
    p = _t(coeffs[0])
    for c in coeffs[1:]:
        p = add(_t(c), multiply(p, x))
    return p


def _floormod(x, y, name=None):
    return _bin(lambda a, b: a % b, x, y)


math = types.SimpleNamespace(
    sqrt=sqrt, exp=exp, log=log, sin=sin, cos=cos, tan=tan, tanh=tanh, atan=atan, acos=acos, asin=asin,
    atan2=atan2, acosh=acosh, abs=abs, pow=pow, square=square, real=real, imag=imag, conj=conj, angle=angle,
    is_nan=is_nan, is_finite=is_finite, polyval=_polyval, reduce_prod=reduce_prod, reduce_sum=reduce_sum,
    reduce_mean=reduce_mean, reduce_max=reduce_max, reduce_min=reduce_min, reduce_any=reduce_any,
    reduce_all=reduce_all, maximum=maximum, minimum=minimum, floor=floor, sign=sign, cumsum=cumsum,
    add=add, subtract=subtract, multiply=multiply, divide=divide, truediv=divide, negative=negative,
    equal=equal, not_equal=not_equal, less=less, less_equal=less_equal, greater=greater,
    greater_equal=greater_equal, logical_and=logical_and, logical_or=logical_or, logical_not=logical_not,
    argmax=argmax, argmin=argmin, floormod=_floormod, mod=_floormod,
)


def _normalize(tensor, ord="euclidean", axis=None, name=None):
    x = _t(tensor)
    n = norm(x, ord=ord, axis=axis, keepdims=True)
    if x._dtype.is_complex:
        n = cast(n, x._dtype)
    return divide(x, n), n


def _cross(a, b, name=None):
    ta, tb = _t(a), _t(b)
    if ta._dtype != tb._dtype:
        raise TypeError("cross: dtypes differ")
    x, y = ta.arr, tb.arr
    if x.shape != y.shape:
        raise ValueError("cross: both tensors must have the same shape, got %r %r" % (x.shape, y.shape))
    if x.shape[-1] != 3:
        raise ValueError("cross: last dimension must be 3")
    x0, x1, x2 = x[..., 0], x[..., 1], x[..., 2]
    y0, y1, y2 = y[..., 0], y[..., 1], y[..., 2]
    r = np.stack([x1 * y2 - x2 * y1, x2 * y0 - x0 * y2, x0 * y1 - x1 * y0], axis=-1)
    return Tensor(r, ta._dtype)


def _inv(input, adjoint=False, name=None):
    x = _t(input)
    a = x.arr
    if a.dtype != object:
        return Tensor(np.linalg.inv(a), x._dtype)
    return Tensor(_oinv(a), x._dtype)


def _odet2(m):
    n = m.shape[0]
    if n == 1:
        return m[0, 0]
    if n == 2:
        return m[0, 0] * m[1, 1] - m[0, 1] * m[1, 0]
    acc = None
    for j in _py_range(n):
        if _is_zero(m[0, j]):
            continue
        minor = np.delete(np.delete(m, 0, axis=0), j, axis=1)
        v = m[0, j] * _odet2(minor)
        if j % 2:
            v = -v
        acc = v if acc is None else acc + v
    return 0.0 if acc is None else acc


def _oinv(a):
    """adjugate / determinant on object matrices (exact)"""
    bshape = a.shape[:-2]
    n = a.shape[-1]
    out = np.empty(a.shape, dtype=object)
    for idx in np.ndindex(*bshape):
        m = a[idx]
        det = _odet2(m)
        for i in _py_range(n):
            for j in _py_range(n):
                if n == 1:
                    cof = 1.0
                else:
                    minor = np.delete(np.delete(m, j, axis=0), i, axis=1)
                    cof = _odet2(minor)
                    if (i + j) % 2:
                        cof = -cof
                out[idx + (i, j)] = cof / det
    return out


def _det(input, name=None):
    x = _t(input)
    a = x.arr
    if a.dtype != object:
        return Tensor(_oa(np.linalg.det(a)), x._dtype)
    bshape = a.shape[:-2]
    out = np.empty(bshape, dtype=object)
    for idx in np.ndindex(*bshape):
        out[idx] = _odet2(a[idx])
    return Tensor(out, x._dtype)


def _matvec(a, b, transpose_a=False, adjoint_a=False, name=None):
    tb = _t(b)
    r = matmul(a, expand_dims(tb, -1), transpose_a=transpose_a, adjoint_a=adjoint_a)
    return Tensor(r.arr[..., 0], r._dtype)


def _tensor_diag_part(input, name=None):
    x = _t(input)
    a = x.arr
    k = a.ndim // 2
    shp = a.shape[:k]
    n = int(np.prod(shp))
    m = a.reshape(n, n)
    return Tensor(np.diagonal(m).reshape(shp).copy(), x._dtype)


def _diag_part(input, name=None, k=0):
    x = _t(input)
    return Tensor(np.diagonal(x.arr, offset=k, axis1=-2, axis2=-1).copy(), x._dtype)


def _diag(diagonal, name=None, k=0):
    x = _t(diagonal)
    a = x.arr
    n = a.shape[-1]
    out = np.zeros(a.shape + (n,), dtype=a.dtype)
    if a.dtype == object:
        out[...] = 0.0
    for i in _py_range(n):
        out[..., i, i] = a[..., i]
    return Tensor(out, x._dtype)


linalg = types.SimpleNamespace(
    normalize=_normalize, cross=_cross, inv=_inv, det=_det, matvec=_matvec, matmul=matmul,
    tensor_diag_part=_tensor_diag_part, diag_part=_diag_part, diag=_diag, norm=norm, einsum=einsum,
    eye=eye, matrix_transpose=lambda a, name=None: Tensor(np.swapaxes(_t(a).arr, -1, -2), _t(a)._dtype),
    tensordot=tensordot,
)


def _fresh_random(shape, lo, hi, dt, kind):
    shp = _shape_arg(shape) if not isinstance(shape, tuple) else shape
    if not STATE.symbolic_random:
        if kind == "uniform":
            a = STATE.rng.uniform(float(_scalar_of(lo)), float(_scalar_of(hi)), size=shp)
        else:
            a = STATE.rng.normal(float(_scalar_of(lo)), float(_scalar_of(hi)), size=shp)
        return Tensor(a.astype(dt._np), dt)
    out = np.empty(shp, dtype=object)
    lo_t = S.as_term(_sym_scalar(lo))
    hi_t = S.as_term(_sym_scalar(hi))
    for idx in np.ndindex(*shp):
        STATE.random_counter += 1
        v = T.var("rnd_%d" % STATE.random_counter)
        if kind == "uniform":
            # r in [0,1); value = lo + (hi-lo) r   (what tf.random.uniform computes)
            S.ctx().fact(T.le(T.ZERO, v))
            S.ctx().fact(T.lt(v, T.ONE))
            val = T.add(lo_t, T.mul(T.sub(hi_t, lo_t), v))
        else:
            val = T.add(lo_t, T.mul(hi_t, v))
        STATE.random_log.append(v)
        out[idx] = SymReal(val)
    return Tensor(out, dt)


def _scalar_of(x):
    if isinstance(x, Tensor):
        return x._scalar()
    return x


def _sym_scalar(x):
    x = _scalar_of(x)
    if isinstance(x, SymReal):
        return x
    return SymReal(T.const(float(x), "R"))


def _uniform(shape, minval=0, maxval=None, dtype=float32, seed=None, name=None):
    dt = as_dtype(dtype)
    if maxval is None:
        maxval = 1
    return _fresh_random(shape, minval, maxval, dt, "uniform")


def _normal(shape, mean=0.0, stddev=1.0, dtype=float32, seed=None, name=None):
    return _fresh_random(shape, mean, stddev, as_dtype(dtype), "normal")


def _set_seed(seed):
    STATE.rng = np.random.RandomState(seed)


random = types.SimpleNamespace(uniform=_uniform, normal=_normal, set_seed=_set_seed)


def _map_structure(func, *structures, **kw):
    s0 = structures[0]
    if isinstance(s0, dict):
        return type(s0)((k, _map_structure(func, *[s[k] for s in structures])) for k in s0)
    if isinstance(s0, (list, tuple)) and not hasattr(s0, "_fields"):
        return type(s0)(_map_structure(func, *parts) for parts in zip(*structures))
    if isinstance(s0, tuple):
        return type(s0)(*[_map_structure(func, *parts) for parts in zip(*structures)])
    return func(*structures)


def _flatten(s):
    if isinstance(s, dict):
        out = []
        for k in sorted(s):
            out.extend(_flatten(s[k]))
        return out
    if isinstance(s, (list, tuple)):
        out = []
        for e in s:
            out.extend(_flatten(e))
        return out
    return [s]


nest = types.SimpleNamespace(map_structure=_map_structure, flatten=_flatten)


def function(func=None, **kw):
    if func is None:
        return lambda f: f
    return func


def custom_gradient(f):
    def wrapped(*a, **k):
        y, _grad = f(*a, **k)
        return y

    return wrapped


def numpy_function(func, inp, Tout, name=None):
    raise OutOfEncoding("tf.numpy_function")


def py_function(func, inp, Tout, name=None):
    raise OutOfEncoding("tf.py_function")


def _bucketize(input, boundaries, name=None):
    x = _t(input)
    a = x.arr
    b = np.asarray(boundaries, dtype=float)
    if a.dtype != object:
        return Tensor(np.searchsorted(b, a, side="right").astype(np.int32), int32)

    def f(e):
        k = 0
        for v in b:
            if e >= v:
                k += 1
        return k

    return Tensor(np.asarray(_ew(f, a), dtype=np.int32), int32)


raw_ops = types.SimpleNamespace(Bucketize=_bucketize)


def histogram_fixed_width_bins(values, value_range, nbins=100, dtype=int32, name=None):
    v = _t(values)
    if v.arr.dtype == object:
        raise OutOfEncoding("histogram_fixed_width_bins of symbolic values")
    lo, hi = [float(_scalar_of(_t(e))) for e in value_range]
    idx = np.floor((v.arr - lo) / (hi - lo) * nbins).astype(np.int32)
    return Tensor(np.clip(idx, 0, nbins - 1), int32)


class _NoData:
    AUTOTUNE = -1

    def __getattr__(self, k):
        raise OutOfEncoding("tf.data.%s is outside the encoding" % k)


data = _NoData()


class _Raise:
    def __init__(self, name):
        self._n = name

    def __getattr__(self, k):
        raise OutOfEncoding("tf.%s.%s is outside the encoding" % (self._n, k))


saved_model = _Raise("saved_model")
distribute = _Raise("distribute")

config = types.SimpleNamespace(
    experimental=types.SimpleNamespace(
        list_physical_devices=lambda *a, **k: [],
        list_logical_devices=lambda *a, **k: [],
        set_memory_growth=lambda *a, **k: None,
    ),
    list_physical_devices=lambda *a, **k: [],
    run_functions_eagerly=lambda *a, **k: None,
    threading=types.SimpleNamespace(
        set_inter_op_parallelism_threads=lambda *a: None, set_intra_op_parallelism_threads=lambda *a: None
    ),
)
keras = types.SimpleNamespace(backend=types.SimpleNamespace(set_floatx=lambda *a: None, floatx=lambda: "float64"))
autograph = types.SimpleNamespace(experimental=types.SimpleNamespace(do_not_convert=lambda f=None: f if f is not None else (lambda g: g)))
errors = types.SimpleNamespace(InvalidArgumentError=ValueError, OpError=Exception)


def executing_eagerly():
    return True


def is_tensor(x):
    return isinstance(x, Tensor)


def device(name):
    import contextlib

    return contextlib.nullcontext()


def name_scope(name):
    import contextlib

    return contextlib.nullcontext()


def print(*a, **k):  # tf.print
    pass


# ------------------------------------------------------------------- autodiff
from .autodiff import ForwardAccumulator, GradientTape  # noqa: E402

UnconnectedGradients = types.SimpleNamespace(NONE="none", ZERO="zero")


# ------------------------------------------------------------------ installing


def install():
    """Make ``import tensorflow`` resolve to this package."""
    me = sys.modules[__name__]
    for k in [k for k in sys.modules if k == "tensorflow" or k.startswith("tensorflow.")]:
        del sys.modules[k]
    sys.modules["tensorflow"] = me

    def sub(name, **attrs):
        m = types.ModuleType(name)
        m.__dict__.update(attrs)
        sys.modules[name] = m
        return m

    fp = sub("tensorflow.python.eager.forwardprop", ForwardAccumulator=ForwardAccumulator)
    eager = sub("tensorflow.python.eager", forwardprop=fp)
    py = sub("tensorflow.python", eager=eager)
    me.python = py
    v2 = sub("tensorflow.compat.v2")
    v2.__dict__.update({k: v for k, v in me.__dict__.items() if not k.startswith("__")})
    v1 = sub("tensorflow.compat.v1", enable_eager_execution=lambda *a, **k: None)
    compat_m = sub("tensorflow.compat", v1=v1, v2=v2)
    me.compat = compat_m
    return me
