"""Shared driver for the per-property harnesses.

A property module (props/Cxx.py) defines

    PID, LEVEL ('other' | 'model_checking' | 'fault_enumeration'), EXPLANATION
    FUNCTIONS   : list of 'relative/file.py:qualified.name' encoded
    ASSUMPTIONS : list of strings (stubs, trusted lemmas)
    def jobs(tier, seed) -> list of picklable job tuples ('name', args...)
    def run_job(job) -> list of Record dicts     (executed in a worker process)
    def conformance(tf_is_real) -> {label: nested lists}   (optional)
    def replay(payload) -> dict                  (executed under REAL tensorflow)

run_job uses ``Session`` to pose obligations.
"""
from __future__ import annotations

import hashlib
import importlib
import json
import multiprocessing as mp
import os
import subprocess
import sys
import time
import traceback
from fractions import Fraction

VERIF = os.path.dirname(os.path.dirname(os.path.abspath(__file__)))
REPO = os.environ.get("TF_PWA_REPO", "/repo")
REAL_PY = "/venv/bin/python"

EXIT_OK, EXIT_VIOLATION, EXIT_INCONCLUSIVE, EXIT_HARNESS = 0, 1, 2, 3


def _jsonable(x):
    import numpy as np

    if isinstance(x, Fraction):
        return float(x)
    if isinstance(x, (np.floating, np.integer)):
        return x.item()
    if isinstance(x, np.ndarray):
        return x.tolist()
    if isinstance(x, complex):
        return [x.real, x.imag]
    if isinstance(x, dict):
        return {str(k): _jsonable(v) for k, v in x.items()}
    if isinstance(x, (list, tuple)):
        return [_jsonable(v) for v in x]
    if isinstance(x, (str, int, float, bool)) or x is None:
        return x
    return repr(x)


class Session:
    """Collects obligation records inside a worker."""

    def __init__(self, job):
        self.job = job
        self.records = []

    def _rec(self, **kw):
        kw.setdefault("job", _jsonable(self.job))
        self.records.append(kw)
        return kw

    def prove(self, name, assumptions, neg_goal, timeout=30.0, key=None, payload=None, describe=None, want_smt2=False, split=True, ackermann=True, presample=0):
        """Obligation: assumptions /\\ neg_goal must be unsat.
        payload(model) -> jsonable dict handed to the property's replay() when sat.
        presample: number of random assignments tried first; a counterexample found by evaluation is a
        model like any other (it is replayed on the real code); unsat answers always come from the solver."""
        from . import lower

        if presample:
            m = None
            try:
                m = _random_witness(list(assumptions) + [neg_goal], tries=presample, want_model=True, robust_ne=True)
            except Exception:
                m = None
            if m:
                rec = self._rec(kind="obligation", name=name, key=key or name, status="sat", seconds=0.0, describe=describe, how="counterexample found by evaluation")
                rec["model"] = _jsonable(m)
                if payload is not None:
                    try:
                        rec["payload"] = _jsonable(payload(m))
                    except Exception as e:
                        rec["payload_error"] = "%s: %s" % (type(e).__name__, e)
                return rec
        try:
            if not ackermann:
                # first without congruence constraints for uninterpreted applications
                # (fewer constraints: an unsat answer is still valid); retry with them otherwise
                r0 = lower.solve(list(assumptions) + [neg_goal], timeout, want_smt2=want_smt2, ackermann=False)
                if r0.status == "unsat":
                    rec = self._rec(kind="obligation", name=name, key=key or name, status="unsat", seconds=round(r0.seconds, 4), describe=describe)
                    if want_smt2 and r0.smt2:
                        rec["smt2"] = r0.smt2
                    return rec
            if neg_goal.op == "or" and split:
                # a disjunctive negated goal is decided disjunct by disjunct
                # (each is a single polynomial (in)equality: much easier for nlsat)
                r = None
                tot = 0.0
                for g in neg_goal.args:
                    ri = lower.solve(list(assumptions) + [g], timeout, want_smt2=want_smt2)
                    tot += ri.seconds
                    if ri.status == "sat":
                        r = ri
                        break
                    if ri.status == "unknown" or r is None:
                        if r is None or r.status == "unsat":
                            r = ri
                r.seconds = tot
            else:
                r = lower.solve(list(assumptions) + [neg_goal], timeout, want_smt2=want_smt2)
        except Exception as e:  # encoding problem
            return self._rec(kind="obligation", name=name, status="error", error="%s: %s" % (type(e).__name__, e), key=key or name)
        rec = self._rec(
            kind="obligation",
            name=name,
            key=key or name,
            status=r.status,
            seconds=round(r.seconds, 4),
            describe=describe,
        )
        if want_smt2 and r.smt2:
            rec["smt2"] = r.smt2
        if r.status == "sat":
            rec["model"] = _jsonable(r.model)
            if payload is not None:
                try:
                    rec["payload"] = _jsonable(payload(r.model))
                except Exception as e:
                    rec["payload_error"] = "%s: %s" % (type(e).__name__, e)
        if r.status == "unknown":
            rec["reason"] = r.reason
        return rec

    def witness(self, name, assertions, timeout=30.0):
        """Vacuity guard: the assertions must be satisfiable."""
        from . import lower

        r = lower.solve(list(assertions), timeout)
        status, how = r.status, "solver"
        if status == "unknown" and _random_witness(list(assertions)):
            # a satisfying assignment found by evaluation is as good a witness
            status, how = "sat", "evaluation"
        return self._rec(kind="witness", name=name, status=status, seconds=round(r.seconds, 4), how=how)

    def mutant(self, name, assumptions, neg_goal, timeout=30.0):
        """A deliberately wrong oracle: must come back sat."""
        from . import lower

        r = lower.solve(list(assumptions) + [neg_goal], min(timeout, 20.0))
        status = r.status
        how = "solver"
        if status == "unknown":
            # a satisfying assignment found by evaluation is as good a witness
            if _random_witness(list(assumptions) + [neg_goal]):
                status, how = "sat", "evaluation"
        return self._rec(kind="mutant", name=name, status=status, seconds=round(r.seconds, 4), how=how)

    def concrete(self, name, ok, key=None, payload=None, describe=None):
        """A finite, concretely evaluated comparison (reported as such)."""
        rec = self._rec(kind="concrete", name=name, key=key or name, status="unsat" if ok else "sat", describe=describe)
        if not ok and payload is not None:
            rec["payload"] = _jsonable(payload)
        return rec

    def attempt(self, name, fn, key=None, payload=None, describe=None):
        """Run a piece of the code under analysis; an exception raised by the
        code itself (not an encoding limit) is a counterexample candidate that
        the replay must confirm on the real code."""
        from .scalar import OutOfEncoding

        try:
            return True, fn()
        except OutOfEncoding:
            raise
        except Exception as e:
            rec = self._rec(kind="obligation", name=name, key=key or name, status="sat", describe=describe,
                            raised="%s: %s" % (type(e).__name__, str(e)[:300]), seconds=0.0)
            if payload is not None:
                rec["payload"] = _jsonable(dict(payload, expect_raise=True))
            return False, None

    def note(self, **kw):
        return self._rec(kind="note", **kw)

    def outside(self, name, reason):
        return self._rec(kind="outside", name=name, reason=reason)


def _robust_truth(t, env, fns):
    """truth of a boolean term under float evaluation where a disequality counts only when the two sides
    differ by more than rounding (relative 1e-6): used when looking for counterexamples by evaluation"""
    from . import term as T

    if t.op == "not" and t.args[0].op == "cmp" and t.args[0].args[0] == "==" and t.args[0].args[1].sort != "B":
        l, r = T.evaluate([t.args[0].args[1], t.args[0].args[2]], env, ufs=fns)
        l, r = float(l), float(r)
        return abs(l - r) > 1e-6 * (abs(l) + abs(r)) + 1e-12
    if t.op == "or":
        return any(_robust_truth(a, env, fns) for a in t.args)
    if t.op == "and":
        return all(_robust_truth(a, env, fns) for a in t.args)
    return bool(T.evaluate(t, env, ufs=fns))


def _random_witness(assertions, tries=200, seed=1, want_model=False, robust_ne=False):
    """try to satisfy the conjunction by random rational assignments
    (uninterpreted applications get independent random values);
    want_model: return {variable name: value} (None when nothing was found)"""
    import random

    from . import term as T

    rnd = random.Random(seed)
    terms = T.postorder(assertions)
    vs = [t for t in terms if t.op == "var"]
    ufs = {}
    for t in terms:
        if t.op == "uf":
            ufs.setdefault(t.args[0], None)
    for _ in range(tries):
        env = {}
        for v in vs:
            if v.sort == "B":
                env[v] = rnd.random() < 0.5
            elif v.sort == "I":
                env[v] = rnd.randint(-3, 6)
            else:
                env[v] = rnd.choice([rnd.uniform(0.1, 2.0), rnd.uniform(-2.0, 2.0)])
        table = {}

        def mk(name):
            def f(*a):
                key = (name,) + tuple(round(float(x), 12) for x in a)
                if key not in table:
                    table[key] = rnd.uniform(0.2, 2.0)
                return table[key]

            return f

        fns = {n: mk(n) for n in ufs}
        import math as _m

        fns.update({"log": lambda x: _m.log(x) if x > 0 else 0.0, "exp": lambda x: _m.exp(min(x, 50)), "sin": _m.sin, "cos": _m.cos, "tan": _m.tan, "tanh": _m.tanh, "arctan": _m.atan})
        try:
            # defining equalities  var == term  are satisfied by construction
            for _round in range(3):
                for a in assertions:
                    eqs = a.args if a.op == "and" else (a,)
                    for e in eqs:
                        if e.op == "cmp" and e.args[0] == "==":
                            l, r = e.args[1], e.args[2]
                            if l.op == "var" and l.sort != "B":
                                env[l] = T.evaluate(r, env, ufs=fns)
                            elif r.op == "var" and r.sort != "B":
                                env[r] = T.evaluate(l, env, ufs=fns)
            vals = T.evaluate(list(assertions), env, ufs=fns)
            if robust_ne:
                vals = list(vals)
                for k, a in enumerate(assertions):
                    if vals[k] and a.op in ("not", "or", "and"):
                        vals[k] = _robust_truth(a, env, fns)
            # equalities between float-evaluated sides: up to rounding
            for k, a in enumerate(assertions):
                if not vals[k] and a.op == "cmp" and a.args[0] == "==" and a.args[1].sort != "B":
                    l, r = T.evaluate([a.args[1], a.args[2]], env, ufs=fns)
                    vals[k] = abs(float(l) - float(r)) <= 1e-9 * (1 + abs(float(l)))
        except Exception:
            continue
        if all(bool(x) for x in vals):
            if want_model:
                return {v.args[0]: (bool(x) if v.sort == "B" else float(x)) for v, x in env.items() if hasattr(v, "args")}
            return True
    return None if want_model else False


# ------------------------------------------------------------------ worker side


def _worker_init(pid, repo):
    sys.path.insert(0, VERIF)
    if repo not in sys.path:
        sys.path.insert(0, repo)
    import warnings

    warnings.filterwarnings("ignore")
    from symx import symtf

    symtf.install()


class JobTimeout(BaseException):
    pass


def _alarm(signum, frame):
    raise JobTimeout("job exceeded its wall-clock budget")


def _worker_run(args):
    pid, job = args
    t0 = time.time()
    import signal

    budget = int(os.environ.get("VERIF_JOB_BUDGET", "1500"))
    try:
        import resource

        lim = int(os.environ.get("VERIF_JOB_MEM_GB", "8")) * 2**30
        resource.setrlimit(resource.RLIMIT_AS, (lim, lim))
    except Exception:
        pass
    signal.signal(signal.SIGALRM, _alarm)
    signal.alarm(budget)
    try:
        mod = importlib.import_module("props." + pid)
        from symx import lower, scalar, term

        term.reset()
        scalar.new_context()
        recs = mod.run_job(job)
        signal.alarm(0)
        return {"job": _jsonable(job), "records": recs, "seconds": time.time() - t0}
    except BaseException as e:
        signal.alarm(0)
        return {
            "job": _jsonable(job),
            "records": [
                {
                    "kind": "obligation",
                    "name": "job:%s" % (job,),
                    "key": "job:%s" % (job[0],),
                    "status": "error",
                    "error": "%s: %s" % (type(e).__name__, e),
                    "trace": traceback.format_exc()[-3000:],
                    "job": _jsonable(job),
                }
            ],
            "seconds": time.time() - t0,
        }


def _worker_loop(conn, pid, repo):
    try:
        import ctypes

        ctypes.CDLL("libc.so.6").prctl(1, 9)  # die with the parent
    except Exception:
        pass
    # the code under analysis prints progress messages: keep stdout for verdict lines only
    try:
        devnull = open(os.devnull, "w")
        os.dup2(devnull.fileno(), 1)
    except Exception:
        pass
    _worker_init(pid, repo)
    while True:
        try:
            msg = conn.recv()
        except EOFError:
            return
        if msg is None:
            return
        kind, payload = msg
        if kind == "job":
            conn.send(("job", _worker_run((pid, payload))))
        elif kind == "conf":
            try:
                conn.send(("conf", _symtf_conformance(payload)))
            except BaseException as e:
                conn.send(("conf_err", "%s: %s\n%s" % (type(e).__name__, e, traceback.format_exc()[-1500:])))


def _run_pool(pid, jobs, nproc, has_conf, tier):
    """process pool with a hard per-job wall-clock limit (a worker stuck inside
    a solver call is killed and its job reported as undecided)"""
    from multiprocessing.connection import wait

    ctx = mp.get_context("spawn")
    hard = int(os.environ.get("VERIF_JOB_HARD", "2400"))
    pending = list(jobs)[::-1]
    todo_conf = has_conf
    workers = []
    results = []
    conf_symtf, conf_err = None, None

    def spawn():
        a, b = ctx.Pipe()
        p = ctx.Process(target=_worker_loop, args=(b, pid, REPO), daemon=True)
        p.start()
        b.close()
        return {"proc": p, "conn": a, "job": None, "t0": None}

    n = max(1, min(nproc, len(jobs) + (1 if has_conf else 0)))
    workers = [spawn() for _ in range(n)]
    outstanding = 0
    while True:
        for w in workers:
            if w["job"] is None and w["proc"].is_alive():
                if todo_conf:
                    w["conn"].send(("conf", (pid, tier)))
                    w["job"] = ("__conformance__",)
                    w["t0"] = time.time()
                    todo_conf = False
                    outstanding += 1
                elif pending:
                    j = pending.pop()
                    w["conn"].send(("job", j))
                    w["job"] = j
                    w["t0"] = time.time()
                    outstanding += 1
        if outstanding == 0:
            break
        ready = wait([w["conn"] for w in workers if w["job"] is not None], timeout=2.0)
        for w in workers:
            if w["job"] is None:
                continue
            if w["conn"] in ready:
                try:
                    kind, payload = w["conn"].recv()
                except (EOFError, OSError):
                    kind, payload = "dead", None
                job = w["job"]
                w["job"] = None
                outstanding -= 1
                if kind == "job":
                    results.append(payload)
                elif kind in ("conf", "conf_err"):
                    if kind == "conf":
                        conf_symtf = payload
                    else:
                        conf_err = "symtf conformance run failed: " + payload
                    # the conformance run executes the replay-side code of the property under symtf and may leave
                    # module state behind (float-mode patches): its process is retired, symbolic jobs get a fresh one
                    try:
                        w["conn"].send(None)
                    except Exception:
                        pass
                    idx = workers.index(w)
                    workers[idx] = spawn()
                else:
                    if job == ("__conformance__",):
                        conf_err = "symtf conformance worker died"
                    else:
                        results.append(_lost_job(job, "worker process died (memory limit or crash)"))
                    w["proc"].kill()
                    idx = workers.index(w)
                    workers[idx] = spawn()
            elif time.time() - w["t0"] > hard:
                job = w["job"]
                w["proc"].kill()
                outstanding -= 1
                if job == ("__conformance__",):
                    conf_err = "symtf conformance run exceeded %d s" % hard
                else:
                    results.append(_lost_job(job, "job killed after %d s (solver call did not return)" % hard))
                idx = workers.index(w)
                workers[idx] = spawn()
    for w in workers:
        try:
            w["conn"].send(None)
        except Exception:
            pass
    for w in workers:
        w["proc"].join(timeout=2)
        if w["proc"].is_alive():
            w["proc"].kill()
    return results, conf_symtf, conf_err


def _lost_job(job, why):
    return {
        "job": _jsonable(job),
        "records": [{"kind": "obligation", "name": "job:%s" % (job,), "key": "job:%s" % (job[0],), "status": "unknown", "reason": why, "job": _jsonable(job), "seconds": 0}],
        "seconds": 0,
    }


# -------------------------------------------------------------------- replays


def run_real(pid, func, payload, timeout=600):
    """Run props.<pid>.<func>(payload) under the real TensorFlow interpreter."""
    code = (
        "import sys, json, warnings\n"
        "warnings.filterwarnings('ignore')\n"
        "import os\nos.environ['TF_CPP_MIN_LOG_LEVEL']='3'\n"
        "sys.path.insert(0, %r); sys.path.insert(0, %r)\n"
        "import importlib\n"
        "m = importlib.import_module('props.%s_real')\n"
        "payload = json.load(sys.stdin)\n"
        "out = getattr(m, %r)(payload)\n"
        "sys.stdout.write('\\n@@RESULT@@' + json.dumps(out))\n"
    ) % (REPO, VERIF, pid, func)
    env = dict(os.environ)
    env["TF_CPP_MIN_LOG_LEVEL"] = "3"
    env["CUDA_VISIBLE_DEVICES"] = ""
    env.pop("PYTHONPATH", None)
    p = subprocess.run(
        [REAL_PY, "-c", code], input=json.dumps(_jsonable(payload)), capture_output=True, text=True, timeout=timeout, env=env, cwd="/"
    )
    if "@@RESULT@@" not in p.stdout:
        raise RuntimeError("real-code run failed (%s.%s): %s" % (pid, func, (p.stderr or p.stdout)[-2000:]))
    return json.loads(p.stdout.split("@@RESULT@@", 1)[1])


def _start_real_conformance(pid, tier):
    code = (
        "import sys, json, warnings\n"
        "warnings.filterwarnings('ignore')\n"
        "sys.path.insert(0, %r); sys.path.insert(0, %r)\n"
        "import importlib\n"
        "m = importlib.import_module('props.%s_real')\n"
        "out = m.conformance(%r)\n"
        "sys.stdout.write('\\n@@RESULT@@' + json.dumps(out))\n"
    ) % (REPO, VERIF, pid, tier)
    env = dict(os.environ)
    env["TF_CPP_MIN_LOG_LEVEL"] = "3"
    env["CUDA_VISIBLE_DEVICES"] = ""
    env.pop("PYTHONPATH", None)
    return subprocess.Popen([REAL_PY, "-c", code], stdout=subprocess.PIPE, stderr=subprocess.PIPE, text=True, env=env, cwd="/")


def _symtf_conformance(args):
    pid, tier = args
    mod = importlib.import_module("props.%s_real" % pid)
    return _jsonable(mod.conformance(tier))


def _compare(a, b, path, tol, out):
    if isinstance(a, dict) and isinstance(b, dict):
        for k in a:
            if k not in b:
                out["bad"].append("%s/%s missing" % (path, k))
            else:
                _compare(a[k], b[k], path + "/" + str(k), tol, out)
        return
    if isinstance(a, list) and isinstance(b, list):
        if len(a) != len(b):
            out["bad"].append("%s: length %d vs %d" % (path, len(a), len(b)))
            return
        for i, (x, y) in enumerate(zip(a, b)):
            _compare(x, y, "%s[%d]" % (path, i), tol, out)
        return
    if isinstance(a, (int, float)) and isinstance(b, (int, float)) and not isinstance(a, bool):
        out["n"] += 1
        if a != a and b != b:
            return
        if abs(a - b) > tol * max(1.0, abs(a), abs(b)):
            out["bad"].append("%s: %r vs %r" % (path, a, b))
        return
    out["n"] += 1
    if a != b:
        out["bad"].append("%s: %r vs %r" % (path, a, b))


# ----------------------------------------------------------------------- main


def source_hashes(functions):
    out = {}
    for f in functions:
        path = f.split(":")[0]
        full = os.path.join(REPO, path)
        if path in out:
            continue
        try:
            out[path] = hashlib.sha256(open(full, "rb").read()).hexdigest()[:16]
        except OSError:
            out[path] = "missing"
    return out


def load_known():
    p = os.path.join(VERIF, "known_findings.json")
    if not os.path.exists(p):
        return []
    return json.load(open(p)).get("findings", [])


def main(argv=None):
    import argparse

    ap = argparse.ArgumentParser()
    ap.add_argument("pid")
    ap.add_argument("--tier", default=os.environ.get("VERIF_TIER", "quick"), choices=["quick", "thorough"])
    ap.add_argument("--replay", default=None)
    ap.add_argument("--jobs", type=int, default=int(os.environ.get("VERIF_JOBS", "0")) or min(16, os.cpu_count() or 4))
    ap.add_argument("--only", default=None, help="substring filter on job names (debug)")
    ap.add_argument("--no-conformance", action="store_true")
    args = ap.parse_args(argv)
    pid = args.pid
    seed = int(os.environ.get("VERIF_SEED", "0") or 0)
    sys.path.insert(0, VERIF)
    if REPO not in sys.path:
        sys.path.insert(0, REPO)
    mod = importlib.import_module("props." + pid)

    if args.replay:
        payload = json.load(open(args.replay))
        res = run_real(pid, "replay", payload["payload"])
        print(json.dumps(res, indent=1))
        if res.get("reproduced"):
            print("VIOLATION property=%s replay=%s" % (pid, args.replay))
            return EXIT_VIOLATION
        print("not reproduced")
        return EXIT_OK

    t0 = time.time()
    jobs = mod.jobs(args.tier, seed)
    if args.only:
        jobs = [j for j in jobs if args.only in str(j)]
    conf_proc = None
    has_conf = os.path.exists(os.path.join(VERIF, "props", pid + "_real.py")) and not args.no_conformance
    if has_conf:
        conf_proc = _start_real_conformance(pid, args.tier)

    results, conf_symtf, conf_err = _run_pool(pid, jobs, args.jobs, has_conf, args.tier)

    records = [r for res in results for r in res["records"]]

    # ---- conformance: the substitute tensorflow against the real one
    conf = {"n": 0, "bad": []}
    if has_conf:
        out, err = conf_proc.communicate(timeout=1800)
        if "@@RESULT@@" not in out:
            conf_err = (conf_err or "") + " real conformance run failed: " + (err or out)[-1500:]
        elif conf_symtf is not None:
            real = json.loads(out.split("@@RESULT@@", 1)[1])
            _compare(real, conf_symtf, "", 1e-9, conf)

    obligations = [r for r in records if r["kind"] in ("obligation", "concrete")]
    sat = [r for r in obligations if r["status"] == "sat"]
    unknown = [r for r in obligations if r["status"] == "unknown"]
    errors = [r for r in obligations if r["status"] == "error"]
    discharged = [r for r in obligations if r["status"] == "unsat"]
    witnesses = [r for r in records if r["kind"] == "witness"]
    mutants = [r for r in records if r["kind"] == "mutant"]
    bad_wit = [r for r in witnesses if r["status"] != "sat"]
    bad_mut = [r for r in mutants if r["status"] != "sat"]
    outside = [r for r in records if r["kind"] == "outside"]

    # ---- every model is replayed on the real code before it is believed
    known = [k for k in load_known() if k.get("property") == pid and k.get("status", "open") == "open"]
    violations = []
    known_hits = []
    not_reproduced = []
    os.makedirs(os.path.join(VERIF, "replays"), exist_ok=True)
    replay_cache = {}
    for r in sat:
        key = r.get("key")
        ckey = json.dumps([key, r.get("payload")], sort_keys=True, default=str)
        if ckey in replay_cache:
            rep = replay_cache[ckey]
        else:
            if "payload" not in r:
                rep = {"reproduced": False, "error": r.get("payload_error", "no payload")}
            else:
                try:
                    rep = run_real(pid, "replay", r["payload"])
                except Exception as e:
                    rep = {"reproduced": False, "error": str(e)[-800:]}
            replay_cache[ckey] = rep
        r["replay"] = rep
        if rep.get("reproduced"):
            k = next((k for k in known if k["key"] == key), None)
            if k is not None:
                known_hits.append((k, r))
            else:
                path = os.path.join(VERIF, "replays", "%s_%s.json" % (pid, hashlib.sha1(str(key).encode()).hexdigest()[:10]))
                json.dump({"property": pid, "key": key, "name": r["name"], "payload": r.get("payload"), "replay": rep}, open(path, "w"), indent=1)
                violations.append((r, path))
        else:
            not_reproduced.append(r)

    if os.environ.get("VERIF_DUMP"):
        json.dump(records, open(os.environ["VERIF_DUMP"], "w"), indent=1, default=str)
    wall = time.time() - t0
    solver_s = sum(r.get("seconds", 0) or 0 for r in records)
    samples = []
    seen_names = set()
    for r in obligations:
        fam = r["name"].split("[")[0]
        if fam in seen_names:
            continue
        seen_names.add(fam)
        s = {"name": r["name"], "status": r["status"], "seconds": r.get("seconds"), "describe": r.get("describe")}
        if r.get("smt2"):
            s["smt2_sha"] = hashlib.sha256(r["smt2"].encode()).hexdigest()[:16]
            s["smt2_excerpt"] = r["smt2"][:1200]
        samples.append(s)
        if len(samples) >= 12:
            break
    fam_counts = {}
    for r in obligations:
        fam = r["name"].split("[")[0]
        fam_counts[fam] = fam_counts.get(fam, 0) + 1

    coverage = {
        "explanation": mod.EXPLANATION,
        "obligations": len(obligations),
        "discharged": len(discharged),
        "sat": len(sat),
        "unknown": len(unknown),
        "errors": len(errors),
        "obligations_by_family": fam_counts,
        "solver_seconds": round(solver_s, 2),
        "max_obligation_seconds": max([r.get("seconds", 0) or 0 for r in obligations] or [0]),
        "checker_cmd": "./check %s --tier %s" % (pid, args.tier),
        "trusted_base": list(getattr(mod, "TRUSTED", [])) + ["z3 %s" % _z3_version(), "symx engine (validated per run against real TensorFlow: see conformance)"],
        "functions_encoded": mod.FUNCTIONS,
        "source_sha256_16": source_hashes(mod.FUNCTIONS),
        "bounds": mod.bounds(args.tier) if hasattr(mod, "bounds") else None,
        "vacuity_witnesses": {"total": len(witnesses), "sat": len(witnesses) - len(bad_wit)},
        "mutated_oracles": {"total": len(mutants), "sat": len(mutants) - len(bad_mut)},
        "outside_claim": [{"name": r["name"], "reason": r["reason"]} for r in outside][:40],
        "traces_validated_against_impl": conf["n"],
        "conformance_mismatches": conf["bad"][:10],
        "samples": samples,
        "jobs": len(jobs),
        "evaluations": len(obligations),
        "distinct_nontrivial": len({r["name"] for r in obligations if (r.get("seconds") or 0) > 0 or r["kind"] == "concrete"}),
        "rule": "one obligation = one solver query (negated property under the stated preconditions) or, where marked 'concrete', one finite table comparison; distinct by name; non-trivial = reached the solver (not folded to a constant by the term simplifier)",
        "known_findings_reported": [k["key"] for k, _ in known_hits],
    }
    if getattr(mod, "LEVEL", "other") == "model_checking":
        extra = [r for r in records if r["kind"] == "note" and "states" in r]
        coverage["states"] = sum(r["states"] for r in extra) or 1
        coverage["transitions"] = sum(r.get("transitions", 0) for r in extra) or 1
    ev = {
        "property_id": pid,
        "tier": args.tier,
        "seed": seed,
        "level": getattr(mod, "LEVEL", "other"),
        "coverage": coverage,
        "assumptions": list(mod.ASSUMPTIONS),
        "wall_s": round(wall, 2),
        "violations": len(violations),
    }
    # seeded-change trials (tools/) divert the evidence so that the committed files always describe /repo itself
    evdir = os.environ.get("VERIF_EVIDENCE_DIR") or os.path.join(VERIF, "evidence")
    os.makedirs(evdir, exist_ok=True)
    json.dump(ev, open(os.path.join(evdir, pid + ".json"), "w"), indent=1)

    print(
        "%s %s: %d obligations, %d discharged, %d sat, %d unknown, %d errors; witnesses %d/%d, mutants %d/%d; conformance %d values, %d mismatches; solver %.1fs wall %.1fs"
        % (pid, args.tier, len(obligations), len(discharged), len(sat), len(unknown), len(errors), len(witnesses) - len(bad_wit), len(witnesses), len(mutants) - len(bad_mut), len(mutants), conf["n"], len(conf["bad"]), solver_s, wall)
    )
    printed = set()
    for k, r in known_hits:
        if k["key"] in printed:
            continue
        printed.add(k["key"])
        print("KNOWN-FINDING: property=%s %s [%s]" % (pid, k["what"], k["key"]))
    code = EXIT_OK
    if conf_err or conf["bad"]:
        print("conformance problem: %s %s" % (conf["bad"][:5], conf_err or ""))
    for r, path in violations:
        print("violated obligation %s: %s" % (r["name"], json.dumps(r.get("replay"))[:600]))
        print("VIOLATION property=%s replay=%s" % (pid, path))
        code = EXIT_VIOLATION
    if code == EXIT_OK:
        problems = []
        if errors:
            problems.append("encoding errors: " + "; ".join("%s: %s" % (r["name"], r.get("error")) for r in errors[:5]))
            for r in errors[:2]:
                if r.get("trace"):
                    problems.append(r["trace"])
        if not_reproduced:
            problems.append("models that did not reproduce on the real code: " + "; ".join("%s %s" % (r["name"], json.dumps(r.get("replay"))[:300]) for r in not_reproduced[:5]))
        if bad_wit:
            problems.append("vacuity witnesses not sat: " + ", ".join(r["name"] for r in bad_wit[:5]))
        if bad_mut:
            problems.append("mutated oracles not detected: " + ", ".join(r["name"] for r in bad_mut[:5]))
        if conf["bad"] or conf_err:
            problems.append("conformance: %s %s" % (conf["bad"][:5], conf_err or ""))
        if problems:
            print("HARNESS-ERROR (not a verdict about the property):")
            for p in problems:
                print("  " + p)
            code = EXIT_HARNESS
        elif unknown:
            print("INCONCLUSIVE: %d obligations undecided: %s" % (len(unknown), ", ".join(r["name"] for r in unknown[:8])))
            code = EXIT_INCONCLUSIVE
    return code


def _z3_version():
    try:
        import z3

        return z3.get_version_string()
    except Exception:
        return "?"


if __name__ == "__main__":
    sys.exit(main())
