"""Hash-consed expression DAG over the reals / integers / booleans.

A float constant enters as the exact rational value of the double.  Terms are
immutable and interned, so structural equality is identity.

Numeric sorts: 'R' (real) and 'I' (integer).  Boolean terms have sort 'B'.
"""
from __future__ import annotations

import math
from fractions import Fraction

_TABLE = {}
_COUNTER = [0]


class Term:
    __slots__ = ("op", "args", "sort", "id", "_hash")

    def __repr__(self):
        return show(self, 6)

    def __hash__(self):
        return self._hash

    def __eq__(self, other):
        return self is other

    def __ne__(self, other):
        return self is not other

    def __bool__(self):
        raise TypeError("Term has no truth value")


def _mk(op, args, sort):
    key = (op, args, sort)
    t = _TABLE.get(key)
    if t is None:
        t = Term()
        t.op = op
        t.args = args
        t.sort = sort
        _COUNTER[0] += 1
        t.id = _COUNTER[0]
        t._hash = hash((op, t.id))
        _TABLE[key] = t
    return t


_KEEP = []


def reset():
    """Forget all interned terms (between independent harness runs); the
    module-level constants stay interned."""
    _TABLE.clear()
    for t in _KEEP:
        _TABLE[(t.op, t.args, t.sort)] = t
    _FRESH.clear()


# ---------------------------------------------------------------- constants


def to_fraction(x):
    if isinstance(x, Fraction):
        return x
    if isinstance(x, bool):
        return Fraction(int(x))
    if isinstance(x, int):
        return Fraction(x)
    if isinstance(x, float):
        if math.isnan(x) or math.isinf(x):
            raise ValueError("non-finite constant %r" % (x,))
        return Fraction(x)
    try:
        import numpy as np

        if isinstance(x, np.bool_):
            return Fraction(int(x))
        if isinstance(x, np.integer):
            return Fraction(int(x))
        if isinstance(x, np.floating):
            return to_fraction(float(x))
    except ImportError:  # pragma: no cover
        pass
    raise TypeError("cannot make a constant from %r" % (type(x),))


def const(x, sort=None):
    f = to_fraction(x)
    if sort is None:
        import numpy as np

        sort = (
            "I"
            if isinstance(x, (int, np.integer)) and not isinstance(x, bool)
            else "R"
        )
    if sort == "I" and f.denominator != 1:
        sort = "R"
    return _mk("const", (f,), sort)


ZERO = const(0, "R")
ONE = const(1, "R")
IZERO = const(0, "I")
IONE = const(1, "I")


def var(name, sort="R"):
    return _mk("var", (name,), sort)


_FRESH = {}


def fresh(prefix, sort="R"):
    n = _FRESH.get(prefix, 0)
    _FRESH[prefix] = n + 1
    return var("%s!%d" % (prefix, n), sort)


def is_const(t):
    return t.op == "const"


def cval(t):
    return t.args[0]


def _nsort(*ts):
    for t in ts:
        if t.sort != "I":
            return "R"
    return "I"


# --------------------------------------------------------------- arithmetic


def add(*ts):
    flat = []
    c = Fraction(0)
    for t in ts:
        if t.op == "add":
            for a in t.args:
                if a.op == "const":
                    c += a.args[0]
                else:
                    flat.append(a)
        elif t.op == "const":
            c += t.args[0]
        else:
            flat.append(t)
    sort = _nsort(*ts) if ts else "R"
    if not flat:
        return _mk("const", (c,), sort if c.denominator == 1 else "R")
    # collect syntactically equal addends: k*x + m*x
    coef = {}
    order = []
    for a in flat:
        k, base = _split_coef(a)
        if base in coef:
            coef[base] += k
        else:
            coef[base] = k
            order.append(base)
    out = []
    for base in order:
        k = coef[base]
        if k == 0:
            continue
        out.append(base if k == 1 else _mul_coef(k, base))
    if c != 0:
        out.append(_mk("const", (c,), sort if c.denominator == 1 else "R"))
    if not out:
        return _mk("const", (Fraction(0),), sort)
    if len(out) == 1:
        return out[0]
    return _mk("add", tuple(out), sort)


def _split_coef(t):
    if t.op == "mul" and t.args[0].op == "const":
        rest = t.args[1:]
        if len(rest) == 1:
            return t.args[0].args[0], rest[0]
        return t.args[0].args[0], _mk("mul", rest, t.sort)
    return Fraction(1), t


def _mul_coef(k, base):
    ksort = "I" if (k.denominator == 1 and base.sort == "I") else "R"
    kc = _mk("const", (k,), ksort)
    if base.op == "mul":
        return _mk("mul", (kc,) + base.args, ksort)
    return _mk("mul", (kc, base), ksort)


def mul(*ts):
    c = Fraction(1)
    flat = []
    for t in ts:
        if t.op == "mul":
            for a in t.args:
                if a.op == "const":
                    c *= a.args[0]
                else:
                    flat.append(a)
        elif t.op == "const":
            c *= t.args[0]
        else:
            flat.append(t)
    sort = _nsort(*ts) if ts else "R"
    if c == 0:
        return _mk("const", (Fraction(0),), sort)
    # (a/b) (c/d) x = (a c x)/(b d): one division per product
    if any(a.op == "div" for a in flat):
        nums, dens = [], []
        for a in flat:
            if a.op == "div":
                nums.append(a.args[0])
                dens.append(a.args[1])
            else:
                nums.append(a)
        return _quot(c, mul(*nums), mul(*dens))
    # sqrt(a) sqrt(a) = a  (definedness of sqrt(a) is a separate obligation)
    if sum(1 for a in flat if a.op == "sqrt") >= 2:
        cnt = {}
        rest = []
        for a in flat:
            if a.op == "sqrt":
                cnt[a] = cnt.get(a, 0) + 1
            else:
                rest.append(a)
        if any(n >= 2 for n in cnt.values()):
            parts = list(rest)
            for a, n in cnt.items():
                if n // 2:
                    parts.append(ipow(a.args[0], n // 2))
                if n % 2:
                    parts.append(a)
            return mul(_mk("const", (c,), "R"), *parts)
    if not flat:
        return _mk("const", (c,), sort if c.denominator == 1 else "R")
    if sort == "I" and c.denominator != 1:
        sort = "R"
    flat.sort(key=lambda a: a.id)
    if c == 1:
        if len(flat) == 1:
            return flat[0]
        return _mk("mul", tuple(flat), sort)
    if len(flat) == 1 and flat[0].op == "add" and len(flat[0].args) <= 64:
        # distribute a constant over a sum: keeps linear forms linear
        return add(*[mul(_mk("const", (c,), "R" if c.denominator != 1 else sort), a) for a in flat[0].args])
    kc = _mk("const", (c,), "I" if (c.denominator == 1 and sort == "I") else "R")
    return _mk("mul", (kc,) + tuple(flat), sort)


def neg(t):
    return mul(_mk("const", (Fraction(-1),), t.sort), t)


def sub(a, b):
    return add(a, neg(b))


def _factors(t):
    """(constant, list of non-constant factors with multiplicity)"""
    if t.op == "const":
        return t.args[0], []
    if t.op == "mul":
        if t.args[0].op == "const":
            return t.args[0].args[0], list(t.args[1:])
        return Fraction(1), list(t.args)
    return Fraction(1), [t]


def _prod(fs, sort="R"):
    if not fs:
        return ONE
    if len(fs) == 1:
        return fs[0]
    fs = sorted(fs, key=lambda a: a.id)
    return _mk("mul", tuple(fs), "R")


def _scaled(c, t):
    if c == 1:
        return t
    if t.op == "const":
        return _mk("const", (c * t.args[0],), "R")
    kc = _mk("const", (c,), "R")
    if t.op == "mul":
        return _mk("mul", (kc,) + t.args, "R")
    return _mk("mul", (kc, t), "R")


def _quot(c, num, den):
    """c * num / den in canonical form: constants outside, no nested division,
    syntactically common factors cancelled (den != 0 is a separate
    definedness obligation)."""
    while num.op == "div" or den.op == "div":
        if num.op == "div":
            num, den = num.args[0], mul(num.args[1], den)
        if den.op == "div":
            num, den = mul(num, den.args[1]), den.args[0]
    cn, fn = _factors(num)
    cd, fd = _factors(den)
    if cd == 0:
        raise ZeroDivisionError("division by the constant zero")
    c = c * cn / cd
    if c == 0:
        return ZERO
    # cancel common factors (also x^a / x^b)
    for f in list(fd):
        if f in fn:
            fn.remove(f)
            fd.remove(f)
    def powsplit(fs):
        d = {}
        order = []
        for f in fs:
            b, e = (f.args[0], f.args[1]) if f.op == "pow" else (f, 1)
            if b not in d:
                order.append(b)
            d[b] = d.get(b, 0) + e
        return d, order
    dn, on = powsplit(fn)
    dd, od = powsplit(fd)
    if any(b in dd for b in dn):
        fn2, fd2 = [], []
        for b in on:
            e = dn[b] - dd.get(b, 0)
            if e > 0:
                fn2.append(b if e == 1 else _mk("pow", (b, e), b.sort))
            elif e < 0:
                fd2.append(b if e == -1 else _mk("pow", (b, -e), b.sort))
        for b in od:
            if b not in dn:
                e = dd[b]
                fd2.append(b if e == 1 else _mk("pow", (b, e), b.sort))
        fn, fd = fn2, fd2
    n = _prod(fn)
    if not fd:
        return _scaled(c, to_real(n)) if n is not ONE else _mk("const", (c,), "R")
    d = _prod(fd)
    return _scaled(c, _mk("div", (to_real(n), to_real(d)), "R"))


def div(a, b):
    """Real division a / b."""
    if b.op == "const":
        if b.args[0] == 0:
            raise ZeroDivisionError("division by the constant zero")
        return mul(_mk("const", (1 / b.args[0],), "R"), a)
    if a.op == "const" and a.args[0] == 0:
        return ZERO
    return _quot(Fraction(1), a, b)


def ipow(a, n):
    """a ** n for a concrete integer n (negative allowed)."""
    n = int(n)
    if n == 0:
        return ONE if a.sort == "R" else IONE
    if n < 0:
        return div(ONE, ipow(a, -n))
    if a.op == "const":
        return _mk("const", (a.args[0] ** n,), a.sort)
    if n == 1:
        return a
    if a.op == "div":
        return div(ipow(a.args[0], n), ipow(a.args[1], n))
    if a.op == "sqrt":
        h = ipow(a.args[0], n // 2)
        return mul(h, a) if n % 2 else h
    if a.op == "mul":
        return mul(*[ipow(x, n) for x in a.args])
    if a.op == "pow":
        return _mk("pow", (a.args[0], a.args[1] * n), a.sort)
    return _mk("pow", (a, n), a.sort)


def _sqrt_split(t):
    """t = out^2 * inside with 'out' a product of |base|^k (even powers pulled out)"""
    c, fs = _factors(t)
    cnt = {}
    order = []
    for f in fs:
        b, e = (f.args[0], f.args[1]) if f.op == "pow" else (f, 1)
        if b.op == "add":
            b = poly_normal(b)  # canonical form: equal factors are recognised
        if b not in cnt:
            order.append(b)
        cnt[b] = cnt.get(b, 0) + e
    out, ins = [], []
    for b in order:
        e = cnt[b]
        if e // 2:
            out.append(ipow(absv(b), e // 2))
        if e % 2:
            ins.append(b)
    # perfect-square part of the constant
    if c > 0:
        n, d = c.numerator, c.denominator
        rn, rd = math.isqrt(n), math.isqrt(d)
        if rn * rn == n and rd * rd == d and c != 1:
            out.append(_mk("const", (Fraction(rn, rd),), "R"))
            c = Fraction(1)
    return c, out, ins


def sqrt(a):
    if a.op == "const":
        v = a.args[0]
        if v < 0:
            raise ValueError("sqrt of a negative constant")
        n, d = v.numerator, v.denominator
        rn, rd = math.isqrt(n), math.isqrt(d)
        if rn * rn == n and rd * rd == d:
            return _mk("const", (Fraction(rn, rd),), "R")
        # irrational: the double the code would have computed
        return const(math.sqrt(float(v)), "R")
    if a.op == "add":
        # equal radicands written differently share one square root
        a = poly_normal(a)
        if a.op == "const":
            return sqrt(a)
    if a.op in ("mul", "pow", "div"):
        # sqrt(x^2 r) = |x| sqrt(r): pull even powers out (numerator and denominator)
        if a.op == "div":
            cn, on, inn = _sqrt_split(a.args[0])
            cd, od, ind = _sqrt_split(a.args[1])
        else:
            cn, on, inn = _sqrt_split(a)
            cd, od, ind = Fraction(1), [], []
        if on or od:
            inside = _quot(cn / cd, _prod(inn), _prod(ind)) if ind else _scaled(cn / cd, _prod(inn))
            if inside.op == "const" and inside.args[0] < 0:
                return _mk("sqrt", (a,), "R")
            r = sqrt(inside) if inside is not ONE else ONE
            return _quot(Fraction(1), mul(r, *on), mul(*od)) if od else mul(r, *on)
        # canonical radicand: constant * sorted canonical factors (num / den)
        if a.op == "div":
            a = _quot(cn / cd, _prod(inn), _prod(ind))
        else:
            a = _scaled(cn, _prod(inn))
        if a.op == "const":
            return sqrt(a)
        if a.op == "mul" and not any(x.op in ("sqrt", "ite", "abs", "uf", "div") for x in a.args):
            a2 = poly_normal(a)
            if a2 is not a and size(a2) <= 4 * size(a):
                a = a2
    return _mk("sqrt", (a,), "R")


def absv(a):
    if a.op == "const":
        return _mk("const", (abs(a.args[0]),), a.sort)
    if a.op in ("abs", "sqrt"):
        return a
    return _mk("abs", (a,), a.sort)


def stopgrad(a):
    """same value, derivative zero (tf.stop_gradient)"""
    if a.op in ("const", "stopgrad"):
        return a
    return _mk("stopgrad", (a,), a.sort)


def uf(name, *args, sort="R"):
    return _mk("uf", (name,) + tuple(args), sort)


def idiv(a, b):
    """floor division of integer terms"""
    if a.op == "const" and b.op == "const":
        return const(int(a.args[0] // b.args[0]), "I")
    return _mk("idiv", (a, b), "I")


def imod(a, b):
    if a.op == "const" and b.op == "const":
        return const(int(a.args[0] % b.args[0]), "I")
    return _mk("mod", (a, b), "I")


def floor(a):
    """real -> integer (floor)"""
    if a.sort == "I":
        return a
    if a.op == "const":
        return const(math.floor(a.args[0]), "I")
    return _mk("floor", (a,), "I")


def to_real(a):
    if a.sort == "R":
        return a
    if a.op == "const":
        return _mk("const", a.args, "R")
    return _mk("toreal", (a,), "R")


# ------------------------------------------------------------------ boolean

TRUE = _mk("bconst", (True,), "B")
FALSE = _mk("bconst", (False,), "B")
_KEEP.extend([ZERO, ONE, IZERO, IONE, TRUE, FALSE])


def bconst(b):
    return TRUE if b else FALSE


def bvar(name):
    return _mk("var", (name,), "B")


def cmp(op, a, b):
    """op in '<', '<=', '==', '!=' ( '>' and '>=' are swapped by callers )."""
    if a.op == "const" and b.op == "const":
        x, y = a.args[0], b.args[0]
        return bconst(
            {"<": x < y, "<=": x <= y, "==": x == y, "!=": x != y}[op]
        )
    if a is b:
        return bconst(op in ("<=", "=="))
    if a.sort != b.sort:
        a, b = to_real(a), to_real(b)
    d = sub(a, b)
    if d.op == "const":
        x = d.args[0]
        return bconst({"<": x < 0, "<=": x <= 0, "==": x == 0, "!=": x != 0}[op])
    if op == "!=":
        return bnot(_mk("cmp", ("==", a, b), "B"))
    if op == "<=":
        # a <= b  is  not (b < a): one primitive order relation, so that a
        # fact and the negation of a guard are recognised as the same literal
        return bnot(_mk("cmp", ("<", b, a), "B"))
    if op == "==" and b.id < a.id:
        a, b = b, a
    return _mk("cmp", (op, a, b), "B")


def lt(a, b):
    return cmp("<", a, b)


def le(a, b):
    return cmp("<=", a, b)


def eq(a, b):
    return cmp("==", a, b)


def ne(a, b):
    return cmp("!=", a, b)


def gt(a, b):
    return cmp("<", b, a)


def ge(a, b):
    return cmp("<=", b, a)


def bnot(a):
    if a is TRUE:
        return FALSE
    if a is FALSE:
        return TRUE
    if a.op == "not":
        return a.args[0]
    return _mk("not", (a,), "B")


def band(*ts):
    out = []
    for t in ts:
        if t is FALSE:
            return FALSE
        if t is TRUE:
            continue
        if t.op == "and":
            out.extend(t.args)
        else:
            out.append(t)
    seen = []
    for t in out:
        if t not in seen:
            seen.append(t)
    if not seen:
        return TRUE
    if len(seen) == 1:
        return seen[0]
    return _mk("and", tuple(seen), "B")


def bor(*ts):
    out = []
    for t in ts:
        if t is TRUE:
            return TRUE
        if t is FALSE:
            continue
        if t.op == "or":
            out.extend(t.args)
        else:
            out.append(t)
    seen = []
    for t in out:
        if t not in seen:
            seen.append(t)
    if not seen:
        return FALSE
    if len(seen) == 1:
        return seen[0]
    return _mk("or", tuple(seen), "B")


def implies(a, b):
    return bor(bnot(a), b)


def ite(c, a, b):
    if c is TRUE:
        return a
    if c is FALSE:
        return b
    if a is b:
        return a
    if a.sort == "B":
        return bor(band(c, a), band(bnot(c), b))
    sort = _nsort(a, b)
    if sort == "R":
        a, b = to_real(a), to_real(b)
    return _mk("ite", (c, a, b), sort)


# ------------------------------------------------------------------ walking


def postorder(roots):
    seen = set()
    out = []
    stack = [(r, False) for r in roots]
    while stack:
        t, done = stack.pop()
        if done:
            out.append(t)
            continue
        if t in seen:
            continue
        seen.add(t)
        stack.append((t, True))
        for a in t.args:
            if isinstance(a, Term) and a not in seen:
                stack.append((a, False))
    return out


def free_vars(*roots):
    return [t for t in postorder(roots) if t.op == "var"]


def size(*roots):
    return len(postorder(roots))


def show(t, depth=4):
    if t.op == "const":
        f = t.args[0]
        return str(f) if f.denominator == 1 or f.denominator < 10**6 else repr(float(f))
    if t.op == "bconst":
        return str(t.args[0])
    if t.op == "var":
        return t.args[0]
    if depth <= 0:
        return "…"
    sub_ = lambda a: show(a, depth - 1) if isinstance(a, Term) else str(a)
    if t.op == "add":
        return "(" + " + ".join(map(sub_, t.args)) + ")"
    if t.op == "mul":
        return "(" + "*".join(map(sub_, t.args)) + ")"
    if t.op == "div":
        return "(" + sub_(t.args[0]) + "/" + sub_(t.args[1]) + ")"
    if t.op == "pow":
        return sub_(t.args[0]) + "^" + str(t.args[1])
    if t.op == "cmp":
        return "(" + sub_(t.args[1]) + " " + t.args[0] + " " + sub_(t.args[2]) + ")"
    if t.op == "uf":
        return t.args[0] + "(" + ", ".join(map(sub_, t.args[1:])) + ")"
    return t.op + "(" + ", ".join(map(sub_, t.args)) + ")"


# --------------------------------------------------------------- evaluation


class EvalError(Exception):
    pass


def evaluate(roots, env, ufs=None, exact=False):
    """Evaluate terms numerically.  env: {var Term or name: number}.
    ufs: {name: python callable}.  exact=True keeps Fractions where possible."""
    single = isinstance(roots, Term)
    if single:
        roots = [roots]
    val = {}
    ufs = ufs or {}
    for t in postorder(roots):
        op = t.op
        if op == "const":
            v = t.args[0] if exact else (int(t.args[0]) if t.sort == "I" else float(t.args[0]))
        elif op == "bconst":
            v = t.args[0]
        elif op == "var":
            if t in env:
                v = env[t]
            elif t.args[0] in env:
                v = env[t.args[0]]
            else:
                raise EvalError("unbound variable %s" % t.args[0])
        elif op == "add":
            v = 0
            for a in t.args:
                v = v + val[a]
        elif op == "mul":
            v = 1
            for a in t.args:
                v = v * val[a]
        elif op == "div":
            d = val[t.args[1]]
            if d == 0:
                v = float("nan")
            else:
                v = val[t.args[0]] / d
        elif op == "pow":
            v = val[t.args[0]] ** t.args[1]
        elif op == "sqrt":
            x = val[t.args[0]]
            v = math.sqrt(x) if x >= 0 else float("nan")
        elif op == "abs":
            v = abs(val[t.args[0]])
        elif op == "ite":
            v = val[t.args[1]] if val[t.args[0]] else val[t.args[2]]
        elif op == "cmp":
            x, y = val[t.args[1]], val[t.args[2]]
            o = t.args[0]
            v = x < y if o == "<" else x <= y if o == "<=" else x == y if o == "==" else x != y
        elif op == "not":
            v = not val[t.args[0]]
        elif op == "and":
            v = all(val[a] for a in t.args)
        elif op == "or":
            v = any(val[a] for a in t.args)
        elif op == "uf":
            f = ufs.get(t.args[0])
            if f is None:
                raise EvalError("no interpretation for %s" % t.args[0])
            v = f(*[val[a] for a in t.args[1:]])
        elif op == "idiv":
            v = val[t.args[0]] // val[t.args[1]]
        elif op == "mod":
            v = val[t.args[0]] % val[t.args[1]]
        elif op == "floor":
            v = math.floor(val[t.args[0]])
        elif op in ("toreal", "stopgrad"):
            v = val[t.args[0]]
        else:
            raise EvalError("cannot evaluate %s" % op)
        val[t] = v
    out = [val[r] for r in roots]
    return out[0] if single else out


# ---------------------------------------------------------- differentiation

# derivative rules for uninterpreted functions: name -> callable(args, k) -> Term
UF_DERIV = {}


def _d_log(name, args, k):
    return div(ONE, args[0])


def _d_exp(name, args, k):
    return uf("exp", args[0])


def _d_sin(name, args, k):
    return uf("cos", args[0])


def _d_cos(name, args, k):
    return neg(uf("sin", args[0]))


def _d_tanh(name, args, k):
    th = uf("tanh", args[0])
    return sub(ONE, mul(th, th))


def _d_tan(name, args, k):
    tn = uf("tan", args[0])
    return add(ONE, mul(tn, tn))


def _d_arctan(name, args, k):
    return div(ONE, add(ONE, mul(args[0], args[0])))


UF_DERIV.update({"log": _d_log, "exp": _d_exp, "sin": _d_sin, "cos": _d_cos, "tanh": _d_tanh, "tan": _d_tan, "arctan": _d_arctan})


def _uf_default_deriv(name, args, k):
    """formal partial: F -> F,k ; F,k -> F,k,l (indices kept sorted: the
    mixed partials of a smooth function commute)."""
    if "," in name:
        base, idx = name.split(",", 1)
        ids = sorted([int(i) for i in idx.split(",")] + [k])
    else:
        base, ids = name, [k]
    return uf(base + "," + ",".join(map(str, ids)), *args)


def diff(root, wrt, cache=None):
    """d root / d wrt  (wrt a 'var' Term)."""
    if cache is None:
        cache = {}
    key0 = wrt
    for t in postorder([root]):
        if (t, key0) in cache:
            continue
        op = t.op
        if t is wrt:
            d = ONE
        elif op in ("const", "var"):
            d = ZERO
        elif op == "add":
            d = add(*[cache[(a, key0)] for a in t.args])
        elif op == "mul":
            parts = []
            for i, a in enumerate(t.args):
                da = cache[(a, key0)]
                if da is ZERO:
                    continue
                others = t.args[:i] + t.args[i + 1 :]
                parts.append(mul(da, *others))
            d = add(*parts) if parts else ZERO
        elif op == "div":
            a, b = t.args
            da, db = cache[(a, key0)], cache[(b, key0)]
            if db is ZERO:
                d = div(da, b)
            else:
                d = sub(div(da, b), div(mul(a, db), mul(b, b)))
        elif op == "pow":
            a, n = t.args
            da = cache[(a, key0)]
            d = ZERO if da is ZERO else mul(const(n, "R"), ipow(a, n - 1), da)
        elif op == "sqrt":
            da = cache[(t.args[0], key0)]
            d = ZERO if da is ZERO else div(da, mul(const(2, "R"), t))
        elif op == "abs":
            da = cache[(t.args[0], key0)]
            d = ZERO if da is ZERO else ite(ge(t.args[0], ZERO), da, neg(da))
        elif op == "ite":
            c, a, b = t.args
            d = ite(c, cache[(a, key0)], cache[(b, key0)])
        elif op in ("toreal", "stopgrad"):
            d = ZERO
        elif op == "uf":
            name = t.args[0]
            args = t.args[1:]
            rule = UF_DERIV.get(name.split(",")[0], None)
            parts = []
            for k, a in enumerate(args):
                da = cache[(a, key0)]
                if da is ZERO:
                    continue
                if rule is not None:
                    pk = rule(name, args, k)
                else:
                    pk = _uf_default_deriv(name, args, k)
                parts.append(mul(pk, da))
            d = add(*parts) if parts else ZERO
        elif t.sort == "B":
            d = ZERO
        elif op in ("idiv", "mod", "floor"):
            d = ZERO
        else:
            raise NotImplementedError("diff of %s" % op)
        cache[(t, key0)] = d
    return cache[(root, key0)]


def substitute(roots, mapping):
    """Replace var Terms by Terms (simultaneously)."""
    single = isinstance(roots, Term)
    if single:
        roots = [roots]
    new = {}
    for t in postorder(roots):
        if t in mapping:
            new[t] = mapping[t]
            continue
        op = t.op
        if op in ("const", "bconst", "var"):
            new[t] = t
            continue
        args = [new[a] if isinstance(a, Term) else a for a in t.args]
        if all(x is y for x, y in zip(args, t.args)):
            new[t] = t
            continue
        new[t] = rebuild(op, args, t.sort)
    out = [new[r] for r in roots]
    return out[0] if single else out


def rebuild(op, args, sort):
    if op == "add":
        return add(*args)
    if op == "mul":
        return mul(*args)
    if op == "div":
        return div(*args)
    if op == "pow":
        return ipow(args[0], args[1])
    if op == "sqrt":
        return sqrt(args[0])
    if op == "abs":
        return absv(args[0])
    if op == "ite":
        return ite(*args)
    if op == "cmp":
        return cmp(*args)
    if op == "not":
        return bnot(args[0])
    if op == "and":
        return band(*args)
    if op == "or":
        return bor(*args)
    if op == "uf":
        return uf(args[0], *args[1:], sort=sort)
    if op == "idiv":
        return idiv(*args)
    if op == "mod":
        return imod(*args)
    if op == "floor":
        return floor(args[0])
    if op == "toreal":
        return to_real(args[0])
    if op == "stopgrad":
        return stopgrad(args[0])
    raise NotImplementedError(op)


# ------------------------------------------------- polynomial normal form


def _poly_of(t, limit, memo):
    """dict {monomial: Fraction}; monomial = tuple of (atom id, power) sorted;
    atoms are variables and any non-polynomial subterm.  None if too large."""
    if t in memo:
        return memo[t]
    op = t.op
    if op == "const":
        r = {(): t.args[0]} if t.args[0] != 0 else {}
    elif op == "add":
        r = {}
        for a in t.args:
            p = _poly_of(a, limit, memo)
            if p is None:
                r = None
                break
            for k, v in p.items():
                nv = r.get(k, 0) + v
                if nv == 0:
                    r.pop(k, None)
                else:
                    r[k] = nv
    elif op == "mul":
        r = {(): Fraction(1)}
        for a in t.args:
            p = _poly_of(a, limit, memo)
            if p is None:
                r = None
                break
            r = _poly_mul(r, p, limit)
            if r is None:
                break
    elif op == "pow":
        p = _poly_of(t.args[0], limit, memo)
        r = {(): Fraction(1)}
        if p is None:
            r = None
        else:
            for _ in range(t.args[1]):
                r = _poly_mul(r, p, limit)
                if r is None:
                    break
    elif op == "toreal":
        r = _poly_of(t.args[0], limit, memo)
    else:
        r = {((t.id, 1),): Fraction(1)}
        memo.setdefault("atoms", {})[t.id] = t
    memo[t] = r
    return r


def _poly_mul(p, q, limit):
    if len(p) * len(q) > limit * 4:
        return None
    r = {}
    for k1, v1 in p.items():
        for k2, v2 in q.items():
            d = dict(k1)
            for a, e in k2:
                d[a] = d.get(a, 0) + e
            k = tuple(sorted(d.items()))
            nv = r.get(k, 0) + v1 * v2
            if nv == 0:
                r.pop(k, None)
            else:
                r[k] = nv
    if len(r) > limit:
        return None
    return r


def poly_normal(t, limit=400):
    """canonical expanded form of a term that is polynomial in its atoms
    (returns t unchanged when the expansion would exceed the limit)"""
    if t.sort != "R" or t.op in ("const", "var"):
        return t
    memo = {}
    p = _poly_of(t, limit, memo)
    if p is None:
        return t
    atoms = memo.get("atoms", {})
    monos = []
    for k in sorted(p):
        factors = [_mk("const", (p[k],), "R")]
        for a, e in k:
            at = atoms[a]
            factors.append(at if e == 1 else ipow(at, e))
        monos.append(mul(*factors))
    return add(*monos) if monos else ZERO


# ------------------------------------------------------- rational normal form


def numden(t, memo=None):
    """(N, D) with t = N / D, N and D free of divisions at the top level
    (sqrt / ite / abs / uninterpreted applications are atoms)."""
    if memo is None:
        memo = {}
    if t in memo:
        return memo[t]
    op = t.op
    if op == "add":
        n, d = ZERO, ONE
        for a in t.args:
            na, da = numden(a, memo)
            if da is d:
                n = add(n, na)
            elif d is ONE:
                n, d = add(mul(n, da), na), da
            elif da is ONE:
                n = add(n, mul(na, d))
            else:
                n, d = add(mul(n, da), mul(na, d)), mul(d, da)
        r = (n, d)
    elif op == "mul":
        ns, ds = [], []
        for a in t.args:
            na, da = numden(a, memo)
            ns.append(na)
            if da is not ONE:
                ds.append(da)
        r = (mul(*ns), mul(*ds) if ds else ONE)
    elif op == "div":
        na, da = numden(t.args[0], memo)
        nb, db = numden(t.args[1], memo)
        r = (mul(na, db), mul(da, nb))
    elif op == "pow":
        na, da = numden(t.args[0], memo)
        r = (ipow(na, t.args[1]), ipow(da, t.args[1]) if da is not ONE else ONE)
    else:
        r = (t, ONE)
    memo[t] = r
    return r


def cross_ne(a, b):
    """bool Term equivalent to a != b when all denominators are non-zero:
    N_a D_b != N_b D_a"""
    memo = {}
    na, da = numden(a, memo)
    nb, db = numden(b, memo)
    return ne(mul(na, db), mul(nb, da))


# ------------------------------------------------- abstraction of constants


def abstract_free(roots, dep_vars, prefix="K"):
    """Replace every maximal subterm that does not depend on any of dep_vars
    (nor on an uninterpreted application of them) by a fresh variable.  Equal
    subterms get the same variable.  Proving an identity on the abstraction
    proves it for the original terms (the fresh variables are universally
    quantified); a counterexample of the abstraction need not be one."""
    dep = set(dep_vars)
    depends = {}
    order = postorder(roots)
    for t in order:
        if t.op == "var":
            depends[t] = t in dep
        elif t.op in ("const", "bconst"):
            depends[t] = False
        else:
            depends[t] = any(depends[a] for a in t.args if isinstance(a, Term))
    mapping = {}
    new = {}
    count = [0]

    def fresh_for(t):
        if t not in mapping:
            count[0] += 1
            mapping[t] = var("%s!%d" % (prefix, count[0]), t.sort if t.sort in ("R", "I") else "R")
        return mapping[t]

    for t in order:
        if not depends[t]:
            if t.op in ("const", "bconst", "var") or t.sort == "B":
                new[t] = t
            else:
                new[t] = fresh_for(t)
            continue
        if t.op == "var":
            new[t] = t
            continue
        args = [new[a] if isinstance(a, Term) else a for a in t.args]
        if all(x is y for x, y in zip(args, t.args)):
            new[t] = t
        else:
            new[t] = rebuild(t.op, args, t.sort)
    return [new[r] for r in roots], mapping


def strip_stopgrad(roots):
    """the same values without the stop_gradient markers (they only matter for differentiation)"""
    single = isinstance(roots, Term)
    if single:
        roots = [roots]
    new = {}
    for t in postorder(roots):
        op = t.op
        if op in ("const", "bconst", "var"):
            new[t] = t
            continue
        args = [new[a] if isinstance(a, Term) else a for a in t.args]
        if op == "stopgrad":
            new[t] = args[0]
            continue
        if all(x is y for x, y in zip(args, t.args)):
            new[t] = t
            continue
        new[t] = rebuild(op, args, t.sort)
    out = [new[r] for r in roots]
    return out[0] if single else out
