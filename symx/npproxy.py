"""A stand-in for the ``numpy`` module object, rebound as the global ``np`` of a
module under analysis: everything delegates to numpy except the few functions
that would force symbolic values into float arrays."""
from __future__ import annotations

import numpy as _np

from .scalar import SymBool, SymComplex, SymReal


class _Linalg:
    def __init__(self, overrides):
        self._o = overrides

    def __getattr__(self, k):
        if k in self._o:
            return self._o[k]
        return getattr(_np.linalg, k)


class NumpyProxy:
    def __init__(self, **overrides):
        self._overrides = overrides
        self.linalg = _Linalg(overrides.get("linalg", {}))

    def __getattr__(self, k):
        if k in self._overrides:
            return self._overrides[k]
        return getattr(_np, k)

    # arrays that may receive symbolic elements later are object arrays
    def zeros(self, shape, dtype=None, **kw):
        if dtype is not None and _np.dtype(dtype) != _np.dtype(float):
            return _np.zeros(shape, dtype=dtype, **kw)
        a = _np.empty(shape, dtype=object)
        a[...] = 0.0
        return a

    def ones(self, shape, dtype=None, **kw):
        if dtype is not None and _np.dtype(dtype) != _np.dtype(float):
            return _np.ones(shape, dtype=dtype, **kw)
        a = _np.empty(shape, dtype=object)
        a[...] = 1.0
        return a

    def zeros_like(self, x, dtype=None, **kw):
        return self.zeros(_np.shape(x), dtype=dtype)

    def eye(self, n, m=None, dtype=None, **kw):
        e = _np.eye(n, m)
        a = _np.empty(e.shape, dtype=object)
        a[...] = e
        return a

    def array(self, x, dtype=None, **kw):
        if dtype is not None and _np.dtype(dtype) == _np.dtype(float) and _has_sym(x):
            dtype = object
        return _np.array(_unwrap(x), dtype=dtype, **kw)

    def diag(self, v, k=0):
        v = _np.asarray(_unwrap(v), dtype=object) if _has_sym(v) else _np.asarray(v)
        if v.dtype != object:
            return _np.diag(v, k)
        if v.ndim == 1:
            n = len(v)
            a = _np.empty((n, n), dtype=object)
            a[...] = 0.0
            for i in range(n):
                a[i, i] = v[i]
            return a
        return _np.array([v[i, i] for i in range(min(v.shape))], dtype=object)


def _unwrap(x):
    """lists / arrays of symtf tensors -> nested lists of scalars"""
    if hasattr(x, "arr"):
        a = x.arr
        return a[()] if a.ndim == 0 else a
    if isinstance(x, (list, tuple)):
        return [_unwrap(e) for e in x]
    if isinstance(x, _np.ndarray) and x.dtype == object:
        out = _np.empty(x.shape, dtype=object)
        for idx in _np.ndindex(*x.shape):
            e = x[idx]
            out[idx] = _unwrap(e) if hasattr(e, "arr") else e
        return out
    return x


def _has_sym(x):
    if isinstance(x, (SymReal, SymComplex, SymBool)):
        return True
    if hasattr(x, "arr"):
        return x.arr.dtype == object
    if isinstance(x, (list, tuple)):
        return any(_has_sym(e) for e in x)
    if isinstance(x, _np.ndarray) and x.dtype == object:
        return True
    return False


class SymArray(_np.ndarray):
    """object array whose comparisons stay symbolic (numpy would coerce the
    element-wise results of == and < on object arrays to Python bools)"""

    def _cmp(self, other, fn):
        f = _np.frompyfunc(fn, 2, 1)
        return _np.asarray(f(_np.asarray(self), other), dtype=object).view(SymArray)

    def __eq__(self, o):
        return self._cmp(o, lambda a, b: a == b)

    def __ne__(self, o):
        return self._cmp(o, lambda a, b: a != b)

    def __lt__(self, o):
        return self._cmp(o, lambda a, b: a < b)

    def __le__(self, o):
        return self._cmp(o, lambda a, b: a <= b)

    def __gt__(self, o):
        return self._cmp(o, lambda a, b: a > b)

    def __ge__(self, o):
        return self._cmp(o, lambda a, b: a >= b)

    __hash__ = None
