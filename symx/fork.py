"""Path-forking executor by deterministic re-execution.

    ex = Explorer(budget...)
    for path in ex.run(fn):       # fn() is re-run once per feasible path
        path.result, path.pc

Inside fn, ``bool(SymBool)`` on a non-constant condition calls
``Explorer.decide``: both polarities are checked against the path condition
(facts + earlier decisions) with the solver; feasible ones are explored.
fn must be deterministic (same symbols, same order) given the decisions.
"""
from __future__ import annotations

import time

from . import lower
from . import scalar as S
from . import term as T


class PathLimit(Exception):
    pass


class Infeasible(BaseException):
    """the current decision prefix is infeasible (should not happen)"""


class Path:
    def __init__(self, decisions, pc, result=None, error=None, ctx=None):
        self.decisions = decisions
        self.pc = pc
        self.result = result
        self.error = error
        self.ctx = ctx


class Explorer:
    def __init__(self, max_paths=2000, max_depth=200, timeout_s=10.0, total_s=600.0):
        self.max_paths = max_paths
        self.max_depth = max_depth
        self.timeout_s = timeout_s
        self.total_s = total_s
        self.pc = []
        self.prefix = []
        self.pos = 0
        self.work = []
        self.stats = {"paths": 0, "forks": 0, "forced": 0, "feasibility_queries": 0, "unknown_branches": 0, "truncated": 0}

    # called from SymBool.__bool__
    def decide(self, t):
        if self.pos < len(self.prefix):
            choice = self.prefix[self.pos]
            self.pos += 1
            self.pc.append(t if choice else T.bnot(t))
            return choice
        if self.pos >= self.max_depth:
            self.stats["truncated"] += 1
            raise PathLimit("decision depth %d exceeded" % self.max_depth)
        base = list(S.ctx().facts) + list(self.pc)
        self.stats["feasibility_queries"] += 2
        rt = lower.solve(base + [t], self.timeout_s, hard=False)
        rf = lower.solve(base + [T.bnot(t)], self.timeout_s, hard=False)
        can_t = rt.status != "unsat"
        can_f = rf.status != "unsat"
        if rt.status == "unknown" or rf.status == "unknown":
            self.stats["unknown_branches"] += 1
        if can_t and can_f:
            self.stats["forks"] += 1
            self.work.append(self.prefix[: self.pos] + [False])
            choice = True
        elif can_t:
            self.stats["forced"] += 1
            choice = True
        elif can_f:
            self.stats["forced"] += 1
            choice = False
        else:
            raise Infeasible()
        self.prefix = self.prefix[: self.pos] + [choice]
        self.pos += 1
        self.pc.append(t if choice else T.bnot(t))
        return choice

    def run(self, fn, setup=None):
        """Generator of Path objects.  fn() runs under a fresh scalar context;
        setup(ctx) (optional) may register facts before each run."""
        self.work = [[]]
        t0 = time.time()
        while self.work:
            if self.stats["paths"] >= self.max_paths or time.time() - t0 > self.total_s:
                self.stats["truncated"] += len(self.work)
                self.work = []
                break
            self.prefix = self.work.pop()
            self.pos = 0
            self.pc = []
            c = S.new_context()
            c.explorer = self
            T._FRESH.clear()
            if setup is not None:
                setup(c)
            self.stats["paths"] += 1
            try:
                res = fn()
                yield Path(list(self.prefix[: self.pos]), list(self.pc), result=res, ctx=c)
            except PathLimit as e:
                yield Path(list(self.prefix[: self.pos]), list(self.pc), error=e, ctx=c)
            except Infeasible:
                continue
            except Exception as e:  # the code under test raised on this path
                yield Path(list(self.prefix[: self.pos]), list(self.pc), error=e, ctx=c)
            finally:
                c.explorer = None
