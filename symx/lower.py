"""Lower Term DAGs to z3 and decide obligations.

Result status is one of 'unsat', 'sat', 'unknown'.  A 'sat' result carries a
model environment {variable name: python number/bool}; algebraic model values
are approximated to 30 digits (counterexamples are replayed on the real code
in floating point anyway).
"""
from __future__ import annotations

import hashlib
import os
import subprocess
import tempfile
import time
from fractions import Fraction

import z3

from . import term as T

STATS = {"queries": 0, "unsat": 0, "sat": 0, "unknown": 0, "seconds": 0.0, "max_seconds": 0.0}


class Lowering:
    def __init__(self, ackermann=True):
        self.ackermann = ackermann
        self.memo = {}
        self.side = []  # z3 constraints defining auxiliaries
        self.aux = 0
        self.uf_apps = {}  # name -> list of (arg z3 exprs, result z3 var)
        self.all_int = True
        self.nonlinear = False
        self.has_int = False

    def _fresh(self, prefix, sort="R"):
        self.aux += 1
        n = "%s#%d" % (prefix, self.aux)
        return z3.Real(n) if sort == "R" else z3.Int(n)

    def lower(self, root):
        memo = self.memo
        for t in T.postorder([root]):
            if t in memo:
                continue
            memo[t] = self._lower1(t)
        return memo[root]

    def _num(self, a, want):
        e = self.memo[a]
        if want == "R" and a.sort == "I":
            return z3.ToReal(e)
        return e

    def _lower1(self, t):
        op = t.op
        m = self.memo
        if op == "const":
            f = t.args[0]
            if t.sort == "I":
                self.has_int = True
                return z3.IntVal(int(f))
            return z3.RealVal(str(f.numerator) + "/" + str(f.denominator)) if f.denominator != 1 else z3.RealVal(int(f))
        if op == "bconst":
            return z3.BoolVal(t.args[0])
        if op == "var":
            if t.sort == "R":
                return z3.Real(t.args[0])
            if t.sort == "I":
                self.has_int = True
                return z3.Int(t.args[0])
            return z3.Bool(t.args[0])
        if op == "add":
            return z3.Sum([self._num(a, t.sort) for a in t.args])
        if op == "mul":
            nv = sum(1 for a in t.args if a.op != "const")
            if nv > 1:
                self.nonlinear = True
            return z3.Product([self._num(a, t.sort) for a in t.args])
        if op == "div":
            self.nonlinear = True
            return self._num(t.args[0], "R") / self._num(t.args[1], "R")
        if op == "pow":
            self.nonlinear = True
            b = m[t.args[0]]
            r = b
            for _ in range(t.args[1] - 1):
                r = r * b
            return r
        if op == "sqrt":
            self.nonlinear = True
            a = self._num(t.args[0], "R")
            y = self._fresh("sqrt")
            self.side.append(y >= 0)
            self.side.append(z3.Implies(a >= 0, y * y == a))
            return y
        if op == "abs":
            a = m[t.args[0]]
            return z3.If(a >= 0, a, -a)
        if op == "ite":
            return z3.If(m[t.args[0]], self._num(t.args[1], t.sort), self._num(t.args[2], t.sort))
        if op == "cmp":
            o, a, b = t.args
            s = "I" if (a.sort == "I" and b.sort == "I") else "R"
            x, y = self._num(a, s), self._num(b, s)
            return x < y if o == "<" else x <= y if o == "<=" else x == y if o == "==" else x != y
        if op == "not":
            return z3.Not(m[t.args[0]])
        if op == "and":
            return z3.And([m[a] for a in t.args])
        if op == "or":
            return z3.Or([m[a] for a in t.args])
        if op == "uf":
            name = t.args[0]
            args = [m[a] for a in t.args[1:]]
            r = self._fresh("uf_" + name.replace(",", "_"), t.sort)
            apps = self.uf_apps.setdefault((name, len(args)), [])
            if self.ackermann:
                for oargs, ores in apps:
                    self.side.append(z3.Implies(z3.And([x == y for x, y in zip(args, oargs)]), r == ores))
            apps.append((args, r))
            return r
        if op == "idiv":
            self.has_int = True
            b = t.args[1]
            if not (b.op == "const" and b.args[0] > 0):
                raise NotImplementedError("floor division by a non-positive or symbolic divisor")
            return m[t.args[0]] / m[b]
        if op == "mod":
            self.has_int = True
            b = t.args[1]
            if not (b.op == "const" and b.args[0] > 0):
                raise NotImplementedError("mod by a non-positive or symbolic divisor")
            return m[t.args[0]] % m[b]
        if op == "floor":
            self.has_int = True
            return z3.ToInt(m[t.args[0]])
        if op == "toreal":
            return z3.ToReal(m[t.args[0]])
        if op == "stopgrad":
            return m[t.args[0]]
        raise NotImplementedError("lowering of %s" % op)


class Result:
    def __init__(self, status, model, seconds, smt2=None, reason=None):
        self.status = status
        self.model = model
        self.seconds = seconds
        self.smt2 = smt2
        self.reason = reason

    def __repr__(self):
        return "<%s %.2fs>" % (self.status, self.seconds)


def _model_value(v):
    if z3.is_true(v):
        return True
    if z3.is_false(v):
        return False
    if z3.is_int_value(v):
        return v.as_long()
    if z3.is_rational_value(v):
        return Fraction(v.numerator_as_long(), v.denominator_as_long())
    if z3.is_algebraic_value(v):
        a = v.approx(30)
        return Fraction(a.numerator_as_long(), a.denominator_as_long())
    return None


_SCALE = float(os.environ.get("VERIF_TIMEOUT_SCALE", "2") or 2)


def solve(assertions, timeout_s=30.0, want_smt2=False, logic="auto", hard=True, ackermann=True):
    """assertions: iterable of bool Terms (conjunction).  Returns Result.
    The limits written in the harnesses were tuned on an idle 16-core machine;
    VERIF_TIMEOUT_SCALE (default 2) leaves room for a loaded one."""
    timeout_s = float(timeout_s) * _SCALE
    low = Lowering(ackermann=ackermann)
    zs = []
    for a in assertions:
        if a is T.TRUE:
            continue
        if a is T.FALSE:
            return Result("unsat", None, 0.0, reason="trivial")
        zs.append(low.lower(a))
    if logic == "auto":
        logic = "QF_NRA" if (low.nonlinear and not low.has_int) else None
    s = z3.SolverFor(logic) if logic else z3.Solver()
    s.set("timeout", int(timeout_s * 1000))
    for c in low.side:
        s.add(c)
    for c in zs:
        s.add(c)
    smt2 = s.to_smt2() if want_smt2 else None
    t0 = time.time()
    status, model, reason = _check_forked(s, timeout_s) if hard else _check_here(s)
    dt = time.time() - t0
    STATS["queries"] += 1
    STATS["seconds"] += dt
    STATS["max_seconds"] = max(STATS["max_seconds"], dt)
    STATS[status] = STATS.get(status, 0) + 1
    return Result(status, model, dt, smt2, reason)


def _check_here(s):
    r = s.check()
    status = str(r)
    model = None
    reason = None
    if status == "sat":
        m = s.model()
        model = {}
        for d in m.decls():
            val = _model_value(m[d])
            if val is not None:
                model[d.name()] = val
    elif status == "unknown":
        reason = s.reason_unknown()
    return status, model, reason


def _check_forked(s, timeout_s):
    """run check() in a forked child so that the time limit is hard: z3's own
    timeout does not cover its preprocessing of very large polynomials"""
    import pickle
    import select
    import signal

    if os.environ.get("SYMX_NO_FORK"):
        return _check_here(s)
    rfd, wfd = os.pipe()
    pid = os.fork()
    if pid == 0:
        try:
            try:
                import ctypes

                ctypes.CDLL("libc.so.6").prctl(1, 9)  # PR_SET_PDEATHSIG, SIGKILL: die with the parent
            except Exception:
                pass
            os.close(rfd)
            try:
                signal.alarm(0)
            except Exception:
                pass
            out = _check_here(s)
            data = pickle.dumps(out)
            with os.fdopen(wfd, "wb") as f:
                f.write(data)
        except BaseException as e:  # pragma: no cover
            try:
                os.write(wfd, pickle.dumps(("unknown", None, "child error: %r" % (e,))))
            except Exception:
                pass
        finally:
            os._exit(0)
    os.close(wfd)
    deadline = time.time() + timeout_s + 5.0
    chunks = []
    status = None
    try:
        while True:
            left = deadline - time.time()
            if left <= 0:
                break
            try:
                rdy, _, _ = select.select([rfd], [], [], min(left, 1.0))
            except InterruptedError:
                continue
            if rdy:
                b = os.read(rfd, 1 << 16)
                if not b:
                    break
                chunks.append(b)
        if chunks:
            try:
                out = pickle.loads(b"".join(chunks))
                return out
            except Exception:
                pass
        return "unknown", None, "hard timeout (solver did not return within %.0f s)" % (timeout_s + 5)
    finally:
        os.close(rfd)
        try:
            os.kill(pid, signal.SIGKILL)
        except ProcessLookupError:
            pass
        try:
            os.waitpid(pid, 0)
        except ChildProcessError:
            pass


def smt2_hash(smt2):
    return hashlib.sha256(smt2.encode()).hexdigest()[:16]


def second_opinion(smt2, timeout_s=30, binary="/usr/bin/z3"):
    """Run an independent solver binary on exported SMT-LIB2.  Returns
    'unsat' / 'sat' / 'unknown' / 'error'."""
    with tempfile.NamedTemporaryFile("w", suffix=".smt2", delete=False, dir=os.environ.get("SYMX_SCRATCH", None)) as f:
        f.write(smt2)
        path = f.name
    try:
        if binary.endswith("cvc5"):
            cmd = [binary, "--tlimit=%d" % int(timeout_s * 1000), path]
        else:
            cmd = [binary, "-T:%d" % int(timeout_s), path]
        try:
            out = subprocess.run(cmd, capture_output=True, text=True, timeout=timeout_s + 10).stdout
        except subprocess.TimeoutExpired:
            return "unknown"
        if "(error" in out:
            return "error"
        for line in out.splitlines():
            line = line.strip()
            if line in ("unsat", "sat", "unknown"):
                return line
        return "unknown"
    finally:
        os.unlink(path)


# ------------------------------------------------------- guard resolution

_ITE_CACHE = {}


def resolve_guards(roots, facts, timeout_s=5.0, max_conditions=40):
    """Replace ite / abs nodes whose condition is decided by the facts
    (solver-proved: facts |= c or facts |= not c).  Returns new roots."""
    facts = [f for f in facts if f is not T.TRUE]
    fkey = tuple(f.id for f in facts)
    conds = []
    for t in T.postorder(roots):
        if t.op == "ite" and t.args[0] not in conds:
            conds.append(t.args[0])
        elif t.op == "abs":
            c = T.ge(t.args[0], T.ZERO)
            if c not in conds:
                conds.append(c)
    if not conds:
        return roots
    conds.sort(key=lambda c: T.size(c))
    truth = {}
    for c in conds[:max_conditions]:
        if c is T.TRUE or c is T.FALSE:
            continue
        key = (c.id, fkey)
        if key not in _ITE_CACHE:
            v = None
            r = solve(facts + [T.bnot(c)], timeout_s)
            if r.status == "unsat":
                v = True
            else:
                r2 = solve(facts + [c], timeout_s)
                if r2.status == "unsat":
                    v = False
            _ITE_CACHE[key] = v
        if _ITE_CACHE[key] is not None:
            truth[c] = _ITE_CACHE[key]
    if not truth:
        return roots
    new = {}
    for t in T.postorder(roots):
        if t.op in ("const", "bconst", "var"):
            new[t] = t
            continue
        if t.op == "ite" and t.args[0] in truth:
            new[t] = new[t.args[1]] if truth[t.args[0]] else new[t.args[2]]
            continue
        if t.op == "abs":
            c = T.ge(t.args[0], T.ZERO)
            if c in truth:
                new[t] = new[t.args[0]] if truth[c] else T.neg(new[t.args[0]])
                continue
        args = [new[a] if isinstance(a, T.Term) else a for a in t.args]
        if all(x is y for x, y in zip(args, t.args)):
            new[t] = t
        else:
            new[t] = T.rebuild(t.op, args, t.sort)
    return [new[r] for r in roots]
