"""Symbolic-aware stand-ins for Python builtins that demand concrete values.
A harness rebinds them as module globals of the module under analysis
(a module-level name shadows the builtin; /repo is not touched)."""
from __future__ import annotations

import builtins

from . import term as T
from .scalar import SymBool, SymReal, known_truth


class _IntMeta(type):
    def __instancecheck__(cls, x):
        return isinstance(x, builtins.int)

    def __subclasscheck__(cls, c):
        return issubclass(c, builtins.int)


class sym_int(metaclass=_IntMeta):
    """int(x): truncation toward zero; symbolic for SymReal"""

    def __new__(cls, x=0, *a):
        if isinstance(x, SymReal):
            t = x.t
            if t.sort == "I":
                return x
            if t.op == "const":
                return builtins.int(t.args[0])
            if known_truth(T.ge(t, T.ZERO)) is True:
                return SymReal(T.floor(t))
            return SymReal(T.ite(T.ge(t, T.ZERO), T.floor(t), T.neg(T.floor(T.neg(t)))))
        if hasattr(x, "arr") and getattr(x.arr, "dtype", None) == object and x.arr.size == 1:
            return sym_int(x.arr.reshape(())[()])
        return builtins.int(x, *a)


class _FloatMeta(type):
    def __instancecheck__(cls, x):
        return isinstance(x, builtins.float)


class sym_float(metaclass=_FloatMeta):
    def __new__(cls, x=0.0):
        if isinstance(x, SymReal):
            if x.t.op == "const":
                return builtins.float(x.t.args[0])
            return SymReal(T.to_real(x.t), x.ang)
        if hasattr(x, "arr") and getattr(x.arr, "dtype", None) == object and x.arr.size == 1:
            return sym_float(x.arr.reshape(())[()])
        return builtins.float(x)


def sym_abs(x):
    return builtins.abs(x)


def _pick(a, b, want_max):
    if isinstance(a, SymReal) or isinstance(b, SymReal):
        a2 = a if isinstance(a, SymReal) else SymReal(T.const(a))
        return a2.maximum(b) if want_max else a2.minimum(b)
    return builtins.max(a, b) if want_max else builtins.min(a, b)


def sym_max(*args, **kw):
    if len(args) == 1:
        args = list(args[0])
    if not any(isinstance(a, SymReal) for a in args):
        return builtins.max(*args, **kw) if len(args) > 1 else builtins.max(args, **kw)
    r = args[0]
    for a in args[1:]:
        r = _pick(r, a, True)
    return r


def sym_min(*args, **kw):
    if len(args) == 1:
        args = list(args[0])
    if not any(isinstance(a, SymReal) for a in args):
        return builtins.min(*args, **kw) if len(args) > 1 else builtins.min(args, **kw)
    r = args[0]
    for a in args[1:]:
        r = _pick(r, a, False)
    return r


def sym_round(x, n=None):
    if isinstance(x, SymReal):
        if x.t.op == "const":
            return builtins.round(builtins.float(x.t.args[0]), n) if n is not None else builtins.round(x.t.args[0])
        return SymReal(T.floor(T.add(x.t, T.const(0.5, "R"))))
    return builtins.round(x, n) if n is not None else builtins.round(x)


def sym_range(*args):
    """range over concrete bounds; symbolic bounds are concretised through the
    explorer by forking on comparisons (bounded by max_len)"""
    conc = []
    for a in args:
        if isinstance(a, SymReal):
            if a.t.op == "const":
                conc.append(builtins.int(a.t.args[0]))
            else:
                return _sym_range_iter(*args)
        elif hasattr(a, "arr"):
            conc.append(builtins.int(a))
        else:
            conc.append(a)
    return builtins.range(*conc)


def _sym_range_iter(*args, max_len=64):
    if len(args) == 1:
        start, stop, step = 0, args[0], 1
    elif len(args) == 2:
        start, stop, step = args[0], args[1], 1
    else:
        start, stop, step = args
    if isinstance(step, SymReal) and step.t.op == "const":
        step = builtins.int(step.t.args[0])
    i = start
    n = 0
    up = builtins.bool(step > 0)  # forks / is forced by the path condition when symbolic
    while (i < stop) if up else (i > stop):
        yield i
        i = i + step
        n += 1
        if n > max_len:
            raise RuntimeError("symbolic range longer than %d" % max_len)
