"""Symbolic scalars with the Python numeric protocol and numpy-ufunc-named
methods, so that numpy object arrays of them behave like float arrays.

SymReal  : a real (or integer) valued Term, optionally known to be an *angle*
           (linear form over angle leaves) so that sin / cos expand exactly.
SymComplex: pair of SymReal.
SymBool  : boolean Term; ``bool()`` of a non-constant SymBool asks the active
           Explorer (symx.fork) which branch to take.
"""
from __future__ import annotations

import math
from fractions import Fraction

import numpy as np

from . import term as T
from .term import Term


class OutOfEncoding(Exception):
    """The code under analysis did something the encoding does not model.
    A harness reports this as 'outside the claim' / harness error, never as a
    pass."""


class Concretization(OutOfEncoding):
    pass


# --------------------------------------------------------------------- context


class Context:
    """Facts are side constraints that define auxiliary variables (Weierstrass
    w, UF axioms) and are always assumed.  definedness collects the conditions
    under which partial operations (sqrt, division, log) are defined."""

    def __init__(self):
        self.facts = []
        self.definedness = []  # (kind, bool Term)
        self.explorer = None
        self.leaves = {}
        self.track_definedness = True

    def fact(self, b):
        if b is not T.TRUE and b not in self.facts:
            self.facts.append(b)

    def need(self, kind, b):
        if self.track_definedness and b is not T.TRUE:
            pc = tuple(self.explorer.pc) if self.explorer is not None else ()
            self.definedness.append((kind, b, pc))


CTX = Context()


def known_truth(t):
    """True / False if the condition (or its negation) is literally among the
    facts or the current path condition; None otherwise."""
    if t is T.TRUE:
        return True
    if t is T.FALSE:
        return False
    n = T.bnot(t)
    for f in CTX.facts:
        if f is t:
            return True
        if f is n:
            return False
    ex = CTX.explorer
    if ex is not None:
        for f in ex.pc:
            if f is t:
                return True
            if f is n:
                return False
    return None


def new_context():
    global CTX
    CTX = Context()
    return CTX


def ctx():
    return CTX


# ---------------------------------------------------------------------- angles

PI = math.pi


class AngleLeaf:
    """theta = D * phi ; (c, s) = (cos phi, sin phi) as Terms."""

    def __init__(self, name, D, c, s, halver=None):
        self.name = name
        self.D = D
        self.c = c
        self.s = s
        self._multi = {0: (T.ONE, T.ZERO), 1: (c, s)}
        self.halver = halver  # () -> (cos, sin) of theta/(2D), for derived angles
        self._half = None

    def half(self):
        """leaf for the same angle with denominator 2D"""
        if self._half is None:
            if self.halver is None:
                raise OutOfEncoding("half of angle %s is not available" % self.name)
            c, s = self.halver()
            self._half = AngleLeaf(self.name + "/2", self.D * 2, c, s)
        return self._half

    def multiple(self, n):
        """(cos(n phi), sin(n phi))"""
        if n < 0:
            c, s = self.multiple(-n)
            return c, T.neg(s)
        if n not in self._multi:
            c1, s1 = self.multiple(n - 1)
            self._multi[n] = (
                T.sub(T.mul(c1, self.c), T.mul(s1, self.s)),
                T.add(T.mul(s1, self.c), T.mul(c1, self.s)),
            )
        return self._multi[n]

    def __repr__(self):
        return "<angle %s/%d>" % (self.name, self.D)


class AngleForm:
    __slots__ = ("lin", "k")

    def __init__(self, lin, k=Fraction(0)):
        self.lin = {l: c for l, c in lin.items() if c != 0}
        self.k = k  # multiple of pi

    def scaled(self, q):
        return AngleForm({l: c * q for l, c in self.lin.items()}, self.k * q)

    def plus(self, other):
        lin = dict(self.lin)
        for l, c in other.lin.items():
            lin[l] = lin.get(l, 0) + c
        return AngleForm(lin, self.k + other.k)

    def plus_const(self, c):
        """c: Fraction value of a double; accepted if it is a multiple of pi/12
        to double precision."""
        if c == 0:
            return self
        r = float(c) / PI * 12
        n = round(r)
        if abs(r - n) > 1e-12 * max(1.0, abs(n)):
            return None
        return AngleForm(self.lin, self.k + Fraction(n, 12))

    def cos_sin(self):
        c, s = T.ONE, T.ZERO
        for leaf, coef in self.lin.items():
            n = coef * leaf.D
            if n.denominator == 2 and leaf.halver is not None:
                leaf = leaf.half()
                n = coef * leaf.D
            if n.denominator != 1:
                raise OutOfEncoding(
                    "angle %s used with coefficient %s but declared with denominator %d"
                    % (leaf.name, coef, leaf.D)
                )
            cl, sl = leaf.multiple(int(n))
            c, s = (
                T.sub(T.mul(c, cl), T.mul(s, sl)),
                T.add(T.mul(s, cl), T.mul(c, sl)),
            )
        k = self.k
        if k != 0:
            q = k * 2
            if q.denominator == 1:
                for _ in range(int(q) % 4):
                    c, s = T.neg(s), c  # add pi/2
            else:
                ck = T.const(math.cos(float(k) * PI), "R")
                sk = T.const(math.sin(float(k) * PI), "R")
                c, s = (
                    T.sub(T.mul(c, ck), T.mul(s, sk)),
                    T.add(T.mul(s, ck), T.mul(c, sk)),
                )
        return c, s


def angle(name, D=2, lo=None, hi=None):
    """A leaf angle theta, parametrised by u = tan(theta / (2 D)) so that
    cos(theta/D) = (1-u^2) w, sin(theta/D) = 2 u w with w (1+u^2) = 1.
    lo/hi: optional bounds on u (Fractions / numbers)."""
    u = T.var("u_" + name)
    w = T.var("w_" + name)
    CTX.fact(T.eq(T.mul(w, T.add(T.ONE, T.mul(u, u))), T.ONE))
    if lo is not None:
        CTX.fact(T.le(T.const(lo, "R"), u))
    if hi is not None:
        CTX.fact(T.le(u, T.const(hi, "R")))
    c = T.mul(T.sub(T.ONE, T.mul(u, u)), w)
    s = T.mul(T.const(2, "R"), u, w)
    leaf = AngleLeaf(name, D, c, s)
    CTX.leaves[name] = leaf
    th = T.var("ang_" + name)
    r = SymReal(th, AngleForm({leaf: Fraction(1)}))
    return r


def derived_angle(name, c, s, D=1, halver=None):
    """An angle known only through (cos, sin) of theta/D."""
    leaf = AngleLeaf(name, D, c, s, halver)
    CTX.leaves[name] = leaf
    return SymReal(T.var("ang_" + name), AngleForm({leaf: Fraction(1)}))


def angle_env(values):
    """{name: theta} -> environment for the u_/w_/ang_ variables of leaf angles."""
    env = {}
    for name, th in values.items():
        D = CTX.leaves[name].D
        u = math.tan(th / (2 * D))
        env["u_" + name] = u
        env["w_" + name] = 1 / (1 + u * u)
        env["ang_" + name] = th
    return env


# --------------------------------------------------------------------- helpers

_NUM = (int, float, Fraction, np.integer, np.floating, np.bool_, bool)


def is_sym(x):
    return isinstance(x, (SymReal, SymComplex, SymBool))


def as_term(x):
    if isinstance(x, SymReal):
        return x.t
    if isinstance(x, Term):
        return x
    return T.const(x)


def lift(x):
    if isinstance(x, (SymReal, SymComplex)):
        return x
    if isinstance(x, (complex, np.complexfloating)):
        return SymComplex(SymReal(T.const(float(x.real), "R")), SymReal(T.const(float(x.imag), "R")))
    if isinstance(x, _NUM):
        return SymReal(T.const(x))
    if isinstance(x, SymBool):
        return SymReal(T.ite(x.t, T.ONE, T.ZERO))
    raise TypeError("cannot lift %r" % (type(x),))


def _real_operand(x):
    """number / SymReal -> SymReal ; else None"""
    if isinstance(x, SymReal):
        return x
    if isinstance(x, _NUM):
        return SymReal(T.const(x))
    if isinstance(x, SymBool):
        return SymReal(T.ite(x.t, T.IONE, T.IZERO))
    if isinstance(x, np.ndarray) and x.ndim == 0:
        return _real_operand(x.item())
    return None


class SymBool:
    __slots__ = ("t",)

    def __init__(self, t):
        if isinstance(t, bool):
            t = T.bconst(t)
        self.t = t

    def __bool__(self):
        t = self.t
        if t is T.TRUE:
            return True
        if t is T.FALSE:
            return False
        k = known_truth(t)
        if k is not None:
            return k
        ex = CTX.explorer
        if ex is None:
            raise Concretization("truth value of symbolic condition %r outside an Explorer" % (t,))
        return ex.decide(t)

    @property
    def is_const(self):
        return self.t is T.TRUE or self.t is T.FALSE

    def __and__(self, o):
        return SymBool(T.band(self.t, _bterm(o)))

    __rand__ = __and__

    def __or__(self, o):
        return SymBool(T.bor(self.t, _bterm(o)))

    __ror__ = __or__

    def __invert__(self):
        return SymBool(T.bnot(self.t))

    def logical_not(self):
        return ~self

    def __eq__(self, o):
        ot = _bterm(o)
        return SymBool(T.bor(T.band(self.t, ot), T.band(T.bnot(self.t), T.bnot(ot))))

    def __ne__(self, o):
        return ~(self == o)

    __hash__ = object.__hash__

    def __repr__(self):
        return "SymBool(%r)" % (self.t,)

    # arithmetic on booleans (mask * value)
    def _num(self):
        return SymReal(T.ite(self.t, T.ONE, T.ZERO))

    def __mul__(self, o):
        return self._num() * o

    __rmul__ = __mul__

    def __add__(self, o):
        return self._num() + o

    __radd__ = __add__


def _bterm(o):
    if isinstance(o, SymBool):
        return o.t
    if isinstance(o, (bool, np.bool_)):
        return T.bconst(bool(o))
    raise TypeError("not a boolean: %r" % (o,))


def sbool(x):
    if isinstance(x, SymBool):
        return x
    return SymBool(T.bconst(bool(x)))


def _maybe_bool(t):
    """constant comparisons collapse to Python bools"""
    if t is T.TRUE:
        return True
    if t is T.FALSE:
        return False
    return SymBool(t)


class SymReal:
    __slots__ = ("t", "ang")

    def __init__(self, t, ang=None):
        self.t = t
        self.ang = ang

    # -- inspection
    @property
    def is_const(self):
        return self.t.op == "const"

    @property
    def is_int(self):
        return self.t.sort == "I"

    def value(self):
        return self.t.args[0]

    def __repr__(self):
        return "Sym(%r)" % (self.t,)

    __hash__ = object.__hash__

    def __float__(self):
        if self.t.op == "const":
            return float(self.t.args[0])
        raise Concretization("float() of symbolic value %r" % (self.t,))

    def __int__(self):
        if self.t.op == "const":
            return int(self.t.args[0])
        raise Concretization("int() of symbolic value %r" % (self.t,))

    def __index__(self):
        if self.t.op == "const" and self.t.args[0].denominator == 1:
            return int(self.t.args[0])
        raise Concretization("index from symbolic value %r" % (self.t,))

    def __complex__(self):
        return complex(float(self))

    def __bool__(self):
        r = self != 0
        return bool(r)

    # -- arithmetic
    def __add__(self, o):
        if isinstance(o, (SymComplex, complex, np.complexfloating)):
            return lift(o).__radd__(self)
        b = _real_operand(o)
        if b is None:
            return NotImplemented
        ang = None
        if self.ang is not None or b.ang is not None:
            if self.ang is not None and b.ang is not None:
                ang = self.ang.plus(b.ang)
            elif self.ang is not None and b.t.op == "const":
                ang = self.ang.plus_const(b.t.args[0])
            elif b.ang is not None and self.t.op == "const":
                ang = b.ang.plus_const(self.t.args[0])
        return SymReal(T.add(self.t, b.t), ang)

    __radd__ = __add__

    def __neg__(self):
        return SymReal(T.neg(self.t), self.ang.scaled(-1) if self.ang is not None else None)

    def __pos__(self):
        return self

    def __sub__(self, o):
        if isinstance(o, (SymComplex, complex, np.complexfloating)):
            return lift(o).__rsub__(self)
        b = _real_operand(o)
        if b is None:
            return NotImplemented
        return self + (-b)

    def __rsub__(self, o):
        b = _real_operand(o)
        if b is None:
            return NotImplemented
        return b + (-self)

    def __mul__(self, o):
        if isinstance(o, (SymComplex, complex, np.complexfloating)):
            return lift(o).__rmul__(self)
        b = _real_operand(o)
        if b is None:
            return NotImplemented
        ang = None
        if self.ang is not None and b.t.op == "const":
            ang = self.ang.scaled(b.t.args[0])
        elif b.ang is not None and self.t.op == "const":
            ang = b.ang.scaled(self.t.args[0])
        return SymReal(T.mul(self.t, b.t), ang)

    __rmul__ = __mul__

    def __truediv__(self, o):
        if isinstance(o, (SymComplex, complex, np.complexfloating)):
            return lift(o).__rtruediv__(self)
        b = _real_operand(o)
        if b is None:
            return NotImplemented
        if b.t.op == "const":
            if b.t.args[0] == 0:
                raise OutOfEncoding("division by constant zero (inf/nan)")
            return self * SymReal(T.const(1 / b.t.args[0], "R"))
        CTX.need("div", T.ne(b.t, T.ZERO))
        return SymReal(T.div(T.to_real(self.t), T.to_real(b.t)))

    def __rtruediv__(self, o):
        b = _real_operand(o)
        if b is None:
            return NotImplemented
        return b.__truediv__(self)

    def __floordiv__(self, o):
        b = _real_operand(o)
        if b is None:
            return NotImplemented
        if self.t.sort == "I" and b.t.sort == "I":
            return SymReal(T.idiv(self.t, b.t))
        return SymReal(T.floor(T.div(T.to_real(self.t), T.to_real(b.t))))

    def __rfloordiv__(self, o):
        return _real_operand(o).__floordiv__(self)

    def __mod__(self, o):
        b = _real_operand(o)
        if b is None:
            return NotImplemented
        if self.t.sort == "I" and b.t.sort == "I":
            return SymReal(T.imod(self.t, b.t))
        q = T.floor(T.div(T.to_real(self.t), T.to_real(b.t)))
        ang = None
        if self.ang is not None and b.t.op == "const" and abs(float(b.t.args[0]) - 2 * PI) < 1e-12:
            ang = self.ang  # reducing an angle modulo 2 pi does not change its sine and cosine
        return SymReal(T.sub(self.t, T.mul(T.to_real(q), b.t)), ang)

    def __rmod__(self, o):
        return _real_operand(o).__mod__(self)

    def __pow__(self, o):
        if isinstance(o, SymReal) and o.t.op == "const":
            o = o.t.args[0]
        if isinstance(o, _NUM):
            f = T.to_fraction(o)
            if f.denominator == 1:
                n = int(f)
                if n < 0:
                    CTX.need("div", T.ne(self.t, T.ZERO))
                return SymReal(T.ipow(self.t, n))
            if f.denominator == 2:
                # x ** (n/2) = sqrt(x) ** n
                r = self.sqrt()
                return r ** int(f.numerator)
            raise OutOfEncoding("power with exponent %s" % (f,))
        if isinstance(o, SymReal):
            # a ** b = exp(b log a)
            return (o * self.log()).exp()
        return NotImplemented

    def __rpow__(self, o):
        b = _real_operand(o)
        if b is None:
            return NotImplemented
        if self.t.op == "const":
            return b ** self.t.args[0]
        if b.t.op == "const" and b.t.args[0] == -1:
            # (-1) ** n for an integer-valued exponent
            e = self.t if self.t.sort == "I" else T.floor(self.t)
            if self.t.sort != "I":
                CTX.need("integer_exponent", T.eq(T.to_real(e), self.t))
            return SymReal(T.ite(T.eq(T.imod(e, T.const(2, "I")), T.IZERO), T.IONE, T.const(-1, "I")))
        return (self * b.log()).exp()

    def __abs__(self):
        if known_truth(T.gt(self.t, T.ZERO)) or known_truth(T.ge(self.t, T.ZERO)):
            return self
        return SymReal(T.absv(self.t))

    # -- comparisons
    def _cmp(self, op, o, swap=False):
        b = _real_operand(o)
        if b is None:
            return NotImplemented
        x, y = (b.t, self.t) if swap else (self.t, b.t)
        return _maybe_bool(T.cmp(op, x, y))

    def __lt__(self, o):
        return self._cmp("<", o)

    def __le__(self, o):
        return self._cmp("<=", o)

    def __gt__(self, o):
        return self._cmp("<", o, swap=True)

    def __ge__(self, o):
        return self._cmp("<=", o, swap=True)

    def __eq__(self, o):
        if o is None or isinstance(o, str):
            return False
        if isinstance(o, (SymComplex, complex, np.complexfloating)):
            return lift(o) == self
        r = self._cmp("==", o)
        return False if r is NotImplemented else r

    def __ne__(self, o):
        if o is None or isinstance(o, str):
            return True
        if isinstance(o, (SymComplex, complex, np.complexfloating)):
            return lift(o) != self
        r = self._cmp("!=", o)
        return True if r is NotImplemented else r

    # -- numpy ufunc protocol (np.sqrt(object_array) calls elem.sqrt())
    def sqrt(self):
        if self.t.op == "const":
            if self.t.args[0] < 0:
                raise OutOfEncoding("sqrt of negative constant (nan)")
            return SymReal(T.sqrt(self.t))
        CTX.need("sqrt", T.ge(self.t, T.ZERO))
        r = T.sqrt(T.to_real(self.t))
        if r.op == "abs" and (known_truth(T.gt(r.args[0], T.ZERO)) or known_truth(T.ge(r.args[0], T.ZERO))):
            r = r.args[0]
        return SymReal(r)

    def square(self):
        return self * self

    def absolute(self):
        return abs(self)

    fabs = absolute

    def conjugate(self):
        return self

    conj = conjugate

    @property
    def real(self):
        return self

    @property
    def imag(self):
        return SymReal(T.ZERO)

    def cos_sin(self):
        if self.t.op == "const":
            v = float(self.t.args[0])
            return SymReal(T.const(math.cos(v), "R")), SymReal(T.const(math.sin(v), "R"))
        if self.ang is not None:
            c, s = self.ang.cos_sin()
            return SymReal(c), SymReal(s)
        c = T.uf("cos", self.t)
        s = T.uf("sin", self.t)
        CTX.fact(T.eq(T.add(T.mul(c, c), T.mul(s, s)), T.ONE))
        return SymReal(c), SymReal(s)

    def cos(self):
        return self.cos_sin()[0]

    def sin(self):
        return self.cos_sin()[1]

    def tan(self):
        if self.t.op == "const":
            return SymReal(T.const(math.tan(float(self.t.args[0])), "R"))
        if self.ang is not None:
            c, s = self.cos_sin()
            return s / c
        return SymReal(T.uf("tan", self.t))

    def arctan(self):
        if self.t.op == "const":
            return SymReal(T.const(math.atan(float(self.t.args[0])), "R"))
        if self.t.op == "uf" and self.t.args[0] == "tan_p":
            return SymReal(self.t.args[1])
        return SymReal(T.uf("arctan", self.t))

    def exp(self):
        if self.t.op == "const":
            return SymReal(T.const(math.exp(float(self.t.args[0])), "R"))
        if self.t.op == "uf" and self.t.args[0] == "log":
            return SymReal(self.t.args[1])
        k, _base = T._split_coef(self.t)
        if k < 0:
            # exp(-x) = 1 / exp(x): one uninterpreted value per |argument|
            return 1 / (-self).exp()
        e = T.uf("exp", self.t)
        CTX.fact(T.gt(e, T.ZERO))
        return SymReal(e)

    def log(self):
        if self.t.op == "const":
            if self.t.args[0] <= 0:
                raise OutOfEncoding("log of non-positive constant")
            return SymReal(T.const(math.log(float(self.t.args[0])), "R"))
        if self.t.op == "uf" and self.t.args[0] == "exp":
            return SymReal(self.t.args[1])
        CTX.need("log", T.gt(self.t, T.ZERO))
        return SymReal(T.uf("log", self.t))

    def tanh(self):
        if self.t.op == "const":
            return SymReal(T.const(math.tanh(float(self.t.args[0])), "R"))
        return SymReal(T.uf("tanh", self.t))

    def arccos(self):
        """acos(x) in [0, pi]: derived angle with cos = x, sin = sqrt(1-x^2)"""
        if self.t.op == "const":
            return SymReal(T.const(math.acos(float(self.t.args[0])), "R"))
        x = self.t
        CTX.need("acos", T.band(T.le(T.const(-1, "R"), x), T.le(x, T.ONE)))
        s = T.sqrt(T.sub(T.ONE, T.mul(x, x)))
        half = T.const(Fraction(1, 2), "R")

        def halver():
            # beta in [0, pi]: cos(beta/2), sin(beta/2) >= 0
            return T.sqrt(T.mul(half, T.add(T.ONE, x))), T.sqrt(T.mul(half, T.sub(T.ONE, x)))

        return derived_angle(T.fresh("acos").args[0], x, s, halver=halver)

    def arcsin(self):
        if self.t.op == "const":
            return SymReal(T.const(math.asin(float(self.t.args[0])), "R"))
        x = self.t
        CTX.need("asin", T.band(T.le(T.const(-1, "R"), x), T.le(x, T.ONE)))
        c = T.sqrt(T.sub(T.ONE, T.mul(x, x)))
        return derived_angle(T.fresh("asin").args[0], c, x)

    def arctan2(self, x):
        """self = y ; atan2(y, x).  TensorFlow: atan2(0, 0) = 0."""
        x = _real_operand(x)
        if self.t.op == "const" and x.t.op == "const":
            return SymReal(T.const(math.atan2(float(self.t.args[0]), float(x.t.args[0])), "R"))
        y = self.t
        xt = x.t
        r = T.sqrt(T.add(T.mul(xt, xt), T.mul(y, y)))
        zero = T.eq(r, T.ZERO)
        c = T.ite(zero, T.ONE, T.div(xt, r))
        s = T.ite(zero, T.ZERO, T.div(y, r))
        half = T.const(Fraction(1, 2), "R")

        def halver():
            # phi in (-pi, pi]: cos(phi/2) >= 0 ; sin(phi/2) has the sign of sin(phi)
            # (phi = pi: sin(phi) = 0, sin(phi/2) = 1)
            ch = T.sqrt(T.mul(half, T.add(T.ONE, c)))
            sh_mag = T.sqrt(T.mul(half, T.sub(T.ONE, c)))
            sh = T.ite(T.ge(s, T.ZERO), sh_mag, T.neg(sh_mag))
            return ch, sh

        return derived_angle(T.fresh("atan2").args[0], c, s, halver=halver)

    def floor(self):
        return SymReal(T.floor(self.t))

    def sign(self):
        return SymReal(T.ite(T.gt(self.t, T.ZERO), T.ONE, T.ite(T.lt(self.t, T.ZERO), T.const(-1, "R"), T.ZERO)))

    def maximum(self, o):
        b = _real_operand(o)
        return SymReal(T.ite(T.ge(self.t, b.t), self.t, b.t))

    def minimum(self, o):
        b = _real_operand(o)
        return SymReal(T.ite(T.le(self.t, b.t), self.t, b.t))

    def isnan(self):
        return False

    def isfinite(self):
        return True


class SymComplex:
    """Complex scalar.  Either Cartesian (re, im) or *polar* mag * exp(i ph)
    with ph an AngleForm: products and quotients of phases add / subtract
    their angle forms exactly (e^{iA} e^{iB} = e^{i(A+B)}) and are expanded
    to Cartesian form only when needed."""

    __slots__ = ("_re", "_im", "mag", "ph")

    def __init__(self, re, im):
        self._re = re if isinstance(re, SymReal) else _real_operand(re)
        self._im = im if isinstance(im, SymReal) else _real_operand(im)
        self.mag = None
        self.ph = None

    @classmethod
    def polar(cls, mag, ph):
        if not ph.lin and ph.k == 0:
            return cls(mag, SymReal(T.ZERO))
        z = cls.__new__(cls)
        z._re = None
        z._im = None
        z.mag = mag
        z.ph = ph
        return z

    def _expand(self):
        c, s = self.ph.cos_sin()
        self._re = self.mag * SymReal(c)
        self._im = self.mag * SymReal(s)

    @property
    def re(self):
        if self._re is None:
            self._expand()
        return self._re

    @property
    def im(self):
        if self._im is None:
            self._expand()
        return self._im

    def __repr__(self):
        return "SymC(%r, %r)" % (self.re.t, self.im.t)

    __hash__ = object.__hash__

    @property
    def real(self):
        return self.re

    @property
    def imag(self):
        return self.im

    def _is_real(self):
        return self.ph is None and self._im.t is T.ZERO

    def __complex__(self):
        return complex(float(self.re), float(self.im))

    def conjugate(self):
        if self.ph is not None:
            return SymComplex.polar(self.mag, self.ph.scaled(-1))
        return SymComplex(self.re, -self.im)

    conj = conjugate

    @staticmethod
    def _co(o):
        if isinstance(o, SymComplex):
            return o
        if isinstance(o, (complex, np.complexfloating)):
            return lift(o)
        r = _real_operand(o)
        if r is None:
            return None
        return SymComplex(r, SymReal(T.ZERO))

    def __add__(self, o):
        b = self._co(o)
        if b is None:
            return NotImplemented
        return SymComplex(self.re + b.re, self.im + b.im)

    __radd__ = __add__

    def __neg__(self):
        if self.ph is not None:
            return SymComplex.polar(-self.mag, self.ph)
        return SymComplex(-self.re, -self.im)

    def __pos__(self):
        return self

    def __sub__(self, o):
        b = self._co(o)
        if b is None:
            return NotImplemented
        return SymComplex(self.re - b.re, self.im - b.im)

    def __rsub__(self, o):
        b = self._co(o)
        if b is None:
            return NotImplemented
        return b - self

    def __mul__(self, o):
        b = self._co(o)
        if b is None:
            return NotImplemented
        if self.ph is not None:
            if b.ph is not None:
                return SymComplex.polar(self.mag * b.mag, self.ph.plus(b.ph))
            if b._is_real():
                return SymComplex.polar(self.mag * b._re, self.ph)
        elif b.ph is not None and self._is_real():
            return SymComplex.polar(self._re * b.mag, b.ph)
        if self._is_real():
            return SymComplex(self._re * b.re, self._re * b.im)
        if b._is_real():
            return SymComplex(self.re * b._re, self.im * b._re)
        return SymComplex(self.re * b.re - self.im * b.im, self.re * b.im + self.im * b.re)

    __rmul__ = __mul__

    def __truediv__(self, o):
        b = self._co(o)
        if b is None:
            return NotImplemented
        if b.ph is not None:
            if self.ph is not None:
                return SymComplex.polar(self.mag / b.mag, self.ph.plus(b.ph.scaled(-1)))
            if self._is_real():
                return SymComplex.polar(self._re / b.mag, b.ph.scaled(-1))
        if b._is_real():
            if self.ph is not None:
                return SymComplex.polar(self.mag / b._re, self.ph)
            return SymComplex(self.re / b._re, self.im / b._re)
        d = b.re * b.re + b.im * b.im
        n = self * b.conjugate()
        return SymComplex(n.re / d, n.im / d)

    def __rtruediv__(self, o):
        b = self._co(o)
        if b is None:
            return NotImplemented
        return b / self

    def __pow__(self, o):
        if isinstance(o, SymReal) and o.t.op == "const":
            o = o.t.args[0]
        if isinstance(o, _NUM):
            f = T.to_fraction(o)
            if f.denominator == 1:
                n = int(f)
                if n < 0:
                    return SymComplex(SymReal(T.ONE), SymReal(T.ZERO)) / (self ** (-n))
                r = SymComplex(SymReal(T.ONE), SymReal(T.ZERO))
                for _ in range(n):
                    r = r * self
                return r
            if f.denominator == 2:
                return self.sqrt() ** int(f.numerator)
        raise OutOfEncoding("complex power %r" % (o,))

    def __abs__(self):
        if self.ph is not None:
            return abs(self.mag)
        if self._is_real():
            return abs(self._re)
        return (self.re * self.re + self.im * self.im).sqrt()

    def absolute(self):
        return abs(self)

    def __eq__(self, o):
        b = self._co(o)
        if b is None:
            return False
        return sbool(self.re == b.re) & sbool(self.im == b.im)

    def __ne__(self, o):
        return ~sbool(self == o)

    def exp(self):
        m = self.re.exp()
        if self.im.t.op != "const" and self.im.ang is not None:
            return SymComplex.polar(m, self.im.ang)
        c, s = self.im.cos_sin()
        return SymComplex(m * c, m * s)

    def sqrt(self):
        """principal square root (branch cut on the negative real axis, as numpy/TF)"""
        if self._is_real():
            x = self.re
            if x.t.op == "const":
                if x.t.args[0] >= 0:
                    return SymComplex(x.sqrt(), SymReal(T.ZERO))
                return SymComplex(SymReal(T.ZERO), (-x).sqrt())
            pos = T.ge(x.t, T.ZERO)
            kt = known_truth(pos)
            if kt is True:
                return SymComplex(SymReal(T.sqrt(x.t)), SymReal(T.ZERO))
            a = T.sqrt(T.absv(x.t))
            return SymComplex(SymReal(T.ite(pos, a, T.ZERO)), SymReal(T.ite(pos, T.ZERO, a)))
        r = abs(self)
        re = ((r + self.re) / 2).sqrt()
        im_mag = ((r - self.re) / 2).sqrt()
        sgn = T.ite(T.ge(self.im.t, T.ZERO), T.ONE, T.const(-1, "R"))
        return SymComplex(re, SymReal(T.mul(sgn, im_mag.t)))

    def angle(self):
        return self.im.arctan2(self.re)

    def isnan(self):
        return False


# ---------------------------------------------------------------- construction


def real(name):
    return SymReal(T.var(name, "R"))


def integer(name):
    return SymReal(T.var(name, "I"))


def boolean(name):
    return SymBool(T.bvar(name))


def cplx(name):
    return SymComplex(real(name + "_re"), real(name + "_im"))


def assume(b):
    """Add a precondition (bool SymBool / Term / Python bool) to the context facts."""
    if isinstance(b, SymBool):
        CTX.fact(b.t)
    elif isinstance(b, Term):
        CTX.fact(b)
    elif b is True or b is np.True_:
        return
    elif b is False or b is np.False_:
        CTX.fact(T.FALSE)
    else:
        raise TypeError(b)
