#!/bin/sh
# Idempotent, offline bootstrap of the overlay interpreter used by every check.
# /verif/.venv = venv of /venv/bin/python, chained to /venv's site-packages
# (tf-pwa's own dependencies) plus z3-solver / cvc5 / crosshair-tool from the
# offline wheelhouse.  Nothing is fetched from a network.
set -e
HERE="$(cd "$(dirname "$0")" && pwd)"
VENV="$HERE/.venv"
STAMP="$VENV/.ready3"
if [ -f "$STAMP" ] && "$VENV/bin/python" -c "import z3, numpy" >/dev/null 2>&1; then
    exit 0
fi
# serialise concurrent bootstraps (several checks may start at once)
LOCK="$HERE/.venv.lock"
exec 9>"$LOCK"
flock 9
if [ -f "$STAMP" ] && "$VENV/bin/python" -c "import z3, numpy" >/dev/null 2>&1; then
    exit 0
fi
rm -rf "$VENV"
/venv/bin/python -m venv "$VENV"
SP="$("$VENV/bin/python" -c 'import sysconfig; print(sysconfig.get_paths()["purelib"])')"
BASE_SP="$(/venv/bin/python -c 'import sysconfig; print(sysconfig.get_paths()["purelib"])')"
printf 'import site; site.addsitedir(%s)\n' "'$BASE_SP'" > "$SP/zz_chain_venv.pth"
PIP_NO_INDEX=1 "$VENV/bin/python" -m pip install -q --no-index \
    --find-links /opt/veriftools/wheels z3-solver cvc5 crosshair-tool >/dev/null 2>&1 || \
PIP_NO_INDEX=1 "$VENV/bin/python" -m pip install -q --no-index \
    --find-links /opt/veriftools/wheels z3-solver
"$VENV/bin/python" -c "import z3, numpy, sympy; print('overlay ok: z3', z3.get_version_string())"
touch "$STAMP"
