#!/bin/sh
# tools/try_wt.sh <worktree> <Cxx> [tier] [extra args] : run a check against a changed worktree (TF_PWA_REPO), evidence diverted
WT=$1; C=$2; T=${3:-quick}; shift 3 2>/dev/null
mkdir -p /tmp/ev_trial
cd /verif && TF_PWA_REPO=$WT VERIF_EVIDENCE_DIR=/tmp/ev_trial timeout 3000 ./check $C --tier $T "$@" 2>&1 | grep -v "^violated" | cut -c1-400 | tail -8
