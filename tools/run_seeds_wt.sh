#!/bin/sh
# tools/run_seeds_wt.sh [pattern] : for every seeded change (matching pattern), make a scratch worktree of /repo, apply the
# patch there, run the property's quick check against it (TF_PWA_REPO; evidence diverted), remove the worktree.
# /repo itself is not touched.  Appends to seeded/RESULTS.txt (one line per seed).
PAT=${1:-}
OUT=/verif/seeded/RESULTS.txt
mkdir -p /tmp/ev_trial
for d in /verif/seeded/*${PAT}*/; do
  n=$(basename $d)
  [ -f $d/meta.json ] || continue
  p=$(python3 -c "import json;print(json.load(open('$d/meta.json'))['property'])")
  c=$(python3 -c "import json;m=json.load(open('$d/meta.json'));import re;x=re.search(r'apply: ./check (C\d\d)', m.get('caught_by',''));print(x.group(1) if x else m['property'])")
  wt=/tmp/seedwt_$n
  git -C /repo worktree add --detach $wt HEAD >/dev/null 2>&1
  if ! git -C $wt apply $d/patch.diff 2>/dev/null; then echo "$n $p APPLY-FAILED" >> $OUT; git -C /repo worktree remove --force $wt; continue; fi
  (cd /verif && TF_PWA_REPO=$wt VERIF_EVIDENCE_DIR=/tmp/ev_trial timeout 3000 ./check $c --tier quick > /tmp/seedrun_$n.log 2>&1; echo $? > /tmp/seedrun_$n.code)
  code=$(cat /tmp/seedrun_$n.code)
  v=$(grep -c "^VIOLATION" /tmp/seedrun_$n.log)
  sed -i "/^$n /d" $OUT
  echo "$n $p check=$c exit=$code violations=$v $(grep '^violated obligation' /tmp/seedrun_$n.log | head -1 | cut -c1-120)" >> $OUT
  git -C /repo worktree remove --force $wt
done
git -C /repo worktree prune
