#!/bin/sh
# tools/run_all_seeds.sh [tier] : apply every seeded change in turn, run its property's check, undo; writes seeded/RESULTS.txt
T=${1:-quick}
OUT=/verif/seeded/RESULTS.txt
: > $OUT
cd /repo && git diff --quiet || { echo "/repo has local changes"; exit 9; }
for d in /verif/seeded/*/; do
  n=$(basename $d)
  p=$(python3 -c "import json;print(json.load(open('$d/meta.json'))['property'])")
  cd /repo && git apply $d/patch.diff || { echo "$n $p APPLY-FAILED" >> $OUT; continue; }
  cd /verif && timeout 3000 ./check $p --tier $T > /tmp/seedrun_$n.log 2>&1
  code=$?
  v=$(grep -c "^VIOLATION" /tmp/seedrun_$n.log)
  echo "$n $p exit=$code violations=$v $(grep '^violated obligation' /tmp/seedrun_$n.log | head -1 | cut -c1-120)" >> $OUT
  cd /repo && git checkout -- .
done
cat $OUT
