#!/usr/bin/env python3
"""tools/store_seed.py <seed-name> <property> <src dir> --needs "..." --ran "..." --caught "..." """
import argparse, json, os, shutil
ap = argparse.ArgumentParser()
ap.add_argument("name"); ap.add_argument("prop"); ap.add_argument("src")
ap.add_argument("--needs", default=""); ap.add_argument("--ran", default=""); ap.add_argument("--caught", default=""); ap.add_argument("--summary", default="")
a = ap.parse_args()
dst = os.path.join("/verif/seeded", a.name)
os.makedirs(dst, exist_ok=True)
for f in ("patch.diff", "demo.py", "notes.md"):
    if os.path.exists(os.path.join(a.src, f)):
        shutil.copy(os.path.join(a.src, f), os.path.join(dst, f))
json.dump({"property": a.prop, "summary": a.summary, "needs_to_manifest": a.needs, "confirmed_by": a.ran, "caught_by": a.caught,
           "apply": "git -C /repo apply /verif/seeded/%s/patch.diff ; ./check %s --tier quick ; git -C /repo checkout -- ." % (a.name, a.prop)}, open(os.path.join(dst, "meta.json"), "w"), indent=1)
print("stored", dst)
