#!/usr/bin/env python3
"""Regenerate MANIFEST.json from the props modules (CLAIM / NOTE / TECHNIQUE) and
tools/not_applicable.json.  Run with /verif/.venv/bin/python."""
import ast
import json
import os
import sys

HERE = os.path.dirname(os.path.dirname(os.path.abspath(__file__)))


def consts(path):
    tree = ast.parse(open(path).read())
    out = {}
    for node in tree.body:
        if isinstance(node, ast.Assign) and len(node.targets) == 1 and isinstance(node.targets[0], ast.Name):
            try:
                out[node.targets[0].id] = ast.literal_eval(node.value)
            except Exception:
                pass
    return out


props = [json.loads(l) for l in open(os.path.join(HERE, "properties.jsonl"))]
ids = [p["id"] for p in props]
na = json.load(open(os.path.join(HERE, "tools", "not_applicable.json")))
checks = []
claimed = set()
for pid in ids:
    path = os.path.join(HERE, "props", pid + ".py")
    if not os.path.exists(path):
        continue
    c = consts(path)
    if not c.get("CLAIM"):
        continue
    claimed.add(pid)
    checks.append(
        {
            "property_id": pid,
            "quick_cmd": "./check %s --tier quick" % pid,
            "thorough_cmd": "./check %s --tier thorough" % pid,
            "evidence_file": "evidence/%s.json" % pid,
            "replay_cmd_template": "./check %s --replay {path}" % pid,
            "engine": "symx",
            "level_claimed": {"category": c.get("LEVEL", "other"), "text": (c["CLAIM"] + " " + c.get("CLAIM_EXTRA", "")).strip(), "design_ref": "DESIGN.md section 5, " + pid + "; Part A"},
            "level_note": "; ".join(x for x in (c.get("NOTE", ""), c.get("NOTE_EXTRA", "")) if x),
            "technique": c.get("TECHNIQUE", "symbolic execution of the real Python on a substitute tensorflow, obligations decided by z3 (SMT)"),
        }
    )
not_applicable = []
for pid in ids:
    if pid in claimed:
        continue
    reason = na.get(pid, "harness not built yet (see DESIGN.md); no claim is made")
    not_applicable.append({"property_id": pid, "reason": reason})
man = {
    "version": 1,
    "setup_cmd": "./setup.sh",
    "hooks": {
        "guard": "TF_PWA_VERIF",
        "enable": "no source hooks are needed: checks substitute sys.modules['tensorflow'] and rebind module globals from the harness process; the guard name is reserved and unused by /repo",
        "baseline_off_cmd": "cd /repo && /venv/bin/python -m pytest -ra -q -p no:cacheprovider --timeout=900 --continue-on-collection-errors",
        "source_commits": [],
        "add_only": True,
    },
    "engines": [
        {
            "name": "symx",
            "path": "symx/",
            "serves_properties": sorted(claimed),
            "kind_free_text": "symbolic execution of the unmodified tf-pwa sources on a symbolic substitute for the tensorflow module (expression DAGs over symbolic reals), lowered to z3 (QF_NRA/LRA/LIA); path forking by re-execution; counterexamples replayed on the real code under the real TensorFlow",
        }
    ],
    "checks": checks,
    "not_applicable": not_applicable,
    "notes": "exit codes: 0 held / known findings only, 1 VIOLATION (replayed on the real code), 2 inconclusive (solver unknown on an obligation of the claim), 3 harness error (encoding/conformance problem; not a verdict). Fix commits in /repo: see known_findings.json.",
}
json.dump(man, open(os.path.join(HERE, "MANIFEST.json"), "w"), indent=1)
print("claimed:", sorted(claimed), "not applicable:", [x["property_id"] for x in not_applicable])
