#!/bin/sh
# tools/try_seed.sh <patch> <Cxx> [tier] : apply a seeded change to /repo, run the check, undo it
P=$1; C=$2; T=${3:-quick}
cd /repo && git apply "$P" || exit 9
cd /verif && timeout 3000 ./check $C --tier $T 2>&1 | grep -v "^violated" | cut -c1-400 | tail -6
echo "check exit: $?"
cd /repo && git checkout -- . && git status --short | head -3
