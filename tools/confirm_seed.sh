#!/bin/sh
# tools/confirm_seed.sh <Cxx> <seed dir> <worktree> <pytest targets...>
# confirms a seeded change: demo passes on /repo, fails on the changed worktree, given tests pass there
C=$1; SD=$2; WT=$3; shift 3
export TF_CPP_MIN_LOG_LEVEL=3 CUDA_VISIBLE_DEVICES=
echo "== demo on unchanged /repo"; (cd /repo && /venv/bin/python -W ignore $SD/demo.py >/tmp/confirm_$C.a 2>&1; echo "exit $?")
echo "== demo on changed worktree"; (cd $WT && /venv/bin/python -W ignore $SD/demo.py >/tmp/confirm_$C.b 2>&1; echo "exit $?")
tail -3 /tmp/confirm_$C.b
echo "== tests in changed worktree: $@"; (cd $WT && /venv/bin/python -m pytest -q -p no:cacheprovider --timeout=900 "$@" 2>&1 | tail -3)
